#!/venv/bin/python
"""rename_locals.py <tree> [suffix] -- behaviour-preserving stress variant: in every function of <tree>/luna/gateware, rename each
local variable bound by `name = Signal(...)` (or Signal.like) to name+suffix, at every ast.Name occurrence inside that function
(nested closures included).  Only local Python names change; no port, attribute or keyword is touched.  Used by
tools/benign_rename_check.sh to make sure no rule keys on a local variable name."""
import ast, os, sys

root = sys.argv[1]
suffix = sys.argv[2] if len(sys.argv) > 2 else '_q'
ALL = '--all' in sys.argv          # rename every plainly assigned local (records, submodule handles, aliases), not only Signals
sys.path.insert(0, os.path.dirname(os.path.dirname(os.path.abspath(__file__))))
sys.dont_write_bytecode = True
from sa import alpha
n_files = n_names = 0
for dp, dn, fn in os.walk(os.path.join(root, 'luna', 'gateware')):
    for f in fn:
        if not f.endswith('.py'):
            continue
        p = os.path.join(dp, f)
        src = open(p).read()
        try:
            tree = ast.parse(src)
        except SyntaxError:
            continue
        edits = {}                                         # (line, col) -> old name
        for fun in ast.walk(tree):
            if not isinstance(fun, (ast.FunctionDef, ast.AsyncFunctionDef)):
                continue
            names = set()
            for st in ast.walk(fun):
                if isinstance(st, ast.Assign) and len(st.targets) == 1 and isinstance(st.targets[0], ast.Name) and \
                        isinstance(st.value, ast.Call):
                    c = st.value.func
                    if (isinstance(c, ast.Name) and c.id == 'Signal') or \
                            (isinstance(c, ast.Attribute) and c.attr == 'like' and isinstance(c.value, ast.Name) and c.value.id == 'Signal'):
                        names.add(st.targets[0].id)
            # do not touch names that are also parameters / globals / nonlocals of this or a nested function
            bad = set()
            for sub in ast.walk(fun):
                if isinstance(sub, (ast.FunctionDef, ast.AsyncFunctionDef, ast.Lambda)):
                    a = sub.args
                    for x in a.args + a.kwonlyargs + a.posonlyargs + ([a.vararg] if a.vararg else []) + ([a.kwarg] if a.kwarg else []):
                        bad.add(x.arg)
                if isinstance(sub, (ast.Global, ast.Nonlocal)):
                    bad |= set(sub.names)
            if ALL:
                names = {n for n, _ in alpha.local_bindings(fun)}
            names -= bad
            if not names:
                continue
            for nd in ast.walk(fun):
                if isinstance(nd, ast.Name) and nd.id in names:
                    edits[(nd.lineno, nd.col_offset)] = nd.id
        if not edits:
            continue
        lines = src.split('\n')
        for (ln, col), old in sorted(edits.items(), reverse=True):
            line = lines[ln - 1]
            # col_offset is in utf-8 bytes
            b = line.encode('utf-8')
            assert b[col:col + len(old)].decode() == old, (p, ln, col, old)
            lines[ln - 1] = (b[:col] + (old + suffix).encode() + b[col + len(old):]).decode('utf-8')
        new = '\n'.join(lines)
        ast.parse(new)
        open(p, 'w').write(new)
        n_files += 1
        n_names += len(edits)
print('renamed %d occurrences in %d files' % (n_names, n_files))
