#!/venv/bin/python
"""dump_ir.py ClassName [module-suffix] [kw=val ...]  -- print the extracted IR of one class (debug aid)."""
import ast, os, sys
sys.dont_write_bytecode = True
sys.path.insert(0, os.path.dirname(os.path.dirname(os.path.abspath(__file__))))
from sa.index import RepoIndex
from sa.interp import extract
args = [a for a in sys.argv[1:] if a != '--signals']
repo = '/repo'
if '--repo' in args:
    i = args.index('--repo'); repo = args[i + 1]; del args[i:i + 2]
name = args[0]
mod = None
kw = {}
for a in args[1:]:
    if '=' in a:
        k, v = a.split('=', 1)
        try:
            kw[k] = ast.literal_eval(v)
        except Exception:
            kw[k] = v
    else:
        mod = a
idx = RepoIndex(repo)
ir = extract(idx, idx.find_class(name, mod), kw or None)
for f in ir.fsms:
    print('FSM', f.id, 'domain', f.domain, 'init', f.init, 'states', f.states)
    for e in f.edges:
        print('   ', e)
for a in ir.assigns:
    print(a)
print('SUBMODULES', [(s.name, s.obj.clsname, {k: v for k, v in s.obj.kwargs.items() if isinstance(v, (int, float, str, bool))}) for s in ir.submodules])
print('OPAQUE', ir.opaque)
if '--signals' in sys.argv:
    for n, s in sorted(ir.signals.items()):
        print('SIG', n, 'w=%s rng=%s init=%s' % (s.w, s.rng, s.init))
