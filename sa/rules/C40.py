"""C40 -- each received data packet is reported good or bad exactly once."""
from ..ir import E
from .. import q
from ..fsm import must_exit, state_outcomes, reaches

TITLE = 'data packet good/bad exactly once'
FLOOR = 12
DECIDES = ('(a) the state of DataPacketReceiver that raises packet_good raises good and bad in the two arms of one CRC32 '
           'comparison and, whenever sink.valid holds, leaves to the initial state on every path; without sink.valid it '
           'neither moves nor strobes; (b) every transition, registered capture and good/bad strobe that depends on the '
           'received word (sink data/ctrl, directly or through combinational locals) is guarded by sink.valid; '
           '(c) from the accepted-header edge on, every edge back to the initial state coincides with exactly one strobe '
           'and no strobe is raised without leaving; (d) per-byte valid bits are (remaining > i) & sink.valid, the CRC32 '
           'advance selects decode valid == 1111/0111/0011/0001, the remaining-byte counter is loaded from the '
           'header length field dw1[16:32] and decremented by 4 only while more than 4 remain; the trailing-CRC '
           'reassembly cases take 4-k bytes from the previous word for k valid bytes; the counter holds the maximum packet size 1024. ')
NOT_DECIDED = 'value-level CRC equality (C30) and the payload byte stream contents.'
V = 'self.sink.valid'


def run(ctx):
    ir = ctx.ir('DataPacketReceiver', 'usb3.link.data')
    fsm = ctx.the_fsm(ir)
    init = fsm.init
    good = q.raises(ir, 'self.packet_good')
    bad = q.raises(ir, 'self.packet_bad')
    ctx.need(len(good) == 1 and bad, 'packet_good / packet_bad drivers')
    cs = q.state_of(good[0])
    ctx.need(cs is not None, 'packet_good is raised inside an FSM state')
    # (a)
    ok, cex = must_exit(fsm, cs, {V: True}, targets={init})
    ctx.ob('C40.decide-and-leave', 'DataPacketReceiver.crc-state.exit', ok, fsm.state_loc[cs],
           'the CRC decision state must leave to the initial state on every path once the word is valid: %s' % (cex,))
    hold = state_outcomes(fsm, cs, {V: False})
    ctx.ob('C40.decide-and-leave', 'DataPacketReceiver.crc-state.hold', set(hold) == {None}, fsm.state_loc[cs],
           'the CRC decision state must wait while sink.valid is low: outcomes %s' % sorted(map(str, hold)))
    bad_here = [a for a in bad if q.state_of(a) == cs]
    # one truth table for both strobes over every condition their drivers mention (whatever the spelling: two arms of
    # an If/Else, or good.eq(cmp) / bad.eq(~cmp)): never both; good needs the comparison with crc32.crc to hold, bad needs
    # it to fail; and flipping the comparison alone swaps the two
    G, B = 'self.packet_good', 'self.packet_bad'
    tab = [(asg, v) for asg, v in q.flag_values(ir, (G, B), cs)]
    cmp_atoms = sorted({k for asg, _ in tab for k in asg if 'crc32.crc' in k and ' == ' in k})
    why = None
    if len(cmp_atoms) != 1 or not bad_here:
        why = 'comparisons with crc32.crc: %s' % cmp_atoms
    else:
        c = cmp_atoms[0]
        look = {frozenset(asg.items()): v for asg, v in tab}
        for asg, v in tab:
            other = look[frozenset(dict(asg, **{c: not asg[c]}).items())]
            if (v[G] and v[B]) or (v[G] and not asg[c]) or (v[B] and asg[c]) or v[G] != other[B]:
                why = 'good=%s bad=%s when %s (and with the comparison flipped good=%s bad=%s)' % (v[G], v[B], asg, other[G], other[B])
                break
    ctx.ob('C40.two-arms', 'DataPacketReceiver.crc-state.good-xor-bad', why is None, good[0].loc,
           'good and bad must be the two outcomes of one comparison with crc32.crc: %s' % why)
    # the payload CRC starts from its initial value for every packet: on every path from a state that advances the CRC
    # back to such a state the CRC is cleared -- in a state that raises crc32.clear whenever it is occupied, or on an edge
    # whose conditions include those of a clear.  (A clear only at the end of the normal path leaves the residue of an
    # aborted payload in place: the next, valid packet is then reported bad.)
    crcsub = [sm.name for sm in ir.submodules if getattr(getattr(sm, 'obj', None), 'clsname', None) == 'DataPacketPayloadCRC']
    ctx.need(len(crcsub) == 1, 'the payload CRC32 submodule of DataPacketReceiver')
    CP = crcsub[0] + '.'
    adv = [a for a in ir.assigns if a.lhs.canon().startswith(CP + 'advance') and not q.is_zero(a.rhs)]
    clr = q.raises(ir, CP + 'clear')
    ctx.need(adv and all(a.state for a in adv) and clr, 'advance / clear drivers of the payload CRC32')
    A = {q.state_of(a) for a in adv}
    always = {q.state_of(c) for c in clr if c.state and not [x for x in q.atoms(c)]}
    bad_path = None
    if any(c.state is None and not q.atoms(c) for c in clr):
        pass                                    # cleared in every cycle outside ... nothing to check structurally
    else:
        def clearing(e):
            return any((c.state is None or q.state_of(c) == e.src) and q.atoms(c) <= q.atoms(e) for c in clr)
        work = [e for e in fsm.edges if e.src in A and e.dst not in A and not clearing(e)]
        seen_s = set()
        trail = {}
        while work and bad_path is None:
            e = work.pop()
            s_ = e.dst
            if s_ in A:
                bad_path = e
                break
            if s_ in always or s_ in seen_s:
                continue
            seen_s.add(s_)
            for e2 in fsm.out_edges(s_):
                if not clearing(e2):
                    trail[id(e2)] = e
                    work.append(e2)
    ctx.ob('C40.crc-restarts', 'DataPacketReceiver.crc32.clear-before-every-payload', bad_path is None,
           bad_path.loc if bad_path is not None else clr[0].loc,
           'a path leaves the payload state(s) %s and returns there without clearing the payload CRC32 (last edge %s): a packet '
           'following an aborted one is checked against a CRC that did not start from its initial value' % (
               sorted(A), q.fmt(bad_path) if bad_path is not None else None))
    # (b) valid gating of every decision that depends on the received word
    word = {'self.sink.payload', 'self.sink.ctrl'}
    n = 0
    for item in list(fsm.edges) + [a for a in ir.assigns if a.state and (a.domain != 'comb' or a in good or a in bad)]:
        reads = set()
        for l in item.guard:
            if isinstance(l.e, E):
                reads |= q.support(ir, l.e)
        if getattr(item, 'kind', '') == 'assign' and isinstance(item.rhs, E):
            reads |= q.support(ir, item.rhs)
        if not (reads & word):
            continue
        n += 1
        st = item.state[1]
        role = 'edge' if item.kind == 'edge' else item.lhs.canon()
        ctx.ob('C40.valid-gate', 'DataPacketReceiver.%s@%s' % (role, _srole(fsm, st, cs, init)), q.has(item, V), item.loc,
               'a decision reading the received word must be guarded by sink.valid: %s' % q.fmt(item))
    ctx.need(n >= 8, 'valid-gated decision sites (found %d)' % n)
    # (c) exactly one strobe per accepted packet
    acc = [e for e in fsm.edges if any(a.lhs.canon() == 'self.new_header' and q.atoms(a) == q.atoms(e)
                                       for a in ir.assigns if a.state == e.state)]
    ctx.need(len(acc) == 1, 'the accepted-header edge (raises new_header)')
    body = set()
    work = [acc[0].dst]
    while work:
        s = work.pop()
        if s in body or s == init:
            continue
        body.add(s)
        work += [e.dst for e in fsm.out_edges(s)]
    strobes = good + bad
    for s in sorted(body):
        for e in fsm.out_edges(s):
            if e.dst != init:
                continue
            same = [a for a in strobes if q.state_of(a) == s and q.atoms(a) <= q.atoms(e) | q.atoms(a) and
                    _covers(e, [x for x in strobes if q.state_of(x) == s])]
            ctx.ob('C40.exit-with-strobe', 'DataPacketReceiver.%s->init' % _srole(fsm, s, cs, init), bool(same), e.loc,
                   'leaving a packet body state must coincide with packet_good or packet_bad: %s' % q.fmt(e))
        for a in strobes:
            if q.state_of(a) != s:
                continue
            outs = state_outcomes(fsm, s, {x: p for x, p in q.atoms(a)})
            ctx.ob('C40.strobe-leaves', 'DataPacketReceiver.%s@%s' % (a.lhs.canon(), _srole(fsm, s, cs, init)),
                   set(outs) == {init}, a.loc, 'a good/bad strobe must end the packet (go to the initial state): '
                   'outcomes %s' % sorted(map(str, outs)))
    for a in strobes:
        ctx.ob('C40.strobe-scope', 'DataPacketReceiver.%s-in-body' % a.lhs.canon(), q.state_of(a) in body, a.loc,
               'good/bad may only be raised after an accepted data header')
    # (d) masks, selects, length
    for i in range(4):
        bd = q.bits_drivers(ir, 'self.source.valid', i, i + 1)          # bit i, written on its own or inside a Cat()
        d = [x for x, _ in bd]
        want_v = {(('data_bytes_remaining >= %d' % (i + 1), True) if i else ('0 == data_bytes_remaining', False)), ('self.sink.valid', True)}
        # the bit is 1 exactly under (remaining > i) & sink.valid: one driver that can raise it, the condition split between
        # its guard and its expression in any way; drivers of 0 count only if a later one could override the raise
        def zero(x, ex):
            return q.is_zero(ex) if ex is not None else q.is_zero(x.rhs)
        nz = [(x, ex) for x, ex in bd if not zero(x, ex)]
        zs = [x for x, ex in bd if zero(x, ex)]
        ok = len(nz) == 1 and nz[0][1] is not None and (q.conj(nz[0][1]) if not q.is_one(nz[0][1]) else set()) | q.atoms(nz[0][0]) == want_v and \
            not [z for z in zs if z.order > nz[0][0].order and all((a_, not p_) not in want_v for a_, p_ in q.atoms(z))]
        ctx.ob('C40.byte-valid', 'DataPacketReceiver.source.valid[%d]' % i, ok, d[0].loc if d else None,
               'valid[%d] must be (remaining > %d) & sink.valid' % (i, i))
    for port, val in (('advance_word', 15), ('advance_3B', 7), ('advance_2B', 3), ('advance_1B', 1)):
        d = ir.drivers('crc32.' + port, exact=True)
        ok = len(d) == 1 and d[0].rhs.canon() == '%d == self.source.valid' % val
        ctx.ob('C40.crc-select', 'DataPacketReceiver.crc32.' + port, ok, d[0].loc if d else None,
               'crc32.%s must decode source.valid == %s' % (port, bin(val)))
    ld = [d for d in ir.drivers('data_bytes_remaining', exact=True)]
    load = [d for d in ld if d.rhs.canon() == 'header.dw1[16:32]']
    dec = [d for d in ld if d.rhs.canon() == 'data_bytes_remaining - 4']
    ctx.ob('C40.length', 'DataPacketReceiver.remaining.load', len(load) == 1 and q.atoms(load[0]) == q.atoms(acc[0]),
           load[0].loc if load else None, 'remaining bytes loaded from dw1[16:32] on the accepted-header edge')
    ctx.ob('C40.length', 'DataPacketReceiver.remaining.dec', len(dec) == 1 and len(ld) == 2 and
           q.atoms(dec[0]) == {(V, True), ('data_bytes_remaining >= 5', True)}, dec[0].loc if dec else None,
           'remaining bytes decremented by 4 per valid word while more than 4 remain')
    # the byte counter is loaded from the 16-bit Data Length field, whose largest legal value is the maximum packet size:
    # it must be able to hold it, otherwise a maximum-size packet is taken for a shorter one (truncation on the load)
    si = ir.signals.get('data_bytes_remaining')
    mps = ctx.const('DataPacketReceiver', 'MAX_PACKET_SIZE') if hasattr(ctx, 'const') else None
    if not isinstance(mps, int):
        mps = 1024                      # USB 3.2 8.6: maximum data packet payload
    ctx.ob('C40.length', 'DataPacketReceiver.remaining.capacity', si is not None and si.w is not None and (1 << si.w) > mps,
           si.loc if si is not None else None,
           'the remaining-bytes counter (width %s) must hold the maximum packet size %d' % (getattr(si, 'w', None), mps))
    for k, (pv, want) in enumerate(((15, 'self.sink.payload'), (7, 'Cat(previous_word[24:32], self.sink.payload[0:24])'),
                                    (3, 'Cat(previous_word[16:32], self.sink.payload[0:16])'),
                                    (1, 'Cat(previous_word[8:32], self.sink.payload[0:8])'))):
        d = [x for x in ir.drivers('data_to_check', exact=True) if q.has(x, '%d == previous_valid' % pv)]
        ok = len(d) == 1 and d[0].rhs.canon() == want
        ctx.ob('C40.crc-reassembly', 'DataPacketReceiver.data_to_check[%s]' % bin(pv), ok, d[0].loc if d else None,
               'with previous valid mask %s the CRC word is %s' % (bin(pv), want))


def _covers(edge, strobes):
    """Under the edge's guard, is some strobe raised on every path?  (the strobes' extra atoms must cover)."""
    from ..fsm import assignments, holds, guard_atoms
    base = {a: p for a, p in guard_atoms(edge.guard)}
    from ..fsm import lit_atoms
    atoms = [a for s in strobes for l in s.guard for a in lit_atoms(l)]
    for asg in assignments(atoms, base):
        if not any(holds(s.guard, asg) for s in strobes):
            return False
    return True


def _srole(fsm, st, cs, init):
    if st == cs:
        return 'crc-state'
    if st == init:
        return 'init'
    return 'state#%d' % fsm.states.index(st)
