from amaranth import *
from amaranth.sim import Simulator
from amaranth.hdl.rec import Record
from luna.gateware.interface.ulpi import UTMITranslator
ulpi = Record([('data',[('i',8),('o',8),('oe',1)]),('clk',[('o',1)]),('nxt',[('i',1)]),('stp',[('o',1)]),('dir',[('i',1)])])
dut = UTMITranslator(ulpi=ulpi, handle_clocking=False)
sim = Simulator(dut); sim.add_clock(1/60e6, domain='usb')
async def tb(ctx):
    for _ in range(20): await ctx.tick('usb')
    # PHY takes the bus to report an RxCmd (line_state = 01)
    ctx.set(ulpi.dir.i,1); await ctx.tick('usb')            # turnaround
    ctx.set(ulpi.data.i,0b00000001); await ctx.tick('usb'); await ctx.tick('usb')
    print('line_state after RxCmd 01:', ctx.get(dut.line_state))
    # the device changes a control input -> register write pending, waits for DIR to fall
    ctx.set(dut.term_select,1)
    for _ in range(4): await ctx.tick('usb')
    # PHY reports a new RxCmd while still holding the bus: line_state = 10, RxActive
    ctx.set(ulpi.data.i,0b00010010); await ctx.tick('usb'); await ctx.tick('usb'); await ctx.tick('usb')
    print('line_state after RxCmd 10 (write pending):', ctx.get(dut.line_state), 'rx_active:', ctx.get(dut.rx_active))
sim.add_testbench(tb); sim.run()
