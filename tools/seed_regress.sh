#!/bin/bash
# seed_regress.sh [seed-id ...] -- re-apply every kept seeded change to /repo (transiently) and confirm that the checks
# recorded in its meta.json as detecting it still exit 1 with a VIOLATION line; always restores /repo.
cd /verif
[ -z "$(git -C /repo status --short)" ] || { echo "/repo not clean"; exit 2; }
ids=${@:-$(ls seeded)}
fail=0
for id in $ids; do
  d=seeded/$id
  [ -f $d/meta.json ] || { echo "$id: no meta.json"; continue; }
  det=$(/venv/bin/python -c "import json;print(' '.join(json.load(open('$d/meta.json')).get('detected_by',[])))")
  if ! git -C /repo apply --check $PWD/$d/patch.diff 2>/dev/null; then
     if ! git -C /repo apply --3way $PWD/$d/patch.diff >/dev/null 2>&1; then echo "$id: patch no longer applies (tree moved on)"; git -C /repo checkout -- . ; git -C /repo reset -q; continue; fi
     git -C /repo reset -q
  else
     git -C /repo apply $PWD/$d/patch.diff
  fi
  res=""
  for p in $det; do
    /venv/bin/python vcheck $p > /tmp/sr_out.txt 2>&1; rc=$?
    k=$(grep -v '^KNOWN' /tmp/sr_out.txt | grep '^  [^a]' | head -1 | awk '{print $2}')
    res="$res $p=$rc($k)"
    [ $rc -eq 1 ] || fail=1
  done
  [ -n "$det" ] || res=" (recorded as not detected)"
  echo "$id:$res"
  git -C /repo checkout -- .
done
git checkout -- evidence 2>/dev/null
[ -z "$(git -C /repo status --short)" ] || echo "WARNING /repo dirty"
exit $fail
