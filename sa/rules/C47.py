"""C47 -- isochronous timestamp packets are decoded in full."""
from ..ir import E
from .. import q

TITLE = 'timestamp packet fields'
FLOOR = 6
DECIDES = ('(a) lossless store: each ITP field slice (bus interval counter = DW0[5:19], delta = DW0[19:32], USB 3.2 '
           '8.7) is stored into a signal at least as wide as the slice, and the protocol layer forwards the counter '
           'through signals of at least 14 bits; (b) the fields and update_received = 1 are written in the arm '
           'guarded by header valid & type == ISOCHRONOUS_TIMESTAMP, which also accepts the header (ready); '
           'update_received is cleared in the other arm. '
           'The ITP handler is instantiated without a Reset/EnableInserter (it accepts combinationally and captures in registers). ')
NOT_DECIDED = 'nothing value-level remains for the receiver itself; the header demultiplexer routing is outside this property.'
ITP_TYPE = 0b01100     # USB 3.2 table 8-2


def run(ctx):
    ir = ctx.ir('TimestampPacketReceiver', 'usb3.protocol.timestamp')
    fields = {'self.bus_interval_counter': (5, 19), 'self.delta': (19, 32)}
    upd = q.raises(ir, 'self.update_received')
    ctx.need(len(upd) == 1, 'update_received raise site')
    g = q.atoms(upd[0])
    ok = ('self.header_sink.valid', True) in g and any(p and a.startswith('%d == ' % ITP_TYPE) for a, p in g)
    ctx.ob('C47.accept-arm', 'TimestampPacketReceiver.update_received', ok, upd[0].loc,
           'update strobe must be raised under header valid & type == ITP (0b01100): %s' % q.fmt(upd[0]))
    rdy = q.raises(ir, 'self.header_sink.ready')
    ctx.ob('C47.accept-arm', 'TimestampPacketReceiver.header_sink.ready', len(rdy) == 1 and q.atoms(rdy[0]) == g,
           rdy[0].loc if rdy else None, 'the ITP header must be accepted (ready) in the same arm')
    # the strobe is a register: under every valuation of the conditions its drivers mention its next value is 1 in the
    # accepting arm and 0 otherwise (one-cycle truth table; None = no driver fires, the register would hold its value)
    V = 'self.header_sink.valid'
    itp = [a for a, p in g if p and a.startswith('%d == ' % ITP_TYPE)]
    bad = None
    if ok:
        for asg, val in q.flag_values(ir, 'self.update_received', None, init=None):
            if val is not (asg.get(V, False) and asg.get(itp[0], False)) and bad is None:
                bad = (asg, val)
    ctx.ob('C47.accept-arm', 'TimestampPacketReceiver.update_received.clear', ok and bad is None, upd[0].loc,
           'update strobe must be cleared otherwise: next value %s when %s' % (bad and bad[1], bad and bad[0]))
    for name, (lo, hi) in fields.items():
        ds = ir.drivers(name, exact=True)
        ctx.need(len(ds) == 1, 'single writer of ' + name)
        a = ds[0]
        rhs = a.rhs
        ok_slice = rhs.op == 'slice' and rhs.args[1] == lo and rhs.args[2] == hi and rhs.args[0].canon().endswith('header.dw0')
        ctx.ob('C47.field-slice', 'TimestampPacketReceiver.%s.slice' % name.split('.')[-1], ok_slice and q.atoms(a) == g, a.loc,
               '%s must be loaded from header.dw0[%d:%d] in the accepting arm: %s' % (name, lo, hi, q.fmt(a)))
        lw = a.lhs.w
        ctx.ob('C47.lossless-store', 'TimestampPacketReceiver.%s.width' % name.split('.')[-1],
               lw is not None and rhs.w is not None and lw >= rhs.w and lw >= hi - lo, a.loc,
               '%s is %s bits wide but must hold a %d-bit field' % (name, lw, hi - lo))
    pl = ctx.ir('USB3ProtocolLayer', 'usb3.protocol.layer', allow_opaque=True)
    ds = pl.drivers('self.bus_interval', exact=True)
    ok = len(ds) == 1 and ds[0].rhs.canon() == 'itp_handler.bus_interval_counter' and not ds[0].guard
    ctx.ob('C47.layer-forward', 'USB3ProtocolLayer.bus_interval', ok, ds[0].loc if ds else None,
           'protocol layer must forward the ITP counter: %s' % [q.fmt(d) for d in ds])
    if ok:
        ctx.ob('C47.lossless-store', 'USB3ProtocolLayer.bus_interval.width',
               (ds[0].lhs.w or 0) >= 14 and (ds[0].rhs.w or 0) >= 14, ds[0].loc,
               'bus_interval path widths: %s <- %s bits, need 14' % (ds[0].lhs.w, ds[0].rhs.w))
    # the received-header queue of the link layer reaches the demultiplexer (and through it the ITP handler) as it is: valid,
    # header and ready are combinational, unconditional copies -- a register on only part of this handshake makes the
    # handlers see a header other than the one their `ready` pops
    LNK = 'self._link.header_source.'
    for lhs, rhs in (('hp_demux.sink.valid', LNK + 'valid'), ('hp_demux.sink.header', LNK + 'header'), (LNK + 'ready', 'hp_demux.sink.ready')):
        dsx = pl.drivers(lhs, exact=True)
        okx = len(dsx) == 1 and dsx[0].domain == 'comb' and not dsx[0].guard and dsx[0].state is None and \
            isinstance(dsx[0].rhs, E) and q.expand(pl, dsx[0].rhs).canon() == rhs
        ctx.ob('C47.layer-forward', 'USB3ProtocolLayer.header-queue.%s' % lhs.split('.')[-1], okx, dsx[0].loc if dsx else None,
               '%s must be the combinational, unconditional copy of %s: %s' % (lhs, rhs, [q.fmt(d) for d in dsx]))
    sub = [s for s in pl.submodules if s.name == 'itp_handler']
    ins = [getattr(x, 'self_val', x) for x in (getattr(sub[0].obj, 'inserters', None) or [])] if sub else []
    ctx.ob('C47.layer-forward', 'USB3ProtocolLayer.itp_handler.always-clocked', not ins, sub[0].loc if sub else None,
           'the ITP handler accepts a packet combinationally (header_sink.ready) and captures it in registers: wrapped in a '
           'Reset/EnableInserter (%s) a packet accepted while that control is asserted is consumed without being captured' % (ins,))
    ctx.ob('C47.layer-forward', 'USB3ProtocolLayer.itp_handler', bool(sub) and sub[0].obj.clsname == 'TimestampPacketReceiver',
           sub[0].loc if sub else None, 'the ITP handler is a TimestampPacketReceiver')
