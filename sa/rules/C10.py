"""C10 -- unsupported or unclaimed control requests are STALLed, never answered."""
from ..ir import E
from .. import q
from ..fsm import state_outcomes

TITLE = 'unsupported requests are STALLed'
FLOOR = 12
DECIDES = ('(a) StandardRequestHandler dispatches exactly GET_STATUS(0), CLEAR_FEATURE(1), SET_ADDRESS(5), GET_DESCRIPTOR(6), '
           'GET_CONFIGURATION(8), SET_CONFIGURATION(9) and sends every other request code (Switch Default) to a state whose only '
           'output is handshakes_out.stall under data_requested | status_requested -- no tx.valid, no ack, no commit strobe -- and '
           'which then returns to idle; it claims only standard-type requests; (b) USBRequestHandlerMultiplexer routes the outputs '
           'of the fallback exactly when no handler claims (encoder.n), the default fallback is a StallOnlyRequestHandler '
           'whose condition is constant true and which can only stall; (c) in the CLEAR_FEATURE state the ZLP and the '
           'clear-halt strobe must both be excluded when the request is to be STALLed (recipient != ENDPOINT or feature != '
           'ENDPOINT_HALT); the dispatch operand is bRequest itself or a full 8-bit combinational copy of it. ')
NOT_DECIDED = 'handlers added by user code (their claim logic).'
I = 'self.interface.'


def run(ctx):
    h = ctx.ir('StandardRequestHandler', 'request.standard')
    f = ctx.the_fsm(h)
    idle = f.init
    BREQ = 'self.interface.setup.request'
    # the dispatch operand: the signal the idle edges compare with constants (bRequest itself, or a named copy of it)
    cnt = {}
    for e in f.out_edges(idle):
        for l in e.guard:
            ce = q.const_eq(l.e) if isinstance(l.e, E) else None
            if ce:
                cnt[ce[1]] = cnt.get(ce[1], 0) + 1
    ctx.need(cnt, 'request dispatch comparisons on the idle edges')
    REQ = max(sorted(cnt), key=lambda k: cnt[k])
    if REQ != BREQ:
        d = h.drivers(REQ, exact=True)
        si = h.signals.get(REQ)
        full = len(d) == 1 and d[0].domain == 'comb' and not d[0].guard and d[0].state is None and \
            isinstance(d[0].rhs, E) and d[0].rhs.canon() == BREQ and si is not None and (si.w or 0) >= 8
        ctx.ob('C10.dispatch-operand', 'StandardRequestHandler.dispatch-operand', full, d[0].loc if d else f.state_loc[idle],
               'requests are dispatched on %s (width %s): it must be bRequest itself or an unconditional combinational copy of all '
               '8 bits of it -- a narrower copy makes unimplemented request codes alias implemented ones and they are answered '
               'instead of STALLed: %s' % (REQ, getattr(si, 'w', None), [q.fmt(x) for x in d]))
    seen = {}
    default = None
    for e in f.out_edges(idle):
        ks = q.guard_consts(e, REQ)
        pos = [k for k, p in ks.items() if p]
        if pos:
            seen[pos[0]] = e.dst
        elif ks and all(not p for p in ks.values()):
            default = e
    ctx.ob('C10.dispatch-table', 'StandardRequestHandler.requests', sorted(seen) == [0, 1, 5, 6, 8, 9] and len(set(seen.values())) == 6, f.state_loc[idle],
           'handled request codes %s (expected GET_STATUS 0, CLEAR_FEATURE 1, SET_ADDRESS 5, GET_DESCRIPTOR 6, GET_CONFIGURATION 8, SET_CONFIGURATION 9)' % sorted(seen))
    ctx.need(default is not None, 'Default arm of the request switch')
    U = default.dst
    ctx.ob('C10.default-arm', 'StandardRequestHandler.default', U not in seen.values() and U != idle and {k for k in q.guard_consts(default, REQ)} == set(seen), default.loc,
           'every other request code leads to the unsupported-request state')
    here = [a for a in h.assigns if q.state_of(a) == U]
    ok = len(here) == 1 and here[0].lhs.canon() == I + 'handshakes_out.stall' and q.is_one(here[0].rhs) and \
        (I + 'data_requested | ' + I + 'status_requested', True) in q.atoms(here[0])
    ctx.ob('C10.stall-only', 'StandardRequestHandler.unsupported-state', ok, f.state_loc[U],
           'the unsupported-request state may only STALL at the data or status stage: %s' % [q.fmt(a) for a in here])
    o = state_outcomes(f, U, {I + 'data_requested': False, I + 'status_requested': False})
    o2 = state_outcomes(f, U, {I + 'data_requested': True})
    ctx.ob('C10.stall-only', 'StandardRequestHandler.unsupported-state.exit', set(o) == {None} and set(o2) == {idle}, f.state_loc[U], 'it waits for the stage and then returns to idle')
    cl = [q.fold(h, a) for a in h.drivers(I + 'claim', exact=True)]       # `claim.eq(cond)` and `If(cond): claim.eq(1)`: one form
    ok = len(cl) == 1 and q.atoms(cl[0]) == {('0 == self.interface.setup.type', True)}
    ctx.ob('C10.claim', 'StandardRequestHandler.claim', ok, cl[0].loc if cl else None, 'claims only standard-type requests: %s' % [q.fmt(a) for a in cl])
    # every output of the handler is inside the type==STANDARD arm
    outs = [a for a in h.assigns if a.lhs.canon().startswith(I) and a.lhs.canon().split('.')[2] in
            ('tx', 'handshakes_out', 'address_changed', 'config_changed', 'clear_endpoint_halt', 'new_address', 'new_config')]
    bad = [a for a in outs if ('0 == self.interface.setup.type', True) not in q.atoms(a)]
    ctx.ob('C10.claim', 'StandardRequestHandler.outputs-under-type', not bad and len(outs) > 10, bad[0].loc if bad else None, 'outputs only for standard requests')
    # (c) CLEAR_FEATURE
    HALT = q.struct_fields(h, I + 'clear_endpoint_halt', [('enable', 1), ('direction', 1), ('number', 4)])
    ch = [q.fold(h, a) for a in HALT['enable'] if a.rhs is not None and not q.is_zero(a.rhs)]
    ctx.need(len(ch) == 1 and ch[0].state, 'clear_endpoint_halt.enable site')
    C = q.state_of(ch[0])
    STALLC = '(0 != self.interface.setup.value) | (2 != self.interface.setup.recipient)'
    SR, V0, R2 = I + 'status_requested', '0 == self.interface.setup.value', '2 == self.interface.setup.recipient'
    # one-cycle truth tables (whatever the spelling: If/Else arms, a direct assignment of the condition, a Mux): with
    # everything the whole state sits under held, stall = status stage & unsupported, ZLP = status stage & supported
    for role, sig, want in (('stall', I + 'handshakes_out.stall', lambda g: g[SR] and not (g[V0] and g[R2])),
                            ('zlp', I + 'tx.valid', lambda g: g[SR] and g[V0] and g[R2])):
        ds = [a for a in h.drivers(sig, exact=True) if q.state_of(a) == C]
        bad = None
        if ds:
            for asg, val in q.flag_values(h, sig, C, assume=q.common_atoms(ds, without=(SR, V0, R2))):
                if not all(k in asg for k in (SR, V0, R2)) or val != want(asg):
                    bad = {k: v for k, v in asg.items() if k in (SR, V0, R2)}, val
                    break
        ctx.ob('C10.clear-feature-stall', 'StandardRequestHandler.clear-feature.' + role, bool(ds) and bad is None, ds[0].loc if ds else ch[0].loc,
               'CLEAR_FEATURE is STALLed at its status stage unless recipient == ENDPOINT(2) and feature == ENDPOINT_HALT(0), and '
               'answered with a ZLP exactly then: %s is %s when %s' % (sig, bad and bad[1], bad and bad[0]))
    ga = q.atoms(ch[0])
    ok = {('2 == self.interface.setup.recipient', True), ('0 == self.interface.setup.value', True)} <= ga or (STALLC, False) in ga
    ctx.ob('C10.no-state-change-when-stalled', 'StandardRequestHandler.clear-feature.enable', ok, ch[0].loc,
           'clear_endpoint_halt.enable is raised on handshakes_in.ack without excluding the STALL condition (%s): a CLEAR_FEATURE for '
           'another feature or recipient, which is STALLed, still resets an endpoint\'s data toggle on the next ACK seen on the bus' % sorted(ga))
    # (b) multiplexer
    mux = ctx.ir('USBRequestHandlerMultiplexer', 'usb2.request')
    fb = [a for a in mux.assigns if a.lhs.canon().startswith('self.shared.') and isinstance(a.rhs, E) and a.rhs.canon().startswith('stall_handler.interface.')]
    ok = fb and all(q.atoms(a) == {('encoder.n', True)} for a in fb)
    ctx.ob('C10.fallback-routing', 'USBRequestHandlerMultiplexer.fallback', bool(ok), fb[0].loc if fb else None, 'fallback outputs are routed exactly when no handler claims')
    hs = [a for a in fb if a.lhs.canon() == 'self.shared.handshakes_out']
    ctx.ob('C10.fallback-routing', 'USBRequestHandlerMultiplexer.fallback.handshakes', len(hs) == 1, None, 'the fallback\'s handshake requests reach the bus')
    sel = [a for a in mux.assigns if a.lhs.canon() == 'self.shared.handshakes_out' and a not in hs]
    ok = len(sel) == 1 and any(x.endswith('== encoder.o') and p for x, p in q.atoms(sel[0])) and sel[0].order < hs[0].order if hs else False
    ctx.ob('C10.fallback-routing', 'USBRequestHandlerMultiplexer.claimed', bool(ok), sel[0].loc if sel else None, 'a claiming handler is selected by the encoder output')
    enc = mux.drivers('encoder.i', exact=True)
    ctx.ob('C10.fallback-routing', 'USBRequestHandlerMultiplexer.encoder.i', len(enc) == 1 and enc[0].rhs.canon().endswith('.claim'), None, 'the encoder sees the claims')
    sub = [s for s in mux.submodules if s.name == 'stall_handler']
    ctx.ob('C10.fallback-routing', 'USBRequestHandlerMultiplexer.default-fallback', bool(sub) and sub[0].obj.clsname == 'StallOnlyRequestHandler' and not sub[0].obj.kwargs and not getattr(sub[0].obj, 'args', []),
           sub[0].loc if sub else None, 'the default fallback is an unconditional StallOnlyRequestHandler')
    so = ctx.ir('StallOnlyRequestHandler', 'usb2.request')
    outs = [q.fold(so, a) for a in so.assigns]
    ok = len(outs) == 1 and outs[0].lhs.canon() == I + 'handshakes_out.stall' and q.is_one(outs[0].rhs) and \
        q.atoms(outs[0]) == {(I + 'data_requested | ' + I + 'status_requested', True)}
    ctx.ob('C10.stall-only', 'StallOnlyRequestHandler', ok, outs[0].loc if outs else None, 'it only STALLs, at the data or status stage, unconditionally by default: %s' % [q.fmt(a) for a in outs])
