#!/bin/bash
# seed_setup_next.sh <Cnn> <suffix>  -- like seed_setup.sh, for a further seeded change of a property that already has
# some: the task text lists the earlier changes (their summaries only -- nothing about /verif or its checks) and asks for a
# different mechanism in a different place.
P=$1; S=$2
D=$(/verif/tools/seed_setup.sh $P $S | tail -1)
/venv/bin/python - $P $D <<'PY'
import json, sys, glob, os
p, d = sys.argv[1:3]
prev = []
for f in sorted(glob.glob('/verif/seeded/%s-*/meta.json' % p)):
    m = json.load(open(f))
    import os
    summ = (m.get('summary') or '')[:700]
    if not summ:
        diff = open(os.path.dirname(f) + '/patch.diff').read()
        summ = 'the following diff:\n' + '\n'.join(l for l in diff.splitlines() if l[:1] in '+-@')[:1800]
    prev.append('- files %s: %s' % (', '.join(m.get('files_changed', [])), summ))
t = open(d + '/SEED_TASK.md').read()
extra = ('\n\nIMPORTANT -- other engineers have ALREADY produced the following change(s) for this property. Yours must be DIFFERENT: '
         'use a different mechanism and a different site (another state, another signal, another clause of the property statement, '
         'another class or file among the anchors, or the composition/wiring level where two modules meet). Think about which part of '
         'the property statement the earlier change(s) did NOT touch and break that part. Favour faults that are easy to overlook in '
         'review: a width / range / signedness issue, a reset or initial value, a priority between two simultaneous events, a stale '
         'value surviving an abort, a configuration-dependent arm (non-default constructor arguments), an inter-module connection.\n'
         + '\n'.join(prev) + '\n' + (('\n' + os.environ['HINT'] + '\n') if os.environ.get('HINT') else ''))
open(d + '/SEED_TASK.md', 'w').write(t + extra)
PY
echo $D
