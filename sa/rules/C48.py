"""C48 -- SuperSpeed control requests are decoded and answered exactly."""
from collections import deque

from ..ir import E, Obj, _is_bool
from .. import q
from ..fsm import holds

TITLE = 'SuperSpeed setup decoder and GET_DESCRIPTOR handler'
FLOOR = 80
DECIDES = ('(a) SuperSpeedSetupDecoder, by exhaustive exploration of the extracted FSM, its registered assignments and '
           'last-assignment-wins priority against an abstract model of the data-packet receiver (words with first/last/'
           'byte-valid flags, idle cycles, rx_good/rx_bad after the last word, rx_bad coinciding with a word): the '
           'received strobe is raised exactly at rx_good of a packet that had the header setup flag, a first word with '
           'all four bytes valid that is not the last, and a second all-valid last word -- never for shorter, longer, '
           'non-setup, bad or aborted packets, never at any other time, and for one cycle only; after every end-of-packet '
           'indication (good, bad, abort), for every packet shape, the FSM is back in its initial state so that the next '
           'packet is decoded afresh; (b) at the report every field of the output record (recipient/type/direction, '
           'request, value, index, length at the USB 9.3 offsets) holds exactly the corresponding bits of the first and '
           'second payload word of that very packet (capture not overwritten later, copy wins the statement order, '
           'little-endian words), the record is written only together with the strobe, all in the FSM clock domain; '
           '(c) GetDescriptorHandler, for concrete descriptor collections (consecutive, sparse and high indices), by '
           'evaluation of the extracted guards for every key, an unknown value and every buffer state: one constant '
           'generator per descriptor with that descriptor\'s bytes, a 16-bit length limit and the handler\'s domain; '
           'the request value is compared only with type << 8 | index of a descriptor; for each such value only the '
           'generator of that descriptor receives start and the full 16-bit length (none does for swapped, neighbouring '
           'or other unknown values), the registered tx stream (valid, first, last, payload) and tx_length are loaded '
           'from that generator exactly when the one-word buffer is empty or being read, and the generator is popped '
           'under exactly that condition (or, in a pass-through design, tx is that generator\'s stream and tx.ready pops '
           'it); stall is never raised for a known value and equals start for an unknown one; (d) the USB3 StandardRequestHandler feeds the handler with setup.value / '
           'setup.length, starts it on data_requested only in the state entered on a received request 6, and forwards its '
           'stream, length and stall there; USB3ControlEndpoint feeds the decoder with the rx stream, rx_header, '
           'rx_complete as good and rx_invalid as bad, and publishes the decoded record to the request handlers. ')
NOT_DECIDED = ('the byte selection inside ConstantStreamGenerator (C27); the module-level DomainRenamer that maps the '
               'handler\'s sync statements to usb_domain (not represented in the IR); behaviour when wValue changes '
               'while a descriptor is still in the tx buffer.')

GET_DESCRIPTOR = 6                      # USB 2.0 table 9-4
# USB 2.0 table 9-2 (setup data, little endian): field -> (bit offset, width)
SETUP_LAYOUT = {'recipient': (0, 5), 'type': (5, 2), 'is_in_request': (7, 1), 'request': (8, 8), 'value': (16, 16),
                'index': (32, 16), 'length': (48, 16)}


# ------------------------------------------------------------------------------------------------ bit level helpers
def _obj_bits(o):
    out = []
    for f in o.fields or []:
        v = o.attrs.get(f)
        b = _obj_bits(v) if isinstance(v, Obj) else _bits(v)
        if b is None:
            return None
        out += b
    return out


def _bits(e):
    """Bit-level view of an lvalue / rvalue: list of (signal name, bit) or ('const', 0/1); None if not understood."""
    if not isinstance(e, E):
        return None
    if e.op == 'sig':
        si = e.args[0]
        if si.leaf is None and isinstance(si.parent, Obj):
            return _obj_bits(si.parent)
        if si.w is None:
            return None
        return [(si.name, i) for i in range(si.w)]
    if e.op == 'slice':
        b = _bits(e.args[0])
        if b is None or not isinstance(e.args[1], int) or not isinstance(e.args[2], int):
            return None
        return b[e.args[1]:e.args[2]]
    if e.op == 'cat':
        out = []
        for a in e.args:
            b = _bits(a)
            if b is None:
                return None
            out += b
        return out
    if e.op == 'const' and e.w is not None:
        return [('const', (e.val >> i) & 1) for i in range(e.w)]
    return None


def _rbits(e, n):
    """Right-hand side as exactly n bits (zero extended / truncated)."""
    if isinstance(e, int):
        e = E('const', val=e)
    if isinstance(e, E) and e.op == 'const':
        return [('const', (e.val >> i) & 1) for i in range(n)]
    b = _bits(e)
    if b is None:
        return None
    return (b + [('const', 0)] * n)[:n]


def _leaves(e, out):
    """{canonical text: expression} of the leaves of a boolean combination (same decomposition as fsm.leaf_atoms)."""
    if isinstance(e, E) and e.op in ('&', '|') and all(_is_bool(a) for a in e.args):
        for a in e.args:
            _leaves(a, out)
    elif isinstance(e, E) and e.op == '~' and _is_bool(e.args[0]):
        _leaves(e.args[0], out)
    elif isinstance(e, E) and e.op == 'const':
        pass
    else:
        out[e.canon() if isinstance(e, E) else str(e)] = e
    return out


def _ev(ir, e, env, depth=6):
    """Value of a small expression under concrete input values; None if not understood."""
    if isinstance(e, (int, bool)):
        return int(e)
    if not isinstance(e, E) or depth == 0:
        return None
    if e.op == 'const':
        return e.val
    if e.op == 'sig':
        n = e.args[0].name
        if n in env:
            return env[n]
        # a local flag with one unguarded combinational definition (possibly inside one FSM state, where it is 0 elsewhere)
        ds = ir.drivers(n, exact=True)
        if len(ds) == 1 and ds[0].domain == 'comb' and not ds[0].guard and ds[0].lhs.op == 'sig' and not n.startswith('self.'):
            if ds[0].state is not None and ds[0].state[1] != env.get('$state'):
                return 0
            return _ev(ir, ds[0].rhs, env, depth - 1)
        return None
    if e.op == 'slice':
        v = _ev(ir, e.args[0], env, depth)
        if v is None or not isinstance(e.args[1], int) or not isinstance(e.args[2], int):
            return None
        return (v >> e.args[1]) & ((1 << (e.args[2] - e.args[1])) - 1)
    if e.op == 'call' and e.args[0] in ('all', 'any', 'bool') and len(e.args) == 2 and isinstance(e.args[1], E):
        v = _ev(ir, e.args[1], env, depth)
        w = e.args[1].w
        if v is None:
            return None
        if e.args[0] == 'all':
            return None if w is None else int(v == (1 << w) - 1)
        return int(v != 0)
    vals = [_ev(ir, a, env, depth) for a in e.args]
    if any(v is None for v in vals):
        return None
    if e.op == '~':
        if _is_bool(e.args[0]):
            return int(not vals[0])
        return None if e.args[0].w is None else (~vals[0]) & ((1 << e.args[0].w) - 1)
    if e.op in ('&', '|', '^', '+'):
        r = vals[0]
        for v in vals[1:]:
            r = (r & v) if e.op == '&' else (r | v) if e.op == '|' else (r ^ v) if e.op == '^' else (r + v)
        return r
    if len(vals) == 2:
        a, b = vals
        if e.op == '==':
            return int(a == b)
        if e.op == '!=':
            return int(a != b)
        if e.op == '<':
            return int(a < b)
        if e.op == '<=':
            return int(a <= b)
        if e.op == '>':
            return int(a > b)
        if e.op == '>=':
            return int(a >= b)
    return None


class _Eval:
    """Evaluates every guard of one ModuleIR under concrete values of its input signals."""

    def __init__(self, ctx, ir, what):
        self.ctx, self.ir, self.what = ctx, ir, what
        self.leaves = {}
        items = list(ir.assigns) + [e for f in ir.fsms for e in f.edges]
        for it in items:
            for l in it.guard:
                ctx.need(l.kind != 'cfg' and isinstance(l.e, E), '%s: guard literal %s is a run-time condition' % (what, l.canon()))
                _leaves(l.e, self.leaves)

    def asg(self, env):
        out = {}
        for t, e in self.leaves.items():
            v = _ev(self.ir, e, env)
            self.ctx.need(v is not None, '%s: guard condition %s is a function of the modelled inputs %s' % (
                self.what, t, sorted(k for k in env if k[0] != '$')))
            out[t] = bool(v)
        return out


def _winner(items):
    return max(items, key=lambda a: a.order) if items else None


def _canon(a):
    return a.rhs.canon() if a is not None and isinstance(a.rhs, E) else (None if a is None else repr(a.rhs))


# ------------------------------------------------------------------------------------------------ (a)(b) the setup decoder
SHAPES = ('no-words', 'not-setup', 'first-partial', 'single-word', 'second-partial', 'exact-8', 'longer')
SHAPE_TEXT = {'no-words': 'a packet without payload', 'not-setup': 'a data packet without the setup flag',
              'first-partial': 'a setup packet of 1-3 bytes', 'single-word': 'a setup packet of 4 bytes',
              'second-partial': 'a setup packet of 5-7 bytes', 'exact-8': 'a setup packet of exactly 8 bytes',
              'longer': 'a setup packet of more than 8 bytes'}
ABORTS = ('first-word', 'second-word', 'later-word', 'not-setup')
V, FIRST, LAST, SETUP, GOOD, BAD = ('self.sink.valid', 'self.sink.first', 'self.sink.last', 'self.header_in.setup',
                                    'self.rx_good', 'self.rx_bad')
PAYLOAD = 'self.sink.payload'


def _env_steps(est, pset, shape):
    """Abstract data-packet receiver (C40): yields (description, env, kind, est', pset', shape', wordno, abort position).
    kind: idle | word | good | bad | abort."""
    def env(v=0, first=0, last=0, setup=0, good=0, bad=0):
        return {V: v, FIRST: first, LAST: last, SETUP: setup, GOOD: good, BAD: bad}
    words = [(v, l) for v in (1, 3, 7, 15) for l in ((1,) if v != 15 else (0, 1))]
    if est == 'IDLE':
        for f in (0, 1):
            for l in (0, 1):
                for s in (0, 1):
                    yield ('idle', env(0, f, l, s), 'idle', 'IDLE', None, None, 0, None)
                    yield ('rx_good (no payload)', env(0, f, l, s, good=1), 'good', 'IDLE', None, 'no-words', 0, None)
                    yield ('rx_bad (no payload)', env(0, f, l, s, bad=1), 'bad', 'IDLE', None, 'no-words', 0, None)
        for s in (0, 1):
            for v, l in words:
                if not s:
                    sh = 'not-setup'
                elif v != 15:
                    sh = 'first-partial'
                elif l:
                    sh = 'single-word'
                else:
                    sh = 'w1'
                d = 'first word(valid=%s%s%s)' % (format(v, '04b'), ',last' if l else '', ',setup' if s else '')
                yield (d, env(v, 1, l, s), 'word', 'TAIL' if l else 'PKT', s, sh, 1, None)
                yield (d + '+rx_bad', env(v, 1, l, s, bad=1), 'abort', 'IDLE', None, sh, 1, 'first-word' if s else 'not-setup')
    elif est == 'PKT':
        for l in (0, 1):
            yield ('idle', env(0, 0, l, pset), 'idle', 'PKT', pset, shape, 0, None)
        for v, l in words:
            if shape == 'w1':
                sh = 'second-partial' if v != 15 else 'exact-8' if l else 'longer'
                pos, k = 'second-word', 2
            else:
                sh, pos, k = shape, ('not-setup' if shape == 'not-setup' else 'later-word'), 3
            d = 'word(valid=%s%s)' % (format(v, '04b'), ',last' if l else '')
            yield (d, env(v, 0, l, pset), 'word', 'TAIL' if l else 'PKT', pset, sh, k, None)
            yield (d + '+rx_bad', env(v, 0, l, pset, bad=1), 'abort', 'IDLE', None, sh, k, pos)
    else:
        for l in (0, 1):
            yield ('idle', env(0, 0, l, pset), 'idle', 'TAIL', pset, shape, 0, None)
            yield ('rx_good', env(0, 0, l, pset, good=1), 'good', 'IDLE', None, shape, 0, None)
            yield ('rx_bad', env(0, 0, l, pset, bad=1), 'bad', 'IDLE', None, shape, 0, None)


def decoder(ctx):
    C = 'SuperSpeedSetupDecoder'
    ir = ctx.ir(C, 'usb3.application.request')
    fsm = ctx.the_fsm(ir)
    ctx.need(all(isinstance(e.dst, str) and e.dst in fsm.states for e in fsm.edges), 'all FSM targets are declared states')
    out = ir.self_obj.attrs.get('packet') if ir.self_obj is not None else None
    ctx.need(isinstance(out, Obj) and out.fields and 'received' in out.fields, 'output record self.packet with a received strobe')
    for s in (V, FIRST, LAST, SETUP, GOOD, BAD, PAYLOAD):
        ctx.need(s in ir.signals, 'input %s of %s' % (s, C))
    outbits = _obj_bits(out)
    ctx.need(outbits is not None, 'layout of self.packet')
    outset = set(outbits)
    RCV = (out.path + '.received', 0)
    ctx.need(RCV in outset, 'self.packet.received is one bit')
    ev = _Eval(ctx, ir, C)
    # bit-level view of every assignment
    pairs = {}
    for a in ir.assigns:
        L = _bits(a.lhs)
        ctx.need(L is not None, 'assignment target understood: %s' % q.fmt(a))
        R = _rbits(a.rhs, len(L))
        if R is None:
            ctx.need(not (set(L) & outset), 'value assigned to the output record understood: %s' % q.fmt(a))
            R = [('?', 0)] * len(L)
        pairs[id(a)] = list(zip(L, R))
    out_drv = [a for a in ir.assigns if any(l in outset for l, _ in pairs[id(a)])]
    ctx.need(q.raises(ir, RCV[0]), 'a site raising self.packet.received')
    capset = set()
    for a in out_drv:
        for l, r in pairs[id(a)]:
            if l in outset and l != RCV and r[0] not in ('const', '?'):
                capset.add(r)
    ctx.need(capset, 'the output record is loaded from a capture register')
    cap_drv = [a for a in ir.assigns if any(l in capset for l, _ in pairs[id(a)])]
    ctx.need(cap_drv, 'assignments that capture the payload words')
    caplist = sorted(capset)
    capidx = {b: i for i, b in enumerate(caplist)}
    dom_bad = [a for a in out_drv + cap_drv if a.domain != fsm.domain]
    ctx.ob('C48.clocking', C + '.registers-in-fsm-domain', not dom_bad, dom_bad[0].loc if dom_bad else fsm.loc,
           'capture register and output record must be registered in the FSM domain %r: %s' % (
               fsm.domain, [q.fmt(a) for a in dom_bad[:2]]))
    # value of a bit that is read but (possibly) never written
    undriven = {}

    def source_value(r):
        if r[0] == 'const':
            return r[1]
        if r not in undriven:
            undriven[r] = not any(l == r for a in ir.assigns for l, _ in pairs[id(a)])
        return 0 if undriven[r] else None

    sync = [a for a in ir.assigns if a.domain == fsm.domain]
    by_state = {s: sorted([a for a in sync if a.state is None or a.state == (fsm.id, s)], key=lambda a: a.order)
                for s in fsm.states}
    edges = {s: sorted(fsm.out_edges(s), key=lambda e: e.order) for s in fsm.states}
    init = fsm.init
    fails, visited, parent = {}, {}, {}

    def trace(st, last):
        steps = [last]
        while parent.get(st) is not None:
            st, d = parent[st]
            steps.append(d)
        steps = [s for s in reversed(steps)]
        steps = [s for i, s in enumerate(steps) if s != 'idle' or i == len(steps) - 1 or steps[i + 1] != 'idle']
        return ' ; '.join(steps[-9:])

    def fail(key, st, desc, msg, loc=None):
        if key not in fails:
            fails[key] = ('%s [after: %s]' % (msg, trace(st, desc)), loc)

    start = ('IDLE', None, None, init, 0, (0,) * len(caplist))
    parent[start] = None
    work = deque([start])
    n_steps = 0
    while work:
        st = work.popleft()
        est, pset, shape, fs, rcv, tags = st
        for desc, env, kind, est2, pset2, shape2, wordno, abort_pos in _env_steps(est, pset, shape):
            n_steps += 1
            asg = ev.asg(dict(env, **{'$state': fs}))
            nxt = fs
            for e in edges[fs]:
                if holds(e.guard, asg):
                    nxt = e.dst
            act = [a for a in by_state[fs] if holds(a.guard, asg)]
            upd = {}
            for a in act:
                for l, r in pairs[id(a)]:
                    upd[l] = (a, r)
            # the strobe register
            rcv2 = rcv
            if RCV in upd:
                rcv2 = source_value(upd[RCV][1])
                ctx.need(rcv2 is not None, 'value written to the received strobe: %s' % q.fmt(upd[RCV][0]))
            # the capture register: which payload bit of which word of the current packet it holds
            tags2 = list((0,) * len(caplist) if wordno == 1 else tags)
            for b in caplist:
                if b in upd:
                    r = upd[b][1]
                    if kind in ('word', 'abort') and wordno in (1, 2) and r[0] == PAYLOAD and (env[V] >> (r[1] // 8)) & 1:
                        tags2[capidx[b]] = (wordno, r[1])
                    else:
                        tags2[capidx[b]] = 0
            tags2 = tuple(tags2)
            # ---- report
            data_written = [l for l in upd if l in outset and l != RCV]
            if kind == 'good':
                key = 'report:' + shape2
                visited[key] = visited.get(key, 0) + 1
                want = 1 if shape2 == 'exact-8' else 0
                if rcv2 != want:
                    fail(key, st, desc, ('%s that ends with rx_good must be reported' if want else
                                         '%s must not be reported') % SHAPE_TEXT[shape2], fsm.state_loc.get(fs))
                if want and rcv2:
                    for f, (off, w) in SETUP_LAYOUT.items():
                        for i in range(w):
                            ob = (out.path + '.' + f, i)
                            p = off + i
                            wantsrc = (p // 32 + 1, p % 32)
                            if ob not in upd:
                                fail('field:' + f, st, desc, 'bit %d of packet.%s is not loaded when the request is '
                                     'reported (expected bit %d of payload word %d)' % (i, f, wantsrc[1], wantsrc[0]))
                                break
                            a, r = upd[ob]
                            got = tags[capidx[r]] if r in capidx else None
                            if got != wantsrc:
                                fail('field:' + f, st, desc, 'bit %d of packet.%s must be bit %d of payload word %d of the '
                                     'reported packet, it is loaded from %s[%d] which holds %s (%s)' % (
                                         i, f, wantsrc[1], wantsrc[0], r[0], r[1],
                                         'bit %d of word %d' % (got[1], got[0]) if got else 'no byte of that word', q.fmt(a)),
                                     a.loc)
                                break
            elif kind in ('bad', 'abort'):
                visited['report:on-bad'] = visited.get('report:on-bad', 0) + 1
                if rcv2:
                    fail('report:on-bad', st, desc, 'a packet that ends with rx_bad must not be reported', fsm.state_loc.get(fs))
            else:
                visited['report:outside-packet-end'] = visited.get('report:outside-packet-end', 0) + 1
                if rcv2:
                    fail('report:outside-packet-end', st, desc, 'the received strobe is raised (or still held) in a cycle '
                         'that is not the rx_good of a complete setup packet', fsm.state_loc.get(fs))
            if data_written and not (rcv2 and kind == 'good'):
                fail('data-stable', st, desc, 'the output record is written without the received strobe: %s' % (
                    q.fmt(upd[data_written[0]][0]),), upd[data_written[0]][0].loc)
            # ---- packet boundary
            if kind in ('good', 'bad', 'abort'):
                key = 'idle-after:abort@' + abort_pos if kind == 'abort' else 'idle-after:%s/%s' % (shape2, kind)
                visited[key] = visited.get(key, 0) + 1
                if nxt != init:
                    fail(key, st, desc, 'after the end of %s (%s) the decoder is in state %s instead of its initial state %s, '
                         'so the next packet is not decoded afresh' % (
                             SHAPE_TEXT.get(shape2, 'an aborted setup packet') if kind != 'abort' else 'a packet aborted at its ' + abort_pos,
                             desc, nxt, init), fsm.state_loc.get(nxt))
                    nxt = init              # assume-guarantee: every packet is judged from a fresh decoder
                shape2 = None
            st2 = (est2, pset2, shape2, nxt, rcv2, tags2)
            if st2 not in parent:
                parent[st2] = (st, desc)
                work.append(st2)
    ctx.note('decoder model: %d product states, %d steps evaluated' % (len(parent), n_steps))

    def emit(rule, key, role, default_loc, what):
        ctx.need(key.startswith('field:') or key == 'data-stable' or visited.get(key), 'model reaches the situation %s' % key)
        msg, loc = fails.get(key, ('', None))
        ctx.ob(rule, '%s.%s' % (C, role), key not in fails, loc or default_loc, msg or what)

    rs = q.raises(ir, RCV[0])
    for sh in SHAPES:
        emit('C48.report-iff', 'report:' + sh, 'received@good/' + sh, rs[0].loc,
             'reported iff the packet is a good 8-byte setup packet')
    emit('C48.report-iff', 'report:on-bad', 'received@bad', rs[0].loc, 'never reported on rx_bad')
    emit('C48.report-iff', 'report:outside-packet-end', 'received.strobe', rs[0].loc, 'one-cycle strobe at rx_good only')
    for sh in SHAPES:
        for k in ('good', 'bad'):
            emit('C48.resync', 'idle-after:%s/%s' % (sh, k), 'initial-after/%s/%s' % (sh, k), fsm.loc,
                 'decoder returns to its initial state at the end of the packet')
    for p in ABORTS:
        emit('C48.resync', 'idle-after:abort@' + p, 'initial-after/abort@' + p, fsm.loc,
             'decoder returns to its initial state when the packet is aborted')
    for f, (off, w) in SETUP_LAYOUT.items():
        have = [b for b in outbits if b[0] == out.path + '.' + f]
        if len(have) != w and ('field:' + f) not in fails:
            fails['field:' + f] = ('packet.%s is %d bits wide, the setup field has %d' % (f, len(have), w), None)
        emit('C48.field-bytes', 'field:' + f, 'packet.' + f, rs[0].loc, 'field equals setup bits %d..%d' % (off, off + w - 1))
    emit('C48.update-with-report', 'data-stable', 'packet.written-only-with-strobe', rs[0].loc,
         'output record changes only when a request is reported')


# ------------------------------------------------------------------------------------------------ (c) GetDescriptorHandler
def handler(ctx, tag, coll, **kw):
    C = 'GetDescriptorHandler'
    ir = ctx.ir(C, 'usb3.application.descriptor', descriptor_collection=coll, **kw)
    dom = kw.get('usb_domain', 'ss')
    for s in ('self.value', 'self.length', 'self.start', 'self.stall', 'self.tx_length', 'self.tx.valid', 'self.tx.ready'):
        ctx.need(s in ir.signals, 'port %s of %s' % (s, C))
    tx = ir.self_obj.attrs.get('tx')
    ctx.need(isinstance(tx, Obj) and tx.fields and 'ready' in tx.fields, 'tx stream record')
    fwd = [f for f in tx.fields if f != 'ready']
    ctx.need({'valid', 'first', 'last', 'payload'} <= set(fwd), 'tx stream has valid/first/last/payload')
    gens = [s.obj for s in ir.submodules if s.obj is not None and s.obj.clsname == 'ConstantStreamGenerator']
    K = lambda t, i: ((t << 8) | i) & 0xFFFF
    def ctor(g, pos, name, default=None):
        args = getattr(g, 'args', None) or []
        return g.kwargs[name] if name in g.kwargs else args[pos] if len(args) > pos else default

    bydata = {}
    for g in gens:
        d = ctor(g, 0, 'constant_data')
        bydata.setdefault(bytes(d) if isinstance(d, (bytes, bytearray)) else repr(d), []).append(g)
    okg, why = len(gens) == len(coll), 'generators: %d, descriptors: %d' % (len(gens), len(coll))
    gen_of = {}
    for t, i, raw in coll:
        gl = bydata.get(raw, [])
        if len(gl) != 1:
            okg, why = False, 'descriptor %d/%d has %d generators carrying its bytes' % (t, i, len(gl))
            continue
        g = gl[0]
        gen_of[(t, i)] = g.path
        ml = ir.signals.get(g.path + '.max_length')
        gdom = ctor(g, 1, 'domain', 'sync')
        if ml is None or ml.w is None or ml.w < 16 or gdom != dom:
            okg, why = False, 'generator of descriptor %d/%d: max_length width %s (need 16), domain %r (need %r)' % (
                t, i, ml.w if ml else None, gdom, dom)
        pw = ir.signals.get(g.path + '.stream.payload')
        if pw is None or pw.w != ir.signals['self.tx.payload'].w:
            okg, why = False, 'generator stream payload width differs from tx payload width'
    loc0 = ir.submodules[0].loc if ir.submodules else None
    ctx.ob('C48.generators', '%s.generators[%s]' % (C, tag), okg, loc0,
           'one constant generator per descriptor, with its bytes, a 16-bit max_length and domain %r: %s' % (dom, why))
    ctx.ob('C48.port-widths', '%s.ports[%s]' % (C, tag), ir.signals['self.value'].w == 16 and ir.signals['self.length'].w == 16,
           ir.signals['self.value'].loc, 'value (wValue) and length (wLength) are 16 bits: %s/%s' % (
               ir.signals['self.value'].w, ir.signals['self.length'].w))
    ev = _Eval(ctx, ir, C)
    consts = set()
    for t, e in ev.leaves.items():
        ce = q.const_eq(e)
        if ce and ce[1] == 'self.value' and isinstance(ce[0], int):
            consts.add(ce[0])
    want_keys = {K(t, i) for t, i, _ in coll}
    ctx.ob('C48.case-keys', '%s.value-keys[%s]' % (C, tag), consts <= want_keys, loc0,
           'the request value may only be compared with type << 8 | index of a descriptor: code %s, expected %s' % (
               sorted(map(hex, consts)), sorted(map(hex, want_keys))))
    if not gen_of:
        return
    cand = [0x0000, 0xFFFF] + sorted(consts - want_keys)
    for k in sorted(want_keys):
        cand += [(k & 0xFF) << 8 | k >> 8, k ^ 0x0001, k ^ 0x0100, k ^ 0x8000, (k + 1) & 0xFFFF]
    unknown = []
    for v in cand:
        if v not in want_keys and v not in unknown:
            unknown.append(v)
    unknown = unknown[:24]
    ctx.need(unknown, 'an unknown descriptor value to evaluate')
    res = {}

    def bad(key, msg, loc=None):
        res.setdefault(key, (msg, loc))

    def active(sig, asg, comb):
        ds = [a for a in ir.drivers(sig, exact=True) if (a.domain == 'comb') == comb and holds(a.guard, asg)]
        wrong = [a for a in ir.drivers(sig, exact=True) if (a.domain == 'comb') != comb and holds(a.guard, asg)]
        return _winner(ds), wrong

    def raised(a):
        return a is not None and not q.is_zero(a.rhs)

    allg = sorted(set(gen_of.values()) | {g.path for g in gens})
    outs = [a for f in fwd for a in ir.drivers('self.tx.' + f, exact=True)] + ir.drivers('self.tx_length', exact=True)
    ctx.need(outs, 'drivers of the tx stream')
    unbuffered = all(a.domain == 'comb' for a in outs)       # a pass-through design is as good as the one-word buffer
    n = 0
    for v in sorted(want_keys) + unknown:
        owner = [gen_of.get((t, i)) for t, i, _ in coll if K(t, i) == v]
        g = owner[0] if owner else None
        for ready, tv, start in [(r_, t_, s_) for r_ in (0, 1) for t_ in (0, 1, 15) for s_ in (0, 1)]:
            if True:
                n += 1
                env = {'self.value': v, 'self.tx.ready': ready, 'self.tx.valid': tv, 'self.start': start}
                asg = ev.asg(env)
                sit = 'value=%#06x tx.valid=%s tx.ready=%d start=%d' % (v, format(tv, '04b'), ready, start)

                def val(sig):
                    """value of a combinational flag under this situation (last firing assignment wins; 0 if none)"""
                    a_, _ = active(sig, asg, True)
                    if a_ is None:
                        return 0, None
                    x = _ev(ir, a_.rhs, env) if isinstance(a_.rhs, E) else a_.rhs
                    ctx.need(x is not None, '%s: %s is a function of the modelled inputs (%s)' % (C, q.fmt(a_), sit))
                    return int(bool(x)), a_
                stv, st = val('self.stall')
                for gj in allg:
                    x, a = val(gj + '.start')
                    if gj == g:
                        if x != start:
                            bad('start', 'the generator of the requested descriptor must receive start (%s): %s.start is %d: %s' % (
                                sit, gj, x, q.fmt(a) if a else 'no assignment'), a.loc if a else None)
                    elif x:
                        bad('start', 'a generator of another descriptor is started (%s): %s' % (sit, q.fmt(a)), a.loc)
                if g is None:
                    if stv != start:
                        bad('stall-unknown', 'a request for an unknown descriptor must be stalled when started (%s): stall is %d: %s' % (
                            sit, stv, q.fmt(st) if st else 'no assignment'), st.loc if st else None)
                    continue
                if stv:
                    bad('stall-known', 'a known descriptor must not be stalled (%s): %s' % (sit, q.fmt(st)), st.loc)
                a, _ = active(g + '.max_length', asg, True)
                if _canon(a) != 'self.length':
                    bad('max_length', 'the generator of the requested descriptor must be limited to the full 16-bit length '
                        '(%s): %s.max_length <= %s' % (sit, g, _canon(a)), a.loc if a else None)
                if unbuffered:
                    for f in fwd:
                        a, _ = active('self.tx.' + f, asg, True)
                        if _canon(a) != '%s.stream.%s' % (g, f):
                            bad('tx-buffer', 'tx.%s must be the stream of the selected generator (%s): %s' % (
                                f, sit, q.fmt(a) if a else 'no assignment'), a.loc if a else None)
                    a, _ = active('self.tx_length', asg, True)
                    if _canon(a) != g + '.output_length':
                        bad('tx_length', 'tx_length must be the output_length of the selected generator (%s): %s' % (
                            sit, q.fmt(a) if a else 'no assignment'), a.loc if a else None)
                    a, _ = active(g + '.stream.ready', asg, True)
                    if _canon(a) != 'self.tx.ready':
                        bad('generator-ready', 'the selected generator must be popped by tx.ready (%s): ready <= %s' % (
                            sit, _canon(a)), a.loc if a else None)
                    continue
                en = (tv == 0) or bool(ready)
                for f in fwd:
                    a, wrong = active('self.tx.' + f, asg, False)
                    want = '%s.stream.%s' % (g, f) if en else None
                    if _canon(a) != want or wrong:
                        site = a or (wrong[0] if wrong else None)
                        bad('tx-buffer', 'tx.%s must %s (%s): %s' % (
                            f, 'be loaded from %s, registered' % want if en else 'hold its word while it is valid and not read',
                            sit, q.fmt(site) if site else 'no assignment'), site.loc if site else None)
                a, wrong = active('self.tx_length', asg, False)
                want = g + '.output_length' if en else None
                if _canon(a) != want or wrong:
                    site = a or (wrong[0] if wrong else None)
                    bad('tx_length', 'tx_length must %s (%s): %s' % (
                        'be loaded from %s together with the stream, registered' % want if en else 'hold', sit,
                        q.fmt(site) if site else 'no assignment'), site.loc if site else None)
                x, a = val(g + '.stream.ready')
                if bool(x) != en:
                    bad('generator-ready', 'the generator must be popped exactly when the tx buffer takes its word, i.e. when '
                        'the buffer is empty or being read (%s): ready <= %s' % (sit, _canon(a)), a.loc if a else None)
    ctx.need(n >= 12, 'evaluated situations')
    locs = {k: v[1] for k, v in res.items()}
    for key, rule, role, what in (
            ('start', 'C48.start-routing', 'generator.start', 'only the generator of the requested descriptor is started'),
            ('max_length', 'C48.length-limit', 'generator.max_length', 'generator limited to wLength'),
            ('tx-buffer', 'C48.tx-buffer', 'tx.stream', 'tx stream loaded from the selected generator when empty or read'),
            ('tx_length', 'C48.tx-length', 'tx_length', 'tx_length loaded from the selected generator with the stream'),
            ('generator-ready', 'C48.tx-buffer', 'generator.stream.ready', 'generator popped exactly on buffer load'),
            ('stall-unknown', 'C48.stall', 'stall@unknown', 'unknown descriptors are stalled on start'),
            ('stall-known', 'C48.stall', 'stall@known', 'known descriptors are never stalled')):
        ctx.ob(rule, '%s.%s[%s]' % (C, role, tag), key not in res, locs.get(key) or loc0, res[key][0] if key in res else what)


# ------------------------------------------------------------------------------------------------ (d) wiring
def _sub(ctx, ir, clsname):
    subs = [s.obj for s in ir.submodules if s.obj is not None and s.obj.clsname == clsname]
    ctx.need(len(subs) == 1, 'the %s submodule of %s' % (clsname, ir.clsname))
    return subs[0].path


def _plain(ctx, ir, key, role, sig, want, allowed=frozenset(), state=None):
    """`sig` has exactly one comb driver, `want`, conditional at most on `allowed` atoms (and in `state`)."""
    ds = ir.drivers(sig, exact=False)
    ok = len(ds) == 1 and ds[0].domain == 'comb' and _canon(ds[0]) == want and q.atoms(ds[0]) <= allowed and \
        q.state_of(ds[0]) == state and ds[0].lhs.canon() == sig
    ctx.ob('C48.wiring', '%s.%s' % (key, role), ok, ds[0].loc if ds else None,
           '%s must be driven by %s%s: %s' % (sig, want, ' in the descriptor state only' if state else ' unconditionally',
                                              [q.fmt(d) for d in ds][:2]))


def wiring(ctx):
    C = 'StandardRequestHandler'
    ir = ctx.ir(C, 'usb3.request.standard')
    fsm = ctx.the_fsm(ir)
    h = _sub(ctx, ir, 'GetDescriptorHandler')
    I = 'self.interface.'
    _plain(ctx, ir, C, 'descriptor.value', h + '.value', I + 'setup.value')
    _plain(ctx, ir, C, 'descriptor.length', h + '.length', I + 'setup.length')
    starts = q.raises(ir, h + '.start')
    ctx.need(starts and all(a.state for a in starts), 'descriptor handler start raised inside FSM states')
    sts = {q.state_of(a) for a in starts}
    ctx.ob('C48.wiring', C + '.descriptor.start', len(sts) == 1 and all(
        (q.has(a, I + 'data_requested') and q.is_one(a.rhs)) or _canon(a) == I + 'data_requested' for a in starts),
           starts[0].loc, 'the descriptor handler is started on data_requested in one state: %s' % [q.fmt(a) for a in starts][:3])
    D = sorted(sts)[0]
    ins = [e for e in fsm.in_edges(D) if e.src != D]
    req = '%d == %ssetup.request' % (GET_DESCRIPTOR, I)
    ok = bool(ins) and all(q.has(e, I + 'setup.received') and q.has(e, req) for e in ins)
    ctx.ob('C48.wiring', C + '.descriptor.state-entry', ok, ins[0].loc if ins else fsm.state_loc[D],
           'the state that starts the descriptor handler is entered only on a received request %d (GET_DESCRIPTOR): %s' % (
               GET_DESCRIPTOR, [q.fmt(e) for e in ins][:3]))
    outer = frozenset({('0 == %ssetup.type' % I, True)})
    for f in ('valid', 'first', 'last', 'payload'):
        ds = [a for a in ir.drivers(I + 'tx.' + f, exact=True) if q.state_of(a) == D]
        ok = len(ds) == 1 and ds[0].domain == 'comb' and _canon(ds[0]) == '%s.tx.%s' % (h, f) and q.atoms(ds[0]) <= outer
        ctx.ob('C48.wiring', '%s.descriptor.tx.%s' % (C, f), ok, ds[0].loc if ds else fsm.state_loc[D],
               'in the descriptor state interface.tx.%s is the handler\'s tx.%s: %s' % (f, f, [q.fmt(d) for d in ds][:2]))
    _plain(ctx, ir, C, 'descriptor.tx.ready', h + '.tx.ready', I + 'tx.ready', outer, D)
    for role, sig, want in (('descriptor.tx_length', I + 'tx_length', h + '.tx_length'),
                            ('descriptor.stall', I + 'handshakes_out.send_stall', h + '.stall')):
        ds = [a for a in ir.drivers(sig, exact=True) if q.state_of(a) == D]
        ok = len(ds) == 1 and ds[0].domain == 'comb' and _canon(ds[0]) == want and q.atoms(ds[0]) <= outer
        ctx.ob('C48.wiring', '%s.%s' % (C, role), ok, ds[0].loc if ds else fsm.state_loc[D],
               'in the descriptor state %s is %s: %s' % (sig, want, [q.fmt(d) for d in ds][:2]))
    # the control endpoint feeds the decoder
    C2 = 'USB3ControlEndpoint'
    ir2 = ctx.ir(C2, 'usb3.endpoints.control', allow_opaque=True)
    d = _sub(ctx, ir2, 'SuperSpeedSetupDecoder')
    for f in ('valid', 'first', 'last', 'payload'):
        _plain(ctx, ir2, C2, 'decoder.sink.' + f, '%s.sink.%s' % (d, f), I + 'rx.' + f)
    _plain(ctx, ir2, C2, 'decoder.header_in', d + '.header_in', I + 'rx_header')
    _plain(ctx, ir2, C2, 'decoder.rx_good', d + '.rx_good', I + 'rx_complete')
    _plain(ctx, ir2, C2, 'decoder.rx_bad', d + '.rx_bad', I + 'rx_invalid')
    mux = _sub(ctx, ir2, 'SuperSpeedRequestHandlerMultiplexer')
    _plain(ctx, ir2, C2, 'decoder.packet', mux + '.shared.setup', d + '.packet')


# ------------------------------------------------------------------------------------------------ configurations
def _desc(t, i, n):
    """A distinct fake descriptor of n bytes (bLength, bDescriptorType, then a pattern unique to type/index)."""
    return bytes([n & 0xFF, t] + [(t * 17 + i * 5 + k) & 0xFF for k in range(n - 2)])


COLLECTIONS = {
    'basic': [(1, 0, _desc(1, 0, 18)), (2, 0, _desc(2, 0, 44)), (3, 0, _desc(3, 0, 4)), (3, 1, _desc(3, 1, 10)),
              (15, 0, _desc(15, 0, 22))],
    'sparse': [(1, 0, _desc(1, 0, 18)), (3, 0, _desc(3, 0, 4)), (3, 2, _desc(3, 2, 7)), (3, 0xEE, _desc(3, 0xEE, 18)),
               (2, 1, _desc(2, 1, 9))],
}
THOROUGH = {
    'single': [(1, 0, _desc(1, 0, 18))],
    'mirror': [(1, 2, _desc(1, 2, 5)), (2, 1, _desc(2, 1, 6)), (0x21, 0, _desc(0x21, 0, 9)), (0xFF, 0xFF, _desc(0xFF, 0xFF, 3))],
    'long': [(2, 0, _desc(2, 0, 300)), (2, 3, _desc(2, 3, 1025)), (6, 0, _desc(6, 0, 10)), (3, 3, _desc(3, 3, 2))],
}


def run(ctx):
    decoder(ctx)
    for tag, coll in COLLECTIONS.items():
        handler(ctx, tag, coll)
    handler(ctx, 'basic,usb', COLLECTIONS['basic'], usb_domain='usb')
    wiring(ctx)
    if ctx.tier == 'thorough':
        for tag, coll in THOROUGH.items():
            handler(ctx, tag, coll)
        handler(ctx, 'sparse,sync', COLLECTIONS['sparse'], usb_domain='sync')
