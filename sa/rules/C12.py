"""C12 -- endpoints only act on tokens for their own endpoint number."""
from ..ir import E
from .. import q
from ..fsm import reachable, state_outcomes
from ..flow import reg_flow, TOP

TITLE = 'endpoint isolation'
FLOOR = 30
DECIDES = ('For every non-control endpoint class (USBInTransferManager as used by USBStreamInEndpoint, USBStreamOutEndpoint, '
           'USBSignalInEndpoint, USBIsochronousStreamInEndpoint, USBIsochronousStreamOutEndpoint, USBIsochronousInEndpoint): every '
           'site that can start a transmission (tx.valid), request a handshake, write a data toggle, write/commit/discard the '
           'receive FIFO or consume the host ACK either (i) carries in its guard -- or in every disjunct of its driving '
           'expression -- the endpoint-number atom (tokenizer.endpoint == own number; `active` for the transfer manager, which the '
           'endpoint wires to exactly that comparison) together with the direction atom (is_in for IN endpoints, is_out / is_ping '
           'for OUT endpoints), or (ii) lies in an FSM state that is unreachable from the initial state once the gated edges are '
           'removed. The endpoint multiplexer only broadcasts tokenizer / handshakes_in to all endpoints and ORs their '
           'requests, so the gating must be (and is checked) in the endpoints; a registered tx stream flag of the transfer manager '
           '(first) is, by forward dataflow of its possible values over the FSM, certainly 0 in every state other than the sending '
           'state, so nothing stale is ORed into another endpoint\'s transaction. ')
NOT_DECIDED = 'the control endpoint (C07); data contents; the PID-toggle multiplexer of USBEndpointMultiplexer.'
TOK = 'self.interface.tokenizer.'
EPI = 'self._endpoint_number == ' + TOK + 'endpoint'


def dnf_has(e, atom):
    return isinstance(e, E) and all((atom, True) in c for c in q.dnf(e))


def check_class(ctx, ir, cls, ep_atom, dir_atoms, actions, tok='self.interface.tokenizer.'):
    fsms = ir.fsms
    fsm = fsms[0] if fsms else None
    n = 0
    gated_edge = (lambda e: (ep_atom, True) in q.atoms(e)) if fsm else None
    safe_states = set()
    if fsm:
        r = reachable(fsm, fsm.init, edge_ok=lambda e: not gated_edge(e))
        safe_states = set(fsm.states) - r
    for sig, kind in actions:
        sites = [a for a in ir.assigns if (a.lhs.canon() == sig or a.lhs.canon().startswith(sig + '[')) and a.rhs is not None and not q.is_zero(a.rhs)]
        if kind == 'toggle':
            sites = [a for a in sites if 'clear_endpoint_halt' not in ' '.join(x for x, _ in q.atoms(a)) and not q.has(a, 'self.reset_sequence') and not q.has(a, 'self.discard')]
        for a in sites:
            n += 1
            at = q.atoms(a)
            in_guard = (ep_atom, True) in at
            in_rhs = dnf_has(a.rhs, ep_atom) and a.rhs.op != 'const'
            in_state = a.state is not None and a.state[1] in safe_states
            dir_ok = any((d, True) in at for d in dir_atoms) or (isinstance(a.rhs, E) and a.rhs.op != 'const' and any(all((d, True) in c for c in q.dnf(a.rhs)) for d in dir_atoms)) \
                or (isinstance(a.rhs, E) and a.rhs.op != 'const' and all(any((d, True) in c for d in dir_atoms) for c in q.dnf(a.rhs))) or in_state
            where = q.state_of(a)
            ctx.ob('C12.endpoint-gate', '%s.%s@%s#%d' % (cls, sig.replace('self.interface.', '').replace('self.', ''),
                                                        ('state%d' % fsm.states.index(where)) if (fsm and where in fsm.states) else 'any', sites.index(a)),
                   (in_guard or in_rhs or in_state) and dir_ok, a.loc,
                   'an endpoint may act (%s) only for a token with its own endpoint number and direction, or in a state reachable only '
                   'through such a token: %s' % (kind, q.fmt(a)[:300]))
    return n, safe_states


def run(ctx):
    total = 0
    # --- bulk / interrupt IN: transfer manager + wrapper
    tm = ctx.ir('USBInTransferManager', 'usb2.transfer', max_packet_size=64)
    n, safe = check_class(ctx, tm, 'USBInTransferManager', 'self.active', ['self.tokenizer.is_in'],
                          [('self.packet_stream.valid', 'transmit'), ('self.handshakes_out.nak', 'handshake'), ('self.handshakes_out.ack', 'handshake'),
                           ('self.handshakes_out.stall', 'handshake')])
    total += n
    f = ctx.the_fsm(tm)
    ackers = [x for x in list(f.edges) + tm.assigns if q.has(x, 'self.handshakes_in.ack')]
    for i, x in enumerate(ackers):
        ctx.ob('C12.ack-consumption', 'USBInTransferManager.ack-site#%d' % i, x.state is not None and x.state[1] in safe, x.loc,
               'the host ACK may only be consumed in a state entered by this endpoint\'s own IN transaction: %s' % q.fmt(x)[:200])
    ack_state = {x.state[1] for x in ackers if x.state}
    for s in ack_state:
        o = state_outcomes(f, s, {'self.tokenizer.new_token': True, 'self.discard': False, 'self.handshakes_in.ack': False})
        ctx.ob('C12.ack-consumption', 'USBInTransferManager.ack-state.left-on-token', None not in o and s not in o, f.state_loc[s],
               'the ACK-wait state is left on ANY new token (so a later ACK belonging to another endpoint cannot be taken): %s' % sorted(map(str, o)))
    # the endpoint multiplexer ORs the tx streams of all endpoints without looking at valid: a REGISTERED stream flag of an
    # endpoint (first / last / valid written in a clocked domain) that is still set while the endpoint is not sending is
    # driven into the transactions of the other endpoints.  Forward dataflow of its possible values: outside the state
    # that holds packet_stream.valid the flag is certainly 0.
    send_states = {q.state_of(a) for a in q.raises(tm, 'self.packet_stream.valid') if not a.guard}
    for flag in ('self.packet_stream.first', 'self.packet_stream.last', 'self.packet_stream.valid'):
        ds = tm.drivers(flag, exact=True)
        if not ds or all(d.domain == 'comb' for d in ds):
            continue            # combinational: 0 by default whenever no site drives it (the sites are gated above)
        after, possible = reg_flow(tm, f, flag)
        for st in f.states:
            if st in send_states:
                continue
            vals = set(possible[st])
            ctx.ob('C12.quiet-when-not-sending', 'USBInTransferManager.%s@state%d' % (flag.replace('self.', ''), f.states.index(st)),
                   vals <= {0}, f.state_loc[st],
                   'the registered flag %s is ORed into the shared transmit stream by the endpoint multiplexer: it must be 0 whenever this '
                   'endpoint is not in its sending state; possible values in state %s: %s' % (flag, st, sorted(map(str, vals))))
    ine = ctx.ir('USBStreamInEndpoint', 'endpoints.stream')
    d = ine.drivers('tx_manager.active', exact=True)
    ctx.ob('C12.active-wiring', 'USBStreamInEndpoint.tx_manager.active', len(d) == 1 and d[0].rhs.canon() == EPI and not d[0].guard, d[0].loc if d else None,
           'the transfer manager is active exactly for tokens with this endpoint number: %s' % [x.rhs.canon() for x in d])
    for lhs, rhs in (('tx_manager.tokenizer.is_in', TOK + 'is_in'), ('tx_manager.tokenizer.ready_for_response', TOK + 'ready_for_response'),
                     ('tx_manager.tokenizer.new_token', TOK + 'new_token'), ('tx_manager.handshakes_in.ack', 'self.interface.handshakes_in.ack'),
                     ('self.interface.handshakes_out.nak', 'tx_manager.handshakes_out.nak'), ('self.interface.tx.valid', 'tx_manager.packet_stream.valid')):
        d = ine.drivers(lhs, exact=True)
        ctx.ob('C12.active-wiring', 'USBStreamInEndpoint.' + lhs, len(d) == 1 and d[0].rhs.canon() == rhs and not d[0].guard, d[0].loc if d else None, '%s <= %s' % (lhs, rhs))
    # --- bulk OUT
    oe = ctx.ir('USBStreamOutEndpoint', 'endpoints.stream')
    n, _ = check_class(ctx, oe, 'USBStreamOutEndpoint', EPI, [TOK + 'is_out', TOK + 'is_ping'],
                       [('self.interface.handshakes_out.ack', 'handshake'), ('self.interface.handshakes_out.nak', 'handshake'), ('self.interface.handshakes_out.stall', 'handshake'),
                        ('fifo.write_en', 'fifo'), ('fifo.write_commit', 'fifo'), ('fifo.write_discard', 'fifo'), ('expected_data_toggle', 'toggle'), ('self.interface.tx.valid', 'transmit')])
    total += n
    # --- status IN
    se = ctx.ir('USBSignalInEndpoint', 'endpoints.status', endpoint_number=3, width=16)
    EPS = '3 == ' + TOK + 'endpoint'
    n, safe_s = check_class(ctx, se, 'USBSignalInEndpoint', EPS, [TOK + 'is_in'],
                            [('self.interface.tx.valid', 'transmit'), ('self.interface.handshakes_out.ack', 'handshake'), ('self.interface.handshakes_out.nak', 'handshake'),
                             ('self.interface.tx_pid_toggle', 'toggle')])
    total += n
    # --- isochronous
    ii = ctx.ir('USBIsochronousStreamInEndpoint', 'isochronous_stream_in')
    n, _ = check_class(ctx, ii, 'USBIsochronousStreamInEndpoint', EPI, [TOK + 'is_in'],
                       [('self.interface.tx.valid', 'transmit'), ('self.stream.ready', 'consume'), ('self.interface.handshakes_out.ack', 'handshake'),
                        ('self.interface.handshakes_out.nak', 'handshake'), ('self.data_requested', 'request')])
    total += n
    io = ctx.ir('USBIsochronousStreamOutEndpoint', 'isochronous_stream_out')
    n, _ = check_class(ctx, io, 'USBIsochronousStreamOutEndpoint', EPI, [TOK + 'is_out'],
                       [('fifo.write_en', 'fifo'), ('fifo.write_commit', 'fifo'), ('fifo.write_discard', 'fifo'), ('self.interface.handshakes_out.ack', 'handshake'),
                        ('self.interface.tx.valid', 'transmit')])
    total += n
    try:
        i2 = ctx.ir('USBIsochronousInEndpoint', 'endpoints.isochronous')
        n, _ = check_class(ctx, i2, 'USBIsochronousInEndpoint', EPI, [TOK + 'is_in'],
                           [('self.interface.tx.valid', 'transmit'), ('self.interface.handshakes_out.ack', 'handshake'), ('self.interface.handshakes_out.nak', 'handshake')])
        total += n
    except Exception as ex:
        ctx.need(False, 'USBIsochronousInEndpoint could not be analysed: %s' % ex)
    ctx.need(total >= 14, 'action sites checked (%d)' % total)       # 20+ on the tree the rule was written against; a vacuity guard, not a layout rule
    # --- the multiplexer broadcasts and ORs
    mux = ctx.ir('USBEndpointMultiplexer', 'usb2.endpoint')
    for fld in ('endpoint', 'new_token', 'is_in', 'is_out', 'ready_for_response'):
        d = mux.drivers('self._interfaces[*].tokenizer.' + fld, exact=True)
        ctx.ob('C12.mux-broadcast', 'USBEndpointMultiplexer.tokenizer.' + fld, len(d) == 1 and d[0].rhs.canon() == 'self.shared.tokenizer.' + fld and not d[0].guard,
               d[0].loc if d else None, 'token information is broadcast unmodified to every endpoint')
    # the data toggle handed to the packet generator is that of the endpoint that transmits NOW or transmitted one cycle ago
    # (the generator latches it as the packet starts): whatever register takes part in that selection is an unconditional
    # one-cycle copy of the endpoints' tx.valid -- a sticky copy would let the endpoint that transmitted last win over the
    # one that starts a packet
    tg = mux.drivers('self.shared.tx_pid_toggle', exact=True)
    sel_regs = sorted({n for a in tg for l in a.guard if isinstance(l.e, E) for n in l.e.sigs()
                       if any(x.domain != 'comb' for x in mux.drivers(n))})
    for r_ in sel_regs:
        dr = mux.drivers(r_)
        ok_ = len(dr) == 1 and not dr[0].guard and dr[0].state is None and isinstance(dr[0].rhs, E) and \
            dr[0].rhs.canon() in ('self._interfaces[*].tx.valid', 'Cat(self._interfaces[*].tx.valid)')
        ctx.ob('C12.mux-toggle-select', 'USBEndpointMultiplexer.tx_pid_toggle.%s' % r_, ok_, dr[0].loc if dr else None,
               'the register %s used to select the data toggle must be the unconditional one-cycle copy of the endpoints\' '
               'tx.valid: %s' % (r_, [q.fmt(x) for x in dr]))
    d = mux.drivers('self._interfaces[*].handshakes_in.ack', exact=True)
    ctx.ob('C12.mux-broadcast', 'USBEndpointMultiplexer.handshakes_in.ack', len(d) == 1 and d[0].rhs.canon() == 'self.shared.handshakes_in.ack', None,
           'host handshakes are broadcast to every endpoint (hence the need for per-endpoint attribution)')
    for fld in ('ack', 'nak', 'stall'):
        d = mux.drivers('self.shared.handshakes_out.' + fld, exact=True)
        ctx.ob('C12.mux-or', 'USBEndpointMultiplexer.handshakes_out.' + fld, len(d) == 1 and d[0].rhs.canon() == 'self._interfaces[*].handshakes_out.' + fld and not d[0].guard,
               None, 'handshake requests of all endpoints are ORed')
