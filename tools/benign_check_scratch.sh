#!/bin/bash
# benign_check_scratch.sh [patch ...] -- apply each behaviour-preserving patch (default: benign/*.diff) to a scratch copy of
# /repo/luna and run every check with --repo on it; every check must stay at exit 0.  /repo is never touched.
cd /verif
pats=${@:-$(ls benign/*.diff)}
rc_all=0
for pt in $pats; do
  S=$(mktemp -d /tmp/bc_XXXXXX); cp -r /repo/luna $S/luna
  if ! (cd $S && patch -p1 -s -f --no-backup-if-mismatch < /verif/$pt >/dev/null 2>&1); then echo "$pt: does not apply"; rm -rf $S; continue; fi
  ls sa/rules | grep '^C[0-9]' | sed 's/.py//' | xargs -P 16 -I{} sh -c "/venv/bin/python vcheck {} --repo $S > $S/{}.txt 2>&1; echo \"{} \$?\"" | sort > $S/all.txt
  bad=0
  while read p rc; do
    if [ "$rc" != "0" ]; then bad=1; rc_all=1; echo "  $pt: $p exit $rc"; grep -v '^KNOWN' $S/$p.txt | grep '^  [^a]\|ANALYSIS' | cut -c1-${COLS:-300} | head -${LINES_OUT:-4}; fi
  done < $S/all.txt
  [ $bad -eq 0 ] && echo "$pt: all checks exit 0"
  rm -rf $S
done
git checkout -- evidence 2>/dev/null
exit $rc_all
