#!/bin/bash
# benign_check.sh <patch> -- apply a behaviour-preserving patch to /repo transiently; every check must stay at exit 0
cd /verif
[ -z "$(git -C /repo status --short)" ] || { echo "/repo not clean"; exit 2; }
git -C /repo apply "$1" || { echo "patch does not apply"; exit 2; }
bad=0
ls sa/rules | grep '^C[0-9]' | sed 's/.py//' | xargs -P 8 -I{} sh -c '/venv/bin/python vcheck {} > /tmp/bc_{}.txt 2>&1; echo "{} $?"' | sort > /tmp/bc_all.txt
while read p rc; do
  if [ "$rc" != "0" ]; then bad=1; echo "  $p exit $rc"; grep -v '^KNOWN' /tmp/bc_$p.txt | grep '^  [^a]\|ANALYSIS' | cut -c1-${COLS:-300} | head -${LINES_OUT:-4}; fi
done < /tmp/bc_all.txt
git -C /repo checkout -- .
git checkout -- evidence 2>/dev/null
[ $bad -eq 0 ] && echo "all checks exit 0"
exit $bad
