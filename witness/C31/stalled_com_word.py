"""Witness for C31: a word with COM in symbol 0 and data symbols behind it is scrambled with a different key when the
consumer stalls it (the LFSR is cleared while the word is still waiting), so an unstalled descrambler started from the same
state does not return the original stream.  Usage: python stalled_com_word.py [repo]  (exit 1 = defect present)."""
import sys
sys.path.insert(0, sys.argv[1] if len(sys.argv) > 1 else '/repo')
from amaranth import *
from amaranth.sim import Simulator, Tick, Settle
from luna.gateware.usb.usb3.physical.scrambling import Scrambler, Descrambler

WORDS = [(0x11223344, 0b0000), (0x55667788, 0b0000), (0xa1b2c3bc, 0b0001), (0x99aabbcc, 0b0000), (0x01020304, 0b0000)]


def run(cls, words, stall_at):
    """Feed `words` (data, ctrl); the consumer drops ready for two cycles when word index `stall_at` is offered."""
    dut = DomainRenamer({'ss': 'sync'})(cls(0xffff))
    sim = Simulator(dut)
    sim.add_clock(1e-6)
    out = []

    def proc2():
        yield dut.enable.eq(1)
        i, stalled = 0, 0
        while i < len(words):
            d, c = words[i]
            yield dut.sink.data.eq(d)
            yield dut.sink.ctrl.eq(c)
            yield dut.sink.valid.eq(1)
            rdy = not (i == stall_at and stalled < 2)
            yield dut.source.ready.eq(int(rdy))
            yield Settle()
            if rdy:
                out.append(((yield dut.source.data), (yield dut.source.ctrl)))
                i += 1
            else:
                stalled += 1
            yield Tick()
    sim.add_process(proc2)
    sim.run()
    return out


scr_plain = run(Scrambler, WORDS, stall_at=None)
scr_stall = run(Scrambler, WORDS, stall_at=2)
back = run(Descrambler, scr_stall, stall_at=None)
print('scrambled, no stall :', ['%08x/%x' % w for w in scr_plain])
print('scrambled, COM word stalled:', ['%08x/%x' % w for w in scr_stall])
print('descrambled (unstalled)    :', ['%08x/%x' % w for w in back])
ok = back == WORDS and scr_plain == scr_stall
print('PASS' if ok else 'FAIL: the transferred COM word depends on the stall; descrambling does not return the original stream')
sys.exit(0 if ok else 1)
