"""C50 -- the SPI device exchanges whole words for every word size."""
from ..ir import E
from .. import q

TITLE = 'SPI device word framing'
FLOOR = 10
DECIDES = ('For word sizes 8 and 12 (a power of two and not) and both bit orders: (a) explicit wrap -- the bit counter '
           'that is compared with word_size to detect a complete word is reset under that very comparison (and when '
           'chip select is inactive) unless its width overflows exactly at word_size, and its declared range holds '
           'word_size - 1; (b) the receive shifter takes sdi at the LSB end for MSB-first (MSB end for LSB-first) on the '
           'sample edge only, the transmit shifter emits its MSB (LSB) on the output edge only, both only while chip '
           'select is active; (c) the completed word is copied to word_in together with a one-cycle word_complete, and '
           'word_out is loaded into the transmit shifter on word completion and while chip select is inactive. '
           'The gate of the bit counting is chip select itself, not a registered copy (alignment with the clock-edge detectors). ')
NOT_DECIDED = 'the SPI clock edge detection timing relative to the system clock.'


def _comb_support(ir, name):
    """Signals `name` depends on through combinational assignments only (itself included)."""
    seen, work = set(), [name]
    while work:
        n = work.pop()
        if n in seen:
            continue
        seen.add(n)
        for a in ir.drivers(n, exact=True):
            if a.domain == 'comb' and isinstance(a.rhs, E):
                work.extend(a.rhs.sigs())
                for l in a.guard:
                    if isinstance(l.e, E):
                        work.extend(l.e.sigs())
    return seen


def rx_loc(ir):
    ds = ir.drivers('current_rx', exact=True)
    return ds[0].loc if ds else None


def check(ctx, ws, msb):
    tag = 'ws%d,%s' % (ws, 'msb' if msb else 'lsb')
    ir = ctx.ir('SPIDeviceInterface', 'interface.spi', word_size=ws, msb_first=msb)
    acc = q.raises(ir, 'self.word_accepted')
    ctx.need(len(acc) == 1, 'word_accepted raise site')
    # the completion comparison: `K == counter` or `K == counter + 1` (any constant K)
    cmp_lits = []
    for l in acc[0].guard:
        ce = q.const_eq(l.e) if isinstance(l.e, E) and l.pos else None
        if ce and isinstance(ce[0], int) and len(l.e.sigs()) == 1:
            cmp_lits.append((l, ce))
    ctx.need(len(cmp_lits) == 1, 'comparison of the bit counter with a constant in the completion guard')
    cmp_e, (K, cexpr) = cmp_lits[0][0].e, cmp_lits[0][1]
    counters = sorted(s for s in cmp_e.sigs())
    cnt = counters[0]
    si = ir.signals[cnt]
    # number of sample edges per word implied by the comparison (counter starts at 0 and counts edges)
    if cexpr == cnt:
        edges_per_word = K + 1
    elif cexpr == '1 + ' + cnt:
        edges_per_word = K
    else:
        ctx.need(False, 'shape of the completion comparison: %s' % cmp_e.canon())
    ctx.ob('C50.word-length', 'SPIDeviceInterface.bit_count.compare[%s]' % tag, edges_per_word == ws, acc[0].loc,
           'a word is reported after %d sample edges, word_size is %d (%s)' % (edges_per_word, ws, cmp_e.canon()))
    done_guard = q.atoms(acc[0])
    # next value of the bit counter for every valuation of the conditions its writers mention (last assignment wins;
    # increment-then-override, If/Elif/Else and flag expressions alike): chip select inactive -> 0; a sample edge that
    # completes the word -> 0 (or +1 when the counter overflows exactly at word_size); any other sample edge -> +1;
    # otherwise it keeps its value
    from ..fsm import lit_atoms, assignments, holds
    cs_atoms = [(a, p) for a, p in done_guard if 'spi.cs' in a]
    if not cs_atoms:
        # the gate may be a registered copy of chip select: it then lags the pin by a cycle while the clock-edge detectors
        # do not, so an edge in the cycle chip select becomes active is judged against the old select state
        late = [a for a, p in done_guard if a in ir.signals and ir.drivers(a, exact=True) and
                all(d.domain != 'comb' and isinstance(d.rhs, E) and d.rhs.sigs() <= {'self.spi.cs'} for d in ir.drivers(a, exact=True))]
        if late:
            ctx.ob('C50.select-alignment', 'SPIDeviceInterface.chip-select-gate[%s]' % tag, False, ir.drivers(late[0], exact=True)[0].loc,
                   'the gate %s of the bit counting is a registered copy of chip select: clock edges are detected in the cycle '
                   'the new level appears, the gate one cycle later, so the first edge of a transaction that starts with chip '
                   'select is lost (every word framed one bit late)' % late)
    ctx.need(len(cs_atoms) == 1, 'chip select atom in the completion guard')
    cs_atom, cs_pol = cs_atoms[0]
    sample_guard = done_guard - {(cmp_e.canon(), True)}
    # the sample edge is "the clock pin now differs from its registered copy": one of its two atoms must follow spi.sck
    # combinationally -- if both are registers the edge is flagged a cycle after the pin moved while sdi and cs are read
    # live, so at the fastest supported clock every bit is taken from the next bit's window
    from ..fsm import atom_of as _atom_of
    edge_lits = [l for l in acc[0].guard if _atom_of(l) in sample_guard and _atom_of(l)[0] != cs_atom and isinstance(l.e, E)]
    edge_atoms = [_atom_of(l)[0] for l in edge_lits]
    live = [l for l in edge_lits if any('self.spi.sck' in _comb_support(ir, s_) for s_ in l.e.sigs())]
    ctx.ob('C50.select-alignment', 'SPIDeviceInterface.sample-edge.live-clock[%s]' % tag, bool(live) or not edge_atoms,
           rx_loc(ir), 'the sample-edge condition (%s) must compare the live clock pin with its registered copy; none of its '
           'terms follows spi.sck combinationally' % sorted(edge_atoms))
    natural = si.w is not None and (1 << si.w) == ws
    cd = sorted(ir.drivers(cnt, exact=True), key=lambda a: a.order)
    ats = sorted({x for a in cd for l in a.guard for x in lit_atoms(l)} | {x for x, _ in done_guard})
    bad_cs = bad_word = bad_inc = None
    for asg in assignments(ats):
        fire = [a for a in cd if holds(a.guard, asg)]
        last = fire[-1] if fire else None
        kind = None if last is None else '0' if q.is_zero(last.rhs) else '+1' if q.rhs_canon(last) == '1 + ' + cnt else q.rhs_canon(last)
        show = {k: v for k, v in asg.items()}
        if asg[cs_atom] != cs_pol:
            if kind != '0' and bad_cs is None:
                bad_cs = (show, kind)
        elif all(asg[x] == p for x, p in sample_guard):
            if asg[cmp_e.canon()]:
                if not (kind == '0' or (natural and kind == '+1')) and bad_word is None:
                    bad_word = (show, kind)
            elif kind != '+1' and bad_inc is None:
                bad_inc = (show, kind)
        elif kind is not None and bad_inc is None:
            bad_inc = (show, kind)
    ctx.ob('C50.explicit-wrap', 'SPIDeviceInterface.bit_count.reset-on-word[%s]' % tag, bad_word is None, acc[0].loc,
           'the bit counter %s (width %s) must restart when the sample edge completes a word of %d bits (natural overflow happens '
           'at %s): next value %s when %s' % (cnt, si.w, ws, (1 << si.w) if si.w else '?', bad_word and bad_word[1], bad_word and bad_word[0]))
    ctx.ob('C50.explicit-wrap', 'SPIDeviceInterface.bit_count.reset-on-cs[%s]' % tag, bad_cs is None,
           cd[0].loc if cd else None, 'bit counter must be cleared while chip select is inactive: next value %s when %s' % (
               bad_cs and bad_cs[1], bad_cs and bad_cs[0]))
    ctx.ob('C50.counter-range', 'SPIDeviceInterface.bit_count.range[%s]' % tag,
           si.w is not None and (1 << si.w) >= ws and (si.rng is None or si.rng[1] >= ws), si.loc,
           'bit counter range %s / width %s must hold word_size-1 = %d' % (si.rng, si.w, ws - 1))
    ctx.ob('C50.count-on-sample', 'SPIDeviceInterface.bit_count.inc[%s]' % tag, bad_inc is None, cd[0].loc if cd else None,
           'bit counter increments by one on every sample edge while selected and holds otherwise: next value %s when %s' % (
               bad_inc and bad_inc[1], bad_inc and bad_inc[0]))
    # (b) shifters
    rx = [a for a in ir.drivers('current_rx', exact=True)]
    want_rx = 'Cat(self.spi.sdi, current_rx[0:%d])' % (ws - 1) if msb else 'Cat(current_rx[1:%d], self.spi.sdi)' % ws
    ok = len(rx) == 1 and rx[0].rhs.canon() == want_rx and q.atoms(rx[0]) == sample_guard
    ctx.ob('C50.rx-shift', 'SPIDeviceInterface.current_rx[%s]' % tag, ok, rx[0].loc if rx else None,
           'receive shifter must be %s on the sample edge: %s' % (want_rx, [q.fmt(a) for a in rx]))
    # the transmit shifter: on the output edge the end bit goes to sdo and the rest moves up (msb first) / down (lsb first)
    # by one -- written as one Cat(...).eq(current_tx) or as two assignments, the IR has one assignment per target
    want_tx = ('current_tx[1:%d]' % ws, 'current_tx[0:%d]' % (ws - 1)) if msb else ('current_tx[0:%d]' % (ws - 1), 'current_tx[1:%d]' % ws)
    want_sdo = 'current_tx[%d:%d]' % (ws - 1, ws) if msb else 'current_tx[0:1]'
    tx = [a for a in ir.assigns if a.lhs.canon() == want_tx[0]]
    sdo = ir.drivers('self.spi.sdo', exact=True)
    ok = len(tx) == 1 and len(sdo) == 1 and tx[0].rhs.canon() == want_tx[1] and sdo[0].rhs.canon() == want_sdo and \
        q.atoms(sdo[0]) == q.atoms(tx[0]) and (cs_atom, cs_pol) in q.atoms(tx[0]) and \
        q.atoms(tx[0]) != sample_guard and len(q.atoms(tx[0])) == len(sample_guard)
    ctx.ob('C50.tx-shift', 'SPIDeviceInterface.current_tx.shift[%s]' % tag, ok, tx[0].loc if tx else None,
           'transmit shifter must emit its %s bit to sdo on the output edge (sdo <= %s, %s <= %s): %s' % (
               'most significant' if msb else 'least significant', want_sdo, want_tx[0], want_tx[1], [q.fmt(a) for a in sdo + tx]))
    if tx:
        # output edge is the opposite clock edge of the sample edge
        d1 = q.atoms(tx[0]) - sample_guard
        d2 = sample_guard - q.atoms(tx[0])
        ctx.ob('C50.edges', 'SPIDeviceInterface.sample-vs-output[%s]' % tag,
               {a for a, _ in d1} == {a for a, _ in d2} and all((a, not p) in d2 for a, p in d1), tx[0].loc,
               'sample and output edges must be opposite clock edges: %s vs %s' % (sorted(d1), sorted(d2)))
    # (c) word hand-over
    loads = [a for a in ir.drivers('current_tx', exact=True) if a.rhs.canon() == 'self.word_out']
    gs = [q.atoms(a) for a in loads]
    ctx.ob('C50.tx-load', 'SPIDeviceInterface.current_tx.load[%s]' % tag,
           len(loads) == 2 and done_guard in gs and {(cs_atom, not cs_pol)} in gs, loads[0].loc if loads else None,
           'word_out must be loaded on word completion and while chip select is inactive: %s' % [q.fmt(a) for a in loads])
    wi = ir.drivers('self.word_in', exact=True)
    # word_complete is a register: its next value must be word_accepted under every valuation (one-cycle truth table over
    # all its drivers; None = no driver fires, the register would hold)
    WA = 'self.word_accepted'
    wc_bad = [(asg, v) for asg, v in q.flag_values(ir, 'self.word_complete', None, init=None) if WA not in asg or v is not asg[WA]]
    ok = len(wi) == 1 and wi[0].rhs.canon() == 'current_rx' and q.atoms(wi[0]) == {(WA, True)} and \
        not wc_bad and bool(ir.drivers('self.word_complete', exact=True))
    ctx.ob('C50.word-report', 'SPIDeviceInterface.word_in[%s]' % tag, ok, wi[0].loc if wi else None,
           'word_in <= current_rx and a one-cycle word_complete exactly when a word was accepted')
    # word_accepted is a one-cycle strobe: its next value is 1 exactly under the completion conditions, 0 otherwise
    wa_bad = None
    for asg, v in q.flag_values(ir, WA, None, init=None):
        want_ = all(asg.get(x) == p for x, p in done_guard)
        if v is not want_ and wa_bad is None:
            wa_bad = (asg, v)
    ctx.ob('C50.word-report', 'SPIDeviceInterface.word_accepted.pulse[%s]' % tag, wa_bad is None, acc[0].loc,
           'word_accepted must be a single-cycle strobe (1 exactly when a word completes, 0 otherwise): next value %s when %s' % (
               wa_bad and wa_bad[1], wa_bad and wa_bad[0]))


def run(ctx):
    check(ctx, 8, True)
    check(ctx, 12, True)
    if ctx.tier == 'thorough':
        for ws in (8, 12, 5, 32):
            for msb in (True, False):
                if (ws, msb) not in ((8, True), (12, True)):
                    check(ctx, ws, msb)
