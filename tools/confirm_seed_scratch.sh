#!/bin/bash
# confirm_seed_scratch.sh <worktree> <seed-id> : like confirm_seed.sh, but /repo is never touched, so several
# confirmations can run at the same time: the patch is confirmed in the agent's own worktree (tests pass with it, demo
# fails with it and passes without), stored under /verif/seeded/<seed-id>/, and every check is run with --repo on a
# scratch copy of /repo/luna with the patch applied (evidence goes to the scratch directory).
set -u
WT=$1; ID=$2
cd $WT || exit 1
[ -f _seed/patch.diff ] || { echo "no patch"; exit 1; }
git checkout -q -- luna; git apply _seed/patch.diff || { echo "agent patch does not apply to its own tree"; exit 1; }
echo "== files: $(git diff --stat -- luna | tail -1)"
T=$(mktemp -d /tmp/cs_XXXXXX)
echo "== tests with change"; PYTHONPATH=$WT /venv/bin/python -m pytest -q -p no:cacheprovider tests 2>&1 | tail -1
echo "== demo with change"; PYTHONPATH=$WT timeout 900 /venv/bin/python _seed/demo.py > $T/demo_changed.txt 2>&1; echo "exit $?"; tail -2 $T/demo_changed.txt | cut -c1-300
git checkout -q -- luna
echo "== demo without change"; PYTHONPATH=$WT timeout 900 /venv/bin/python _seed/demo.py > $T/demo_unchanged.txt 2>&1; echo "exit $?"; tail -1 $T/demo_unchanged.txt | cut -c1-200
mkdir -p /verif/seeded/$ID
cp _seed/patch.diff /verif/seeded/$ID/patch.diff
cp _seed/demo.py /verif/seeded/$ID/demo.py
cp _seed/meta.json /verif/seeded/$ID/meta.agent.json
echo "== checks against a scratch copy of /repo/luna with the patch"
cp -r /repo/luna $T/luna
(cd $T && patch -p1 -s -f --no-backup-if-mismatch < /verif/seeded/$ID/patch.diff) || { echo "PATCH DOES NOT APPLY to /repo"; rm -rf $T; exit 1; }
cd /verif
ls sa/rules | grep '^C[0-9]' | sed 's/.py//' | xargs -P 8 -I{} sh -c "VERIF_EVIDENCE_DIR=$T/ev /venv/bin/python vcheck {} --repo $T > $T/{}.txt 2>&1; echo \"{} \$?\"" | sort > $T/all.txt
while read p rc; do
  if [ "$rc" != "0" ]; then echo "  $p exit $rc"; grep -v '^KNOWN' $T/$p.txt | grep '^  [^a]\|ANALYSIS' | cut -c1-260 | head -4; fi
done < $T/all.txt
rm -rf $T
echo "== done"
