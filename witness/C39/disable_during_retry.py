"""Witness candidate for C39: the link leaves U0 (enable low) while PacketTransmitter waits to retransmit after an LBAD.
`enable` low clears the counters and pointers but not the FSM; does the transmitter send headers nobody asked for (no credit,
nothing queued) after the link is brought up again?   Usage: python disable_during_retry.py [repo]   (exit 1 = it does)."""
import sys
sys.path.insert(0, sys.argv[1] if len(sys.argv) > 1 else '/repo')
from amaranth import *
from amaranth.sim import Simulator
from usb_protocol.types.superspeed import LinkCommand
from luna.gateware.usb.usb3.link.transmitter import PacketTransmitter
from luna.gateware.usb.usb3.physical.coding import SLC, SHP, EPF


def crc5(bits11):
    def x(*idx):
        r = 0
        for i in idx:
            r ^= (bits11 >> (10 - i)) & 1
        return r
    out = x(10, 9, 8, 5, 4, 2)
    out |= (1 ^ x(10, 9, 8, 7, 4, 3, 1)) << 1
    out |= x(10, 9, 8, 7, 6, 3, 2, 0) << 2
    out |= x(10, 7, 6, 4, 1) << 3
    out |= x(10, 9, 6, 5, 3, 0) << 4
    return out


def lcw(command, subtype):
    w = ((int(command) & 0xf) << 7) | (subtype & 0xf)
    w |= crc5(w) << 11
    return w | (w << 16)


def sym_word(*symbols):
    d = 0
    for i, s in enumerate(symbols):
        d |= s.value << (8 * i)
    return d

LCSTART, HPSTART = sym_word(SLC, SLC, SLC, EPF), sym_word(SHP, SHP, SHP, EPF)

dut = PacketTransmitter()
sim = Simulator(DomainRenamer({"ss": "sync"})(dut))
sim.add_clock(8e-9)
sent = []


async def monitor(ctx):
    words, cycle = None, 0
    async for _, _, valid, ready, data, ctrl in ctx.tick().sample(dut.source.valid, dut.source.ready, dut.source.data, dut.source.ctrl):
        cycle += 1
        if not (valid and ready):
            continue
        if words is None:
            if data == HPSTART and ctrl == 0b1111:
                words = []
        else:
            words.append(data)
            if len(words) == 4:
                sent.append((cycle, (words[3] >> 16) & 7, (words[3] >> 25) & 1, words[0]))
                words = None


async def send_lc(ctx, command, subtype=0):
    ctx.set(dut.sink.valid, 1); ctx.set(dut.sink.data, LCSTART); ctx.set(dut.sink.ctrl, 0b1111)
    await ctx.tick()
    ctx.set(dut.sink.data, lcw(command, subtype)); ctx.set(dut.sink.ctrl, 0)
    await ctx.tick()
    ctx.set(dut.sink.valid, 0)
    await ctx.tick().repeat(2)


async def bring_up(ctx, advertised):
    ctx.set(dut.enable, 1)
    await ctx.tick().repeat(2)
    await send_lc(ctx, LinkCommand.LGOOD, advertised)
    for credit in range(4):
        await send_lc(ctx, LinkCommand.LCRD, credit)


async def queue_header(ctx, dw0):
    ctx.set(dut.queue.header.dw0, dw0); ctx.set(dut.queue.valid, 1)
    for _ in range(50):
        ready = ctx.get(dut.queue.ready)
        await ctx.tick()
        if ready:
            break
    ctx.set(dut.queue.valid, 0)

result = {}


async def bench(ctx):
    ctx.set(dut.source.ready, 1)
    await bring_up(ctx, advertised=7)
    await queue_header(ctx, 0x0000_0104)                 # H0 goes out
    for _ in range(60):
        if sent:
            break
        await ctx.tick()
    # the partner rejects H0; our own LRTY has not gone out yet, so the retransmission waits (WAIT_FOR_RETRY)
    ctx.set(dut.lrty_pending, 1)
    await send_lc(ctx, LinkCommand.LBAD)
    await ctx.tick().repeat(6)
    # the link leaves U0 (Recovery) before the retransmission could start
    ctx.set(dut.enable, 0)
    await ctx.tick().repeat(6)
    ctx.set(dut.lrty_pending, 0)
    await ctx.tick().repeat(20)
    result['before'] = len(sent)
    # new link session: fresh advertisement and credits, NOTHING is queued
    await bring_up(ctx, advertised=2)
    await ctx.tick().repeat(400)

sim.add_testbench(bench)
sim.add_testbench(monitor, background=True)
sim.run()
spurious = sent[result['before']:]
down = [s for s in sent[1:result['before']]]
print('headers on the wire (cycle, seq, DL, dw0):', [(c, s, d, hex(w)) for c, s, d, w in sent])
print('sent while the link was down:', len(down), ' sent after the new bring-up with nothing queued:', len(spurious))
if spurious or down:
    print('FAIL: the transmitter sent %d header(s) that nobody queued' % (len(spurious) + len(down)))
    sys.exit(1)
print('PASS')
