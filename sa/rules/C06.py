"""C06 -- SETUP requests are decoded exactly and survive earlier corrupted packets."""
from ..ir import E
from .. import q
from ..fsm import must_exit, state_outcomes, reaches

TITLE = 'SETUP decoding'
FLOOR = 14
DECIDES = ('(a) packet-end discipline: every non-initial state of USBDataPacketDeserializer leaves to the initial state '
           'whenever rx_active is low, on every path (so a corrupted/aborted packet cannot wedge the deserializer); '
           '(b) new_packet / length / packet_id are written only under ~rx_active and the CRC16 comparison, length = '
           'position - 2; (c) USBSetupDecoder raises packet.received only in the state entered by SETUP-PID & new_token, '
           'under data_handler.new_packet and length == 8; (d) little-endian field mapping of the eight bytes; '
           '(e) every ack site is guarded by timer.tx_allowed or speed == HIGH and every path out of the waiting state '
           'raises ack exactly once; while waiting for the SETUP data the decoder returns to its initial state on any new '
           'non-SETUP token and on a CRC-valid data packet that is not 8 bytes long, and keeps waiting (for the data of the new '
           'transaction) on a new SETUP token -- so a retry after a corrupted data packet is not missed; the end of a packet that '
           'produced neither new_token nor new_packet (corrupted data, traffic for another device) can return it to idle (an edge '
           'that requires neither verdict exists; where it is guarded by an end-of-packet register derived from utmi.rx_active '
           'it is also excluded by both verdicts). ')
NOT_DECIDED = 'host-model histories (which packets follow which); endpoint number of the SETUP token (not checked by the decoder).'


def run(ctx):
    # ---- (a)(b) deserializer
    ir = ctx.ir('USBDataPacketDeserializer', 'usb2.packet', max_packet_size=8)
    fsm = ctx.the_fsm(ir)
    rxa = 'self.utmi.rx_active'
    init = fsm.init
    for st in fsm.states:
        if st == init:
            continue
        ok, cex = must_exit(fsm, st, {rxa: False}, targets={init})
        ctx.ob('C06.packet-end', 'USBDataPacketDeserializer.%s' % _role(ir, fsm, st), ok, fsm.state_loc[st],
               'state %s must return to %s on every path when rx_active is low; counterexample: %s' % (st, init, cex))
    for e in fsm.in_edges(init):
        ctx.ob('C06.idle-only-at-packet-end', 'USBDataPacketDeserializer.%s->init' % _role(ir, fsm, e.src), (rxa, False) in q.atoms(e), e.loc,
               'returning to idle while the packet is still in progress lets its remaining bytes be parsed as a new packet: %s' % q.fmt(e))
    np = q.raises(ir, 'self.new_packet')
    ctx.need(len(np) >= 1, 'USBDataPacketDeserializer.new_packet driver')
    for a in np:
        crc = [x for x, p in q.atoms(a) if p and ' == ' in x and 'crc' in x]
        ok = q.has(a, rxa, False) and len(crc) == 1
        ctx.ob('C06.new-packet-guard', 'USBDataPacketDeserializer.new_packet', ok, a.loc,
               'new_packet must be raised only at packet end (~rx_active) under the CRC comparison: %s' % q.fmt(a))
    for a in ir.drivers('self.length', exact=True):
        ok = isinstance(a.rhs, E) and a.rhs.op == '-' and a.rhs.args[1].is_const(2) and \
            any(g == q.atoms(a) for g in [q.atoms(x) for x in np])
        ctx.ob('C06.length', 'USBDataPacketDeserializer.length', ok, a.loc,
               'length must be (bytes captured - 2) and be written together with new_packet: %s' % q.fmt(a))
    # captured bytes are delivered in order
    for i in range(8):
        ds = ir.drivers('self.packet[%d]' % i, exact=True)
        ok = len(ds) == 1 and isinstance(ds[0].rhs, E) and ds[0].rhs.canon() == 'active_packet[%d]' % i
        ctx.ob('C06.byte-order', 'USBDataPacketDeserializer.packet[%d]' % i, ok, ds[0].loc if ds else None,
               'packet[%d] must be loaded from captured byte %d: %s' % (i, i, [q.fmt(d) for d in ds]))

    _length_exact(ctx, ir, 8)

    # ---- (c)(d)(e) setup decoder
    sd = ctx.ir('USBSetupDecoder', 'usb2.request')
    f = ctx.the_fsm(sd)
    idle = f.init
    # the state entered on SETUP token
    entry = [e for e in f.out_edges(idle)]
    ctx.need(entry, 'edges out of the setup decoder idle state')
    read_states = set()
    for e in entry:
        ok = q.has(e, 'self.tokenizer.new_token') and q.has(e, '13 == self.tokenizer.pid')
        ctx.ob('C06.setup-entry', 'USBSetupDecoder.%s->%s' % ('idle', 'read'), ok, e.loc,
               'leaving idle requires new_token & pid == SETUP(0b1101): %s' % q.fmt(e))
        read_states.add(e.dst)
    rec = q.raises(sd, 'self.packet.received')
    ctx.need(rec, 'USBSetupDecoder.packet.received driver')
    for a in rec:
        ok = q.state_of(a) in read_states and q.has(a, 'data_handler.new_packet') and q.has(a, '8 == data_handler.length')
        ctx.ob('C06.received-guard', 'USBSetupDecoder.packet.received', ok, a.loc,
               'packet.received only in the state after a SETUP token, under new_packet & length == 8: %s' % q.fmt(a))
    want = {
        'self.packet.recipient': 'data_handler.packet[0][0:5]',
        'self.packet.type': 'data_handler.packet[0][5:7]',
        'self.packet.is_in_request': 'data_handler.packet[0][7:8]',
        'self.packet.request': 'data_handler.packet[1]',
        'self.packet.value': 'Cat(data_handler.packet[2], data_handler.packet[3])',
        'self.packet.index': 'Cat(data_handler.packet[4], data_handler.packet[5])',
        'self.packet.length': 'Cat(data_handler.packet[6], data_handler.packet[7])',
    }
    guards = {frozenset(q.atoms(a)) for a in rec}
    found = {}
    fields = sorted({t for a in sd.assigns for t in a.lhs_sigs() if t.startswith('self.packet.') and t != 'self.packet.received'})
    for f_ in fields:
        for a in q.merged_drivers(sd, f_):          # a field written slice by slice under one guard counts as one assignment
            found.setdefault(a.lhs.canon(), []).append(a)
    for lhs, rhs in want.items():
        ds = found.pop(lhs, [])
        ok = len(ds) == 1 and ds[0].rhs.canon() == rhs and frozenset(q.atoms(ds[0])) in guards
        ctx.ob('C06.field-map', 'USBSetupDecoder.' + lhs.replace('self.packet.', ''), ok, ds[0].loc if ds else None,
               '%s must be loaded from %s together with packet.received: %s' % (lhs, rhs, [q.fmt(d) for d in ds]))
    ctx.ob('C06.field-map', 'USBSetupDecoder.no-other-field-writers', not found, None,
           'unexpected writers of setup packet fields: %s' % sorted(found))
    # widths of the bmRequestType split: recipient 5, type 2, direction 1
    ws = [getattr(sd.signals.get('self.packet.' + n), 'w', None) for n in ('recipient', 'type', 'is_in_request')]
    ctx.ob('C06.field-map', 'SetupPacket.bmRequestType-widths', ws == [5, 2, 1], None,
           'recipient/type/is_in_request widths must be 5/2/1, found %s' % ws)
    # ack sites
    acks = q.raises(sd, 'self.ack')
    ctx.need(acks, 'USBSetupDecoder.ack driver')
    for a in acks:
        at = q.atoms(a)
        gated = ('self.timer.tx_allowed', True) in at or \
            any(p and x == '(0 == self.speed) | self.timer.tx_allowed' for x, p in at)
        ctx.ob('C06.ack-gap', 'USBSetupDecoder.ack@%s' % _role2(f, q.state_of(a), idle, read_states), gated, a.loc,
               'ACK must wait for timer.tx_allowed (or speed == HIGH): %s' % q.fmt(a))
    # every new token returns the decoder to idle (so a stale SETUP never pairs with a later data packet);
    # among the accepted-packet outcomes, later m.next wins -- decide by exact outcome enumeration
    SETUP = '13 == self.tokenizer.pid'
    for st in read_states:
        outs = state_outcomes(f, st, {'self.tokenizer.new_token': True, 'data_handler.new_packet': False, SETUP: False})
        ok = set(outs) == {idle}
        ctx.ob('C06.token-aborts', 'USBSetupDecoder.read', ok, f.state_loc[st],
               'a new non-SETUP token while waiting for the SETUP data must return to idle; outcomes %s' % sorted(map(str, outs)))
        # ... but a new SETUP token (the host retrying after a corrupted or lost data packet) starts a new transaction:
        # the data packet that follows it must be taken, i.e. the decoder keeps waiting for data
        outs = state_outcomes(f, st, {'self.tokenizer.new_token': True, 'data_handler.new_packet': False, SETUP: True})
        ok = set(outs) <= (set(read_states) | {None})
        ctx.ob('C06.setup-token-restarts', 'USBSetupDecoder.read', ok, f.state_loc[st],
               'a new SETUP token while still waiting for the data packet of an earlier SETUP (whose data packet was corrupted '
               'or lost) must keep the decoder waiting for data, otherwise the retried transaction is missed; outcomes %s'
               % sorted(map(str, outs)))
    # the data-wait state is not sticky: a packet that ends WITHOUT being a token for us and without being a valid data
    # packet (a corrupted data packet, traffic for another device -- neither raises new_token nor new_packet) must end the
    # transaction; otherwise the next valid 8-byte data packet on the bus, whoever it is for, is reported as our SETUP
    NT, NP, RXA = 'self.tokenizer.new_token', 'data_handler.new_packet', 'self.utmi.rx_active'

    def _only_rx_active(name, depth=3):
        """Is `name` a register computed (through at most `depth` registers) from utmi.rx_active alone?"""
        ds = sd.drivers(name, exact=True)
        if not ds or any(d.guard or d.state is not None or d.domain == 'comb' for d in ds):
            return False
        for d in ds:
            for n in (d.rhs.sigs() if isinstance(d.rhs, E) else ()):
                if n != RXA and not (depth > 0 and n != name and _only_rx_active(n, depth - 1)):
                    return False
        return True
    for st in read_states:
        esc = [e for e in f.out_edges(st) if e.dst == idle and (NT, True) not in q.atoms(e) and (NP, True) not in q.atoms(e)]
        ends = [e for e in esc if any(p and _only_rx_active(x) for x, p in q.atoms(e))]
        ok = bool(esc)           # necessary: SOME way out that needs neither verdict (how the end of a packet is recognised is free)
        ctx.ob('C06.silent-packet-aborts', 'USBSetupDecoder.read', ok, f.state_loc[st],
               'while waiting for the SETUP data, the end of a packet that produced neither new_token nor new_packet (a corrupted '
               'data packet, a token or data for another device) must return the decoder to idle: there must be an edge to idle that '
               'requires neither new_token nor new_packet; such edges: %s'
               % [q.fmt(e)[:160] for e in esc])
        for e in ends:
            # ... and that edge must not fire for a packet that IS a token for us or a valid data packet
            ok2 = (NT, False) in q.atoms(e) and (NP, False) in q.atoms(e)
            ctx.ob('C06.silent-packet-aborts', 'USBSetupDecoder.read.only-silent-packets', ok2, e.loc,
                   'the end-of-packet abort must be excluded by new_token and by new_packet (a SETUP retry and a valid data '
                   'packet end in that very cycle and must be handled, not dropped): %s' % q.fmt(e)[:200])
    # a CRC-valid data packet of the wrong length ends the transaction: the decoder must not stay armed, or the data
    # packet of a later, unrelated transaction (another device's OUT data) would be taken for the SETUP payload
    for st in read_states:
        outs = state_outcomes(f, st, {'self.tokenizer.new_token': False, 'data_handler.new_packet': True,
                                      '8 == data_handler.length': False})
        ctx.ob('C06.wrong-length-aborts', 'USBSetupDecoder.read', set(outs) == {idle}, f.state_loc[st],
               'a data packet that is not 8 bytes long must end the SETUP transaction (back to idle) without a report; '
               'outcomes %s' % sorted(map(str, outs)))
    # states that wait for the gap must be reachable only from the accepted-packet edge and leave only with an ack
    for st in f.states:
        if st == idle or st in read_states:
            continue
        ins = f.in_edges(st)
        ok_in = all(e.src in read_states and q.has(e, '8 == data_handler.length') and q.has(e, 'data_handler.new_packet')
                    for e in ins) and ins
        outs = f.out_edges(st)
        ack_guards = {frozenset(q.atoms(a)) for a in acks if q.state_of(a) == st}
        ok_out = outs and all(frozenset(q.atoms(e)) in ack_guards and e.dst == idle for e in outs)
        ctx.ob('C06.ack-once', 'USBSetupDecoder.delay-state', bool(ok_in and ok_out), f.state_loc[st],
               'the gap-waiting state is entered only from an accepted 8-byte packet and left only together with the ack')
    for st in read_states:
        for e in f.out_edges(st):
            if q.has(e, '8 == data_handler.length') and e.dst == idle:
                ack_guards = {frozenset(q.atoms(a)) for a in acks if q.state_of(a) == st}
                ctx.ob('C06.ack-once', 'USBSetupDecoder.immediate-ack', frozenset(q.atoms(e)) in ack_guards, e.loc,
                       'returning to idle after an accepted packet must coincide with the ack: %s' % q.fmt(e))
    # timer start
    ts = sd.drivers('self.timer.start', exact=True)
    ok = len(ts) == 1 and ts[0].rhs.canon() == 'data_handler.new_packet' and not ts[0].guard
    ctx.ob('C06.timer-start', 'USBSetupDecoder.timer.start', ok, ts[0].loc if ts else None,
           'inter-packet timer must start on data_handler.new_packet')
    # the decoder's deserializer is built for 8-byte packets
    sub = [s for s in sd.submodules if s.name == 'data_handler']
    ok = bool(sub) and sub[0].obj.clsname == 'USBDataPacketDeserializer' and sub[0].obj.kwargs.get('max_packet_size') == 8
    ctx.ob('C06.deserializer-size', 'USBSetupDecoder.data_handler', ok, sub[0].loc if sub else None,
           'setup decoder must use a USBDataPacketDeserializer(max_packet_size=8)')


def _role(ir, fsm, st):
    """Stable role name of a deserializer state: by what it does, not by its label."""
    writes = {t for a in ir.assigns if a.state == (fsm.id, st) for t in a.lhs_sigs()}
    if 'self.new_packet' in writes:
        return 'capture-state'
    if 'active_pid' in writes:
        return 'pid-state'
    if not writes:
        return 'ignore-state'
    return 'state-writing-' + '+'.join(sorted(writes))[:40]


def _role2(f, st, idle, read_states):
    if st in read_states:
        return 'read'
    if st == idle:
        return 'idle'
    return 'delay'


def _length_exact(ctx, ir, mps):
    """`new_packet` reports a packet of exactly `length` data bytes: the one-cycle relation of USBDataPacketDeserializer
    (restricted to the cone of influence of new_packet / length and its FSM) is composed with a reference monitor -- the
    number of bytes the PHY has delivered since rx_active rose -- and every reachable product state is explored under all
    values of rx_active / rx_valid and under a CRC input that may or may not match.  Whenever the next new_packet is 1, the
    next length may be 8 (what the setup decoder tests for) only if (bytes delivered) - 1 PID - 2 CRC is 8.  Every byte is the constant 0xC3
    (a well-formed DATA0 PID; as a data byte its value is irrelevant to the count)."""
    from ..num import Stepper, NoEval
    from ..ir import AnalysisError
    RXA, RXV, RXD = 'self.utmi.rx_active', 'self.utmi.rx_valid', 'self.utmi.rx_data'
    NP, LEN = 'self.new_packet', 'self.length'
    try:
        st = Stepper(ir)
        cone = st.restrict({NP, LEN})
    except AnalysisError as ex:
        ctx.need(False, 'one-cycle semantics of USBDataPacketDeserializer (%s)' % ex)
    free = sorted(n for n in cone if n not in st.regs and n not in st.comb_sigs and n not in (RXA, RXV, RXD))
    ctx.need(len(free) <= 1, 'USBDataPacketDeserializer: inputs other than the UTMI receive signals and the running CRC (%s)' % free)
    BYTE, WORD = 0xC3, 0xC3C3
    crc_vals = (WORD, 0) if free else (None,)
    fkeys = sorted(k for k in ('$fsm%s' % f.id for f in ir.fsms))
    regs0 = tuple(st.inits.get(r, 0) for r in st.regs) + tuple(f.init for f in ir.fsms)
    CAP = mps + 6
    # environment (UTMI): RxValid is only raised while RxActive is, and not in the very cycle RxActive rises (the PHY needs
    # the SYNC pattern first) -- the monitor remembers whether RxActive was high in the previous cycle
    seen, work, bad, raised, n_eval = {(regs0, 0, 0)}, [(regs0, 0, 0)], None, 0, 0
    names = list(st.regs) + fkeys
    while work and bad is None:
        regs, n, was_active = work.pop()
        for act, val in ((0, 0), (1, 0), (1, 1)):
            if val and not was_active:
                continue
            for cv in crc_vals:
                env = dict(zip(names, regs))
                env.update({RXA: act, RXV: val, RXD: BYTE, '$w:' + RXD: 8})
                if cv is not None:
                    env[free[0]] = cv
                try:
                    cur, nxt = st.step(env)
                except NoEval as ex:
                    ctx.need(False, 'USBDataPacketDeserializer evaluates under the UTMI receive signals alone (%s)' % ex)
                n_eval += 1
                if nxt.get(NP):
                    raised += 1
                    # only the length the setup decoder tests for is part of C06: a packet reported as 8 bytes long is one
                    # (what `length` says for a runt -- fewer than PID + 2 CRC bytes -- is not: the decoder ignores it)
                    if nxt.get(LEN) == mps and n - 3 != mps and bad is None:
                        bad = 'new_packet is raised with length %s after the PHY delivered %d byte(s) in this packet (PID + %d data ' \
                              'byte(s) + 2 CRC bytes)' % (nxt.get(LEN), n, n - 3)
                n2 = 0 if not act else min(n + val, CAP)
                nx = (tuple(nxt[k] for k in names), n2, act)
                if nx not in seen:
                    seen.add(nx)
                    work.append(nx)
    ctx.need(bad is not None or raised > 0, 'product exploration of USBDataPacketDeserializer reaches a reported packet')
    ctx.ob('C06.length-exact', 'USBDataPacketDeserializer.length[mps%d]' % mps, bad is None, ir.drivers(LEN, exact=True)[0].loc,
           'a packet reported as 8 bytes long (the only length the setup decoder accepts) carried exactly 8 data bytes: %s  [%d product states, %d evaluations, registers in the cone: %s]' % (
               bad, len(seen), n_eval, ', '.join(st.regs)))
