"""Alpha-normalisation of local variable names against the reference tree.

Many rules name a *local* variable of an elaborate() method the way the pinned tree does (`timer`, `bitno`,
`expected_data_toggle`...).  Renaming a local is not a change of behaviour, so before a function is interpreted its
locally bound names are compared with the names recorded for the same function of the reference tree
(sa/locals_ref.json, written by tools/gen_locals_ref.py).  When a recorded name is gone and an unrecorded local with the
same declaration shape has appeared, every occurrence of the new name inside that function is renamed back.

Soundness: the renaming is a consistent, collision-free bijection on names *bound inside the function* (nested closures
included), i.e. an alpha-conversion: the function analysed afterwards is equivalent to the one in the tree whatever
pairing is chosen.  The pairing heuristic only decides whether the rules find their anchors again; a wrong or missing
pairing gives the behaviour without this pass (anchor vanished / obligation on a name that does not exist), never a
silent pass.  Every renaming applied is kept in `RepoIndex.alpha_renames` and copied into the evidence.
"""
import ast
import hashlib
import json
import os

REF_PATH = os.path.join(os.path.dirname(os.path.abspath(__file__)), 'locals_ref.json')
_REF = None


def reference():
    global _REF
    if _REF is None:
        try:
            _REF = json.load(open(REF_PATH))
        except (OSError, ValueError):
            _REF = {}
    return _REF


def top_functions(tree):
    """(qualified name, FunctionDef) of module-level functions and of methods of module-level classes."""
    for st in tree.body:
        if isinstance(st, (ast.FunctionDef, ast.AsyncFunctionDef)):
            yield st.name, st
        elif isinstance(st, ast.ClassDef):
            for s2 in st.body:
                if isinstance(s2, (ast.FunctionDef, ast.AsyncFunctionDef)):
                    yield st.name + '.' + s2.name, s2


def _excluded(fun):
    bad = set()
    for sub in ast.walk(fun):
        if isinstance(sub, (ast.FunctionDef, ast.AsyncFunctionDef, ast.Lambda)):
            a = sub.args
            for x in a.args + a.kwonlyargs + a.posonlyargs + ([a.vararg] if a.vararg else []) + ([a.kwarg] if a.kwarg else []):
                bad.add(x.arg)
            if not isinstance(sub, ast.Lambda) and sub is not fun:
                bad.add(sub.name)
        elif isinstance(sub, (ast.Global, ast.Nonlocal)):
            bad |= set(sub.names)
        elif isinstance(sub, (ast.Import, ast.ImportFrom)):
            bad |= {(al.asname or al.name).split('.')[0] for al in sub.names}
        elif isinstance(sub, ast.ClassDef):
            bad.add(sub.name)
    return bad


def _bound(fun):
    """Ordered [(name, value node, slot)] of the names bound by plain assignment / `with ... as` inside fun."""
    out = []

    def targets(t, value, slot=''):
        if isinstance(t, ast.Name):
            out.append((t.id, value, slot))
        elif isinstance(t, (ast.Tuple, ast.List)):
            for i, x in enumerate(t.elts):
                targets(x, value, slot + '.%d' % i)

    class V(ast.NodeVisitor):
        def visit_Assign(self, n):
            for t in n.targets:
                targets(t, n.value)
            self.generic_visit(n)

        def visit_AnnAssign(self, n):
            if n.value is not None:
                targets(n.target, n.value)
            self.generic_visit(n)

        def visit_With(self, n):
            for it in n.items:
                if it.optional_vars is not None:
                    targets(it.optional_vars, it.context_expr, 'as')
            self.generic_visit(n)
    V().visit(fun)
    return out


class _Anon(ast.NodeTransformer):
    def __init__(self, names):
        self.names = names

    def visit_Name(self, n):
        return ast.Name(id='_', ctx=ast.Load()) if n.id in self.names else ast.Name(id=n.id, ctx=ast.Load())


def local_bindings(fun):
    """Ordered [(name, fingerprint)]: the fingerprint digests the (local-name-free) expressions the name is bound to."""
    bad = _excluded(fun)
    b = [(n, v, s) for n, v, s in _bound(fun) if n not in bad]
    names = {n for n, _, _ in b}
    import copy
    parts, order = {}, []
    for n, v, s in b:
        if n not in parts:
            parts[n] = []
            order.append(n)
        parts[n].append(s + ':' + ast.dump(_Anon(names).visit(copy.deepcopy(v))))
    return [(n, hashlib.sha1('|'.join(parts[n]).encode()).hexdigest()[:12]) for n in order]


def _identifiers(fun):
    ids = set()
    for n in ast.walk(fun):
        if isinstance(n, ast.Name):
            ids.add(n.id)
        elif isinstance(n, ast.arg):
            ids.add(n.arg)
        elif isinstance(n, (ast.FunctionDef, ast.AsyncFunctionDef, ast.ClassDef)):
            ids.add(n.name)
    return ids


def module_level_names(tree):
    out = set()
    for st in tree.body:
        if isinstance(st, (ast.FunctionDef, ast.AsyncFunctionDef, ast.ClassDef)):
            out.add(st.name)
        elif isinstance(st, (ast.Import, ast.ImportFrom)):
            out |= {(al.asname or al.name).split('.')[0] for al in st.names}
        elif isinstance(st, (ast.Assign, ast.AnnAssign)):
            for t in (st.targets if isinstance(st, ast.Assign) else [st.target]):
                out |= {n.id for n in ast.walk(t) if isinstance(n, ast.Name)}
    return out


def normalise_function(fun, ref_list, reserved=frozenset()):
    """Rename locals of `fun` back to the reference names where that is an unambiguous alpha-conversion.
    Returns {current name: reference name}.  Names in `reserved` (module-level names, which a nested scope could also
    mean as globals) are never renamed and never used as a target."""
    ref_names = {n for n, _ in ref_list}
    if ref_names <= {n for n, _, _ in _bound(fun)}:
        return {}                                       # every reference name is still bound here: nothing to do (cheap path)
    cur = local_bindings(fun)
    cur_names = {n for n, _ in cur}
    missing = [(n, fp) for n, fp in ref_list if n not in cur_names]
    extra = [(n, fp) for n, fp in cur if n not in ref_names]
    if not missing or not extra:
        return {}
    pairs = []
    fps = []
    for _, fp in missing:
        if fp not in fps:
            fps.append(fp)
    for fp in fps:
        ms = [n for n, f in missing if f == fp]
        xs = [n for n, f in extra if f == fp]
        if len(ms) == len(xs):
            pairs += list(zip(xs, ms))
    done_x = {x for x, _ in pairs}
    done_m = {m for _, m in pairs}
    rest_m = [n for n, _ in missing if n not in done_m]
    rest_x = [n for n, _ in extra if n not in done_x]
    if len(rest_m) == 1 and len(rest_x) == 1:
        pairs.append((rest_x[0], rest_m[0]))            # any bijection is an alpha-conversion; a single leftover pair is unambiguous
    ids = _identifiers(fun)
    ren = {}
    for x, m in pairs:
        if m in ids or m in ren.values() or m in reserved or x in reserved:
            continue                                    # would collide with something the function already uses
        ren[x] = m
    if ren:
        for n in ast.walk(fun):
            if isinstance(n, ast.Name) and n.id in ren:
                n.id = ren[n.id]
    return ren


def normalise_module(tree, relpath):
    """Apply normalise_function to every top-level function / method of a parsed module.  Returns [(qualname, {cur: ref})]."""
    ref = reference().get(relpath)
    if not ref:
        return []
    out = []
    reserved = module_level_names(tree) | set(dir(__builtins__) if not isinstance(__builtins__, dict) else __builtins__)
    for qual, fun in top_functions(tree):
        rl = ref.get(qual)
        if not rl:
            continue
        ren = normalise_function(fun, [tuple(x) for x in rl], reserved)
        if ren:
            out.append((qual, ren))
    return out
