#!/venv/bin/python
"""gen_locals_ref.py [tree] -- write sa/locals_ref.json: for every top-level function / method of <tree>/luna (default /repo),
the ordered local names with the fingerprint of their declarations (see sa/alpha.py).  Run by hand on the reference tree;
the output is committed (a frozen table: the checks never write it)."""
import ast, json, os, sys
V = os.path.dirname(os.path.dirname(os.path.abspath(__file__)))
sys.path.insert(0, V)
sys.dont_write_bytecode = True
from sa import alpha
repo = sys.argv[1] if len(sys.argv) > 1 else '/repo'
out = {}
sigs = {}
nf = nn = 0


def signal_locals(tree):
    """Names of plain local variables bound directly to Signal(...) / Signal.like(...) anywhere in the file."""
    names = set()
    for n in ast.walk(tree):
        if isinstance(n, ast.Assign) and isinstance(n.value, ast.Call):
            f = n.value.func
            is_sig = (isinstance(f, ast.Name) and f.id == 'Signal') or \
                (isinstance(f, ast.Attribute) and f.attr == 'like' and isinstance(f.value, ast.Name) and f.value.id == 'Signal')
            if is_sig:
                for t in n.targets:
                    if isinstance(t, ast.Name):
                        names.add(t.id)
    return sorted(names)


for dp, dn, fn in os.walk(os.path.join(repo, 'luna')):
    dn[:] = sorted(d for d in dn if d != '__pycache__')
    for f in sorted(fn):
        if not f.endswith('.py'):
            continue
        p = os.path.join(dp, f)
        rel = os.path.relpath(p, repo)
        try:
            tree = ast.parse(open(p, encoding='utf-8').read())
        except SyntaxError:
            continue
        d = {}
        for qual, fun in alpha.top_functions(tree):
            lb = alpha.local_bindings(fun)
            if lb:
                d[qual] = [list(x) for x in lb]
                nf += 1
                nn += len(lb)
        if d:
            out[rel] = d
        sl = signal_locals(tree)
        if sl:
            sigs[rel] = sl
json.dump(out, open(alpha.REF_PATH, 'w'), indent=0, sort_keys=True)
json.dump(sigs, open(os.path.join(os.path.dirname(alpha.REF_PATH), 'signals_ref.json'), 'w'), indent=0, sort_keys=True)
print('files with local signals', len(sigs), 'names', sum(len(v) for v in sigs.values()))
print('functions', nf, 'local names', nn, '->', alpha.REF_PATH)
