"""C27 -- constant-stream generators emit exactly the requested slice."""
import ast

from ..ir import E, AnalysisError, ModuleIR, Obj, NOVAL
from .. import interp as _interp, hdl as _hdl
from ..values import ClassRef, FuncRef, Unknown, pval
from .. import num as _num
from ..num import Stepper, NoEval

TITLE = 'constant-stream generator / serializer slice'
FLOOR = 150
DECIDES = ('ConstantStreamGenerator (byte stream and the 32-bit SuperSpeed stream, little and big endian constants) and '
           'StreamSerializer are lifted for a family of small concrete configurations (constant / array lengths 1..7, 1..12 in '
           'the thorough tier; max_length widths 2..4 with the FULL range of max_length, which always reaches beyond the data '
           'length, plus the in-tree 16-bit width with max_length in 0..L+5 and the two extreme values). For each configuration '
           'the extracted one-cycle semantics (FSM, registers, the ROM read port modelled as the lookup it is: data = ROM[addr '
           'of the previous cycle]) is composed with a reference monitor that holds the expected remaining slice, and ALL '
           'reachable (design, monitor) states are explored from reset with start and ready chosen freely every cycle and '
           'start_position (every position WITHIN the data: element indexes 0..n-1, word indexes for the 32-bit stream) and '
           'max_length chosen freely while no transfer is in progress and held during a transfer (an exhaustive fixpoint; no '
           'stimulus is chosen; no state reachable only through an out-of-range start position is evaluated). Decided per configuration: (slice) every '
           'accepted word carries, in the lanes that hold them, the next bytes of data[start:] limited to max_length bytes, and '
           'no word follows the final one; (first) / (last) first exactly on the first word, last exactly on the final word; '
           '(valid-mask) as many per-byte valid bits are set as bytes are due in the word, and (valid-lanes, one obligation per '
           'stream family) they mark the lanes that hold those bytes; (done) done is low until the final word has been '
           'accepted, then pulses within 3 cycles, once; (quiet) nothing is emitted and done stays low without a start; '
           '(zero-length) nothing is emitted after a start with max_length 0 (done may or may not pulse: the text does not '
           'say); (progress) with ready high the next word is handed over within 3 cycles; (completes) every (start, '
           'max_length) transfer actually runs to done (the rest is not vacuous). Structural: the ROM image holds every '
           'byte of the constant, the bytes of a word in the configured lane order; position register and start_position '
           'input are wide enough for every element; the serializer payload is pure routing of data[]. '
           'The valid-lane obligation has two instances per stream family: words cut short by max_length, and words not cut (whole words, final word of the data). ')
NOT_DECIDED = ('lengths above the explored bound and max_length widths other than those enumerated (the construction is uniform '
               'but that is not proven; for the 16-bit width only max_length 0..L+5, 32768 and 65535 are explored); a start position '
               'at or after the end of the data -- the property speaks of a start position within the data, so what the '
               'generators do there (they clamp to the last element and send it without first) is out of scope here; the '
               'zero-length continuation belongs to C09. Observation, not an obligation: for multi-byte streams the start position '
               'is a WORD index (position register, ROM address and first all use it that way) while the input is declared '
               'Signal(range(len(data))) in BYTES, so it can carry word indexes beyond the last word, which are truncated into the '
               'narrower position register; '
               'inputs changing during a transfer (start_position is read live for first, the serializer reads max_length and '
               'data[] live); a start pulsed while a transfer or the done pulse is in progress; stability of an offered word '
               'before it is accepted; output_length; ConstantStreamGenerator without max_length_width (elaborate() calls '
               '.eq on a Python int there, it cannot be built); the content of lanes whose valid bit is low.')

GEN, SER, MOD = 'ConstantStreamGenerator', 'StreamSerializer', 'stream.generator'
START, DONE, SP, ML = 'self.start', 'self.done', 'self.start_position', 'self.max_length'
VALID, READY, FIRST, LAST, PAYLOAD = ('self.stream.' + f for f in ('valid', 'ready', 'first', 'last', 'payload'))
STALL = 3          # cycles with ready high (resp. after the final word) the monitor waits for a word (resp. done)
GRACE = 2          # cycles after a start that must emit nothing during which done is tolerated
MAX_STATES = 400000
CROSS_CHECK = 150    # evaluations per configuration computed with both evaluators and compared

CLAUSES = (
    ('slice', 'stream.payload', 'every accepted word carries the next bytes of data[start:] limited to max_length, and none follows the final word'),
    ('first', 'stream.first', 'first accompanies exactly the first word of a transfer'),
    ('last', 'stream.last', 'last accompanies exactly the final word of a transfer'),
    ('valid-mask', 'stream.valid', 'as many per-byte valid bits are set as bytes are due in this word'),
    ('done', 'done', 'done stays low until the final word has been accepted and then pulses once'),
    ('quiet', 'idle', 'no word and no done pulse without a start'),
    ('zero-length', 'max_length=0', 'nothing is emitted when the length limit is zero'),
    ('progress', 'progress', 'with ready high the next word of a started transfer is handed over within %d cycles' % STALL),
)
SOFT = {'slice-data', 'first', 'last', 'valid-mask'}


# --------------------------------------------------------------------------------------------- extraction
class _Interp(_interp.Interp):
    """The engine's interpreter plus the two pure-Python constructs of _get_initializer_value() it does not model
    (`del buf[a:b]` on a concrete bytearray/list, `int.from_bytes(...)` on concrete arguments).  Lives here because a
    rule may not edit the engine; see the report."""

    def s_Delete(self, st, env):
        for t in st.targets:
            done = False
            if isinstance(t, ast.Subscript):
                base = self.eval(t.value, env)
                sl = t.slice
                if isinstance(sl, ast.Slice):
                    parts = [None if p is None else pval(self.eval(p, env)) for p in (sl.lower, sl.upper, sl.step)]
                    idx = slice(*parts) if all(p is None or (isinstance(p, int) and not isinstance(p, bool)) for p in parts) else None
                else:
                    idx = pval(self.eval(sl, env))
                if isinstance(base, (list, bytearray)) and isinstance(idx, (int, slice)):
                    del base[idx]
                    done = True
            if not done:
                self.opaque(st, 'del statement not understood')

    def eval(self, node, env):
        if isinstance(node, ast.Call) and isinstance(node.func, ast.Attribute) and node.func.attr == 'from_bytes' and \
                isinstance(node.func.value, ast.Name) and node.func.value.id == 'int':
            def conc(v):
                return v if isinstance(v, (bytes, bytearray)) else pval(v)
            args = [conc(self.eval(a, env)) for a in node.args]
            kw = {k.arg: conc(self.eval(k.value, env)) for k in node.keywords}
            if all(a is not NOVAL for a in args) and all(v is not NOVAL for v in kw.values()) and None not in kw:
                try:
                    return int.from_bytes(*args, **kw)
                except (TypeError, ValueError):
                    pass
            return Unknown('int.from_bytes')
        return super().eval(node, env)


def _extract(ctx, clsname, kwargs):
    """extract() of the engine, with the interpreter above."""
    index = ctx.index
    cls = index.find_class(clsname, MOD)
    ip = _Interp(index)
    _interp._install(ip)
    ir = ModuleIR(cls.name, cls.mod.relpath)
    ip.ir = ir
    ip.curfile = cls.mod.relpath
    so = Obj(cls, leaf='self')
    so.named = True
    so.is_record = _hdl.is_record_class(ip, cls)
    ir.self_obj = so
    init = index.find_method(cls, '__init__')
    ctx.need(init is not None, '%s.__init__' % clsname)
    ip.call_func(FuncRef(init[1], init[0].mod, closure=None, self_obj=so, cls=init[0], name='__init__'), [], dict(kwargs), None)
    _interp.mark_collections(ip, cls, so)
    el = index.find_method(cls, 'elaborate')
    ctx.need(el is not None, '%s.elaborate' % clsname)
    ip.callstack = []
    fr = FuncRef(el[1], el[0].mod, closure=None, self_obj=so, cls=el[0], name='elaborate')
    ir.result = ip.call_func(fr, [None] if len(el[1].args.args) > 1 else [], {}, None)
    for si in ip._siglist:
        ir.signals.setdefault(si.name, si)
    for si in ip.interned.values():
        ir.signals.setdefault(si.name, si)
    ir.interp = ip
    ctx.files.add(cls.mod.relpath)
    ctx.classes.add(cls.name)
    ctx.fsm_states += sum(len(f.states) for f in ir.fsms)
    ctx.fsm_edges += sum(len(f.edges) for f in ir.fsms)
    ctx.assign_sites += len(ir.assigns)
    ctx.helpers += ir.helpers_inlined
    if ir.opaque:
        src, loc, why = ir.opaque[0]
        raise AnalysisError('construct not understood inside %s (%s): %s -- %s' % (clsname, loc, why, src))
    return ir


def _bits_for(v):
    return max(int(v).bit_length(), 0)


def _clog2(n):
    return 0 if n <= 1 else (n - 1).bit_length()



# --------------------------------------------------------------------------------------------- compiled one-cycle evaluator
class _Fast:
    """The same one-cycle semantics as num.Stepper (same fixpoint, last assignment wins, truncation at the store), with
    the expressions turned into Python source once per configuration instead of being walked for every evaluation.  Only
    plain-signal targets are handled (otherwise .ok is False and the Stepper is used); _Design.step cross-checks the two
    on the first evaluations of every configuration."""

    def __init__(self, st):
        self.ok = False
        self.consts = []
        items = st.comb + st.sync
        if not all(isinstance(a.lhs, E) and a.lhs.op == 'sig' for a in items):
            return
        if any(l.kind == 'cfg' for a in items for l in a.guard) or \
                any(l.kind == 'cfg' for f in st.fsms.values() for e in f.edges for l in e.guard):
            return
        for a in items:
            if st.widths.get(a.lhs.args[0].name) is None:
                return
        self.comb_sigs = list(st.comb_sigs)
        self.regs = list(st.regs)
        src = ['def comb_pass(v, ev, K):']
        for i, n in enumerate(self.comb_sigs):
            src.append('    c%d = 0' % i)
        for a in st.comb:
            i = self.comb_sigs.index(a.lhs.args[0].name)
            src.append('    if %s: c%d = (%s) & %d' % (self._cond(a), i, self._g(a.rhs), (1 << st.widths[a.lhs.args[0].name]) - 1))
        src.append('    return (%s)' % ''.join('c%d, ' % i for i in range(len(self.comb_sigs))))
        src.append('def sync_pass(v, ev, K):')
        for i, n in enumerate(self.regs):
            src.append('    r%d = v[%r]' % (i, n))
        for a in st.sync:
            i = self.regs.index(a.lhs.args[0].name)
            src.append('    if %s: r%d = (%s) & %d' % (self._cond(a), i, self._g(a.rhs), (1 << st.widths[a.lhs.args[0].name]) - 1))
        self.fkeys = []
        for fid, f in sorted(st.fsms.items(), key=lambda kv: str(kv[0])):
            key = '$fsm%s' % (fid,)
            j = len(self.fkeys)
            self.fkeys.append(key)
            src.append('    f%d = v[%r]' % (j, key))
            for e in sorted(f.edges, key=lambda e: e.order):
                if not isinstance(e.dst, str):
                    return
                src.append('    if %s: f%d = %r' % (self._cond(e), j, e.dst))
        src.append('    return (%s), (%s)' % (''.join('r%d, ' % i for i in range(len(self.regs))),
                                              ''.join('f%d, ' % j for j in range(len(self.fkeys)))))
        ns = {}
        exec(compile('\n'.join(src), '<C27 compiled one-cycle semantics>', 'exec'), ns)      # source built above from the IR only
        self.comb_pass, self.sync_pass = ns['comb_pass'], ns['sync_pass']
        self.ok = True

    def _cond(self, item):
        parts = []
        st_ = getattr(item, 'state', None)
        if st_ is not None:
            parts.append('v[%r] == %r' % ('$fsm%s' % (st_[0],), st_[1]))
        for l in item.guard:
            parts.append(('(%s)' if l.pos else 'not (%s)') % self._g(l.e))
        return ' and '.join(parts) or 'True'

    def _fallback(self, e):
        self.consts.append(e)
        return 'ev(K[%d], v)' % (len(self.consts) - 1)

    def _g(self, e):
        g = self._g
        if not isinstance(e, E):
            return repr(int(e)) if isinstance(e, (int, bool)) else self._fallback(e)
        op = e.op
        if op == 'const':
            return repr(int(e.val)) if isinstance(e.val, int) else self._fallback(e)
        if op == 'sig':
            return 'v[%r]' % e.args[0].name
        if op == 'ongoing':
            return '(1 if v[%r] == %r else 0)' % ('$fsm%s' % (e.args[0],), e.args[1])
        if op == 'slice' and isinstance(e.args[1], int) and isinstance(e.args[2], int):
            return '((%s >> %d) & %d)' % (g(e.args[0]), e.args[1], (1 << (e.args[2] - e.args[1])) - 1)
        if op == 'cat' and all(_num.width_of(a) is not None for a in e.args):
            parts, sh = [], 0
            for a in e.args:
                w = _num.width_of(a)
                parts.append('((%s & %d) << %d)' % (g(a), (1 << w) - 1, sh))
                sh += w
            return '(%s)' % ' | '.join(parts or ['0'])
        if op == '~' and _num.width_of(e.args[0]) is not None:
            return '(~%s & %d)' % (g(e.args[0]), (1 << _num.width_of(e.args[0])) - 1)
        if op == 'arr' and len(e.args) >= 2:
            return '(%s)[min(%s, %d)]' % (''.join(g(a) + ', ' for a in e.args[1:]), g(e.args[0]), len(e.args) - 2)
        if op == 'mux' and len(e.args) == 3:
            return '(%s if %s else %s)' % (g(e.args[1]), g(e.args[0]), g(e.args[2]))
        if op == 'call':
            if e.args and e.args[0] == 'matches' and len(e.args) >= 2:
                pats = [p.val if isinstance(p, E) and p.op == 'const' else p for p in e.args[2:]]
                if all(isinstance(p, int) for p in pats):
                    return '(1 if %s in (%s) else 0)' % (g(e.args[1]), ''.join('%d, ' % p for p in pats))
            if e.args and e.args[0] in ('any', 'bool') and len(e.args) == 2:
                return '(1 if %s != 0 else 0)' % g(e.args[1])
            return self._fallback(e)
        if op == '+' and e.args:
            return '(%s)' % ' + '.join(g(a) for a in e.args)
        if op in ('&', '|', '^') and e.args:
            return '(%s)' % (' %s ' % op).join(g(a) for a in e.args)
        if len(e.args) == 2 and op in ('-', '<<', '>>', '*'):
            return '(%s %s %s)' % (g(e.args[0]), op, g(e.args[1]))
        if len(e.args) == 2 and op in ('==', '!=', '<', '<=', '>', '>='):
            return '(1 if %s %s %s else 0)' % (g(e.args[0]), op, g(e.args[1]))
        return self._fallback(e)

    def step(self, env):
        v = dict(env)
        cs = self.comb_sigs
        for n in cs:
            v.setdefault(n, 0)
        ev, K = _num.ev, self.consts
        for _ in range(len(cs) + 2):
            new = self.comb_pass(v, ev, K)
            same = True
            for n, x in zip(cs, new):
                if v[n] != x:
                    same = False
                    v[n] = x
            if same:
                break
        else:
            raise NoEval('combinational assignments do not settle')
        regs, fs = self.sync_pass(v, ev, K)
        nxt = dict(zip(self.regs, regs))
        nxt.update(zip(self.fkeys, fs))
        return v, nxt


# --------------------------------------------------------------------------------------------- design wrapper
class _Design:
    """One-cycle semantics of an extracted generator: Stepper + the ROM read port (if any)."""

    def __init__(self, ctx, ir, what, domain=None):
        self.ir = ir
        try:
            self.st = st = Stepper(ir)
        except NoEval as ex:
            raise AnalysisError('%s: %s' % (what, ex))
        fsm = ctx.the_fsm(ir)
        self.fsm = fsm
        self.fkey = '$fsm%s' % (fsm.id,)
        for s in (VALID, FIRST, LAST, PAYLOAD, DONE):
            ctx.need(s in st.comb_sigs, 'a combinational driver of %s in %s' % (s, what))
        for s in (START, SP, READY):
            ctx.need(s in ir.signals and s not in st.comb_sigs and s not in st.regs, 'the input %s of %s' % (s, what))
        doms = {a.domain for a in st.sync} | {fsm.domain}
        if domain and domain != 'sync' and doms == {'sync', domain}:
            # the FSM is created in the requested domain, the registers in sync; elaborate() must then rename sync (the
            # engine keeps the names as written and does not apply the DomainRenamer)
            el = ctx.index.find_method(ctx.index.find_class(ir.clsname, MOD), 'elaborate')
            ren = [n for n in ast.walk(el[1]) if isinstance(n, ast.Call) and isinstance(n.func, ast.Call) and
                   isinstance(n.func.func, ast.Name) and n.func.func.id == 'DomainRenamer' and n.func.args and
                   isinstance(n.func.args[0], ast.Dict) and any(isinstance(k, ast.Constant) and k.value == 'sync'
                                                                for k in n.func.args[0].keys)]
            ctx.need(ren, 'elaborate() of %s renames sync to the requested domain (registers are in sync, the FSM in %s)' % (what, domain))
            doms = {domain}
        ctx.need(len(doms) == 1, 'a single clock domain in %s (found %s)' % (what, sorted(map(str, doms))))
        self.ml_is_input = ML in ir.signals and ir.signals[ML].w is not None
        ctx.need(not self.ml_is_input or (ML not in st.comb_sigs and ML not in st.regs), 'max_length is an input of %s' % what)
        # ---- the ROM
        self.rom = None
        self.rd = self.ra = self.ren = None
        self.rom_sync = True
        if ir.memories:
            ctx.need(len(ir.memories) == 1, 'exactly one memory in %s' % what)
            mem = ir.memories[0]
            ports = list(getattr(mem, 'ports', ()))
            ctx.need(len(ports) == 1 and ports[0].port_kind == 'read_port', 'exactly one port, a read port, on the ROM of %s' % what)
            p = ports[0]
            self.rd, self.ra, self.ren = p.path + '.data', p.path + '.addr', p.path + '.en'
            dom = pval(p.kwargs.get('domain', 'sync')) if p.kwargs.get('domain', 'sync') is not None else 'sync'
            ctx.need(isinstance(dom, str), 'the domain of the ROM read port of %s' % what)
            self.rom_sync = dom != 'comb'
            init = mem.init_data
            ctx.need(isinstance(init, (list, tuple, bytes, bytearray)) and all(isinstance(v, int) for v in init),
                     'a concrete ROM image in %s (got %r)' % (what, init if not isinstance(init, list) else init[:4]))
            depth = pval(mem.depth)
            ctx.need(isinstance(depth, int) and depth >= 1 and isinstance(mem.mem_width, int), 'depth and width of the ROM of %s' % what)
            self.rom = [int(v) & ((1 << mem.mem_width) - 1) for v in init][:depth] + [0] * max(0, depth - len(init))
            self.rom_depth, self.rom_width, self.rom_loc = depth, mem.mem_width, mem.loc
            self.rom_init_len = len(init)
            st.widths[self.ra] = _clog2(depth)
            st.widths[self.rd] = mem.mem_width
            ctx.need(self.ra in st.comb_sigs, 'a combinational driver of the ROM address in %s' % what)
            ctx.need(self.rd not in st.comb_sigs and self.rd not in st.regs, 'the ROM data output is not driven by %s' % what)
        # ---- everything read must be a register, a comb signal, or a known input
        reads = set()
        for item in list(ir.assigns) + list(fsm.edges):
            if isinstance(getattr(item, 'rhs', None), E):
                reads |= item.rhs.sigs()
            for l in item.guard:
                if isinstance(l.e, E):
                    reads |= l.e.sigs()
        free = reads - set(st.regs) - set(st.comb_sigs)
        self.data_inputs = sorted(s for s in free if s.startswith('self.data['))
        allowed = {START, SP, READY, ML} | set(self.data_inputs) | ({self.rd} if self.rom is not None else set())
        if self.ren is not None and self.ren not in st.comb_sigs and self.ren not in st.regs:
            allowed.add(self.ren)
        ctx.need(free <= allowed, '%s depends only on start, start_position, max_length, ready%s (also reads %s)' % (
            what, ', data[]' if self.data_inputs else '', sorted(free - allowed)))
        for r in st.regs:
            si = ir.signals.get(r)
            src = str(getattr(si, 'shape_src', '') or '')
            if st.widths.get(r) is None and src.startswith('like(') and src[5:-1].isdigit():
                st.widths[r] = max(_bits_for(int(src[5:-1])), 1)       # Signal.like(<python int>): the width of that constant
            ctx.need(isinstance(st.widths.get(r), int), 'declared width of register %s in %s' % (r, what))
        self.fast = _Fast(st)
        self.nsteps = 0
        self.keys = list(st.regs) + [self.fkey] + ([self.rd] if self.rom is not None and self.rom_sync else [])
        self.tokens = {}

    def reset(self):
        v = {r: self.st.inits.get(r, 0) for r in self.st.regs}
        v[self.fkey] = self.fsm.init
        if self.rom is not None and self.rom_sync:
            v[self.rd] = 0
        return tuple(v[k] for k in self.keys)

    def _rom(self, addr):
        return self.rom[addr] if 0 <= addr < len(self.rom) else 0

    def step(self, state, inp):
        env = dict(zip(self.keys, state))
        env.update(inp)
        env.update(self.tokens)
        if self.ren is not None and self.ren not in env:
            env[self.ren] = 1                      # amaranth.lib.memory: a synchronous read port is enabled unless driven
        try:
            if self.rom is not None and not self.rom_sync:
                env[self.rd] = 0
                for _ in range(6):
                    cur, nxt = self._one(env)
                    want = self._rom(cur[self.ra])
                    if want == env[self.rd]:
                        break
                    env[self.rd] = want
                else:
                    raise NoEval('combinational ROM read does not settle')
            else:
                cur, nxt = self._one(env)
        except NoEval as ex:
            raise AnalysisError('%s: expression not understood: %s' % (self.ir.clsname, ex))
        except KeyError as ex:
            raise AnalysisError('%s: a signal without a value in the model is read: %s' % (self.ir.clsname, ex))
        if self.rom is not None and self.rom_sync:
            nxt[self.rd] = self._rom(cur[self.ra]) if cur.get(self.ren, 1) else env[self.rd]
        return cur, tuple(nxt[k] for k in self.keys)

    def _one(self, env):
        if not self.fast.ok:
            return self.st.step(env)
        cur, nxt = self.fast.step(env)
        self.nsteps += 1
        if self.nsteps <= CROSS_CHECK or self.nsteps % 997 == 0:      # the compiled form must agree with the engine's evaluator
            cur2, nxt2 = self.st.step(env)
            if any(cur[k] != x for k, x in cur2.items()) or any(nxt[k] != x for k, x in nxt2.items()):
                raise AnalysisError('%s: compiled one-cycle evaluator disagrees with num.Stepper under %s' % (self.ir.clsname, env))
        return cur, nxt

    def show(self, state):
        d = dict(zip(self.keys, state))
        return '%s %s' % (d[self.fkey], ','.join('%s=%s' % (k.split('.')[-1], d[k]) for k in self.keys if k != self.fkey))


# --------------------------------------------------------------------------------------------- the reference
class _Cfg:
    """What the reference needs to know about one configuration."""

    def __init__(self, tag, data, bpw, endian, sp_values, ml_values, vw):
        self.tag, self.data, self.bpw, self.endian = tag, data, bpw, endian
        self.L = len(data)
        self.n = -(-self.L // bpw)                      # stream elements (words)
        self.sp_values, self.ml_values, self.vw = sp_values, ml_values, vw

    def lane_of(self, byte):
        """Lane of its word that holds data byte `byte`: read off the extracted ROM image (set_layout); where the image does
        not hold the byte at all, the lane int.from_bytes(chunk, endianness) would put it in (the payload check then fails)."""
        if byte in self.layout:
            return self.layout[byte]
        k, i = divmod(byte, self.bpw)
        if self.endian == 'little':
            return i
        return min(self.bpw, self.L - k * self.bpw) - 1 - i

    layout = {}

    def set_layout(self, rom):
        """Locate every data byte in its ROM word by value (the pattern bytes are distinct).  Returns the list of complaints:
        bytes that are missing, or bytes of one word not in consecutive lanes in the configured byte order.  How a partial
        final word is aligned inside its ROM word is left to the design -- the valid bits have to agree with it."""
        self.layout, bad = {}, []
        for b in range(self.L):
            k = b // self.bpw
            word = rom[k] if k < len(rom) else 0
            at = [ln for ln in range(self.bpw) if (word >> (8 * ln)) & 0xFF == self.data[b]]
            if len(at) == 1:
                self.layout[b] = at[0]
            else:
                bad.append('data[%d]=%#x is %s in ROM word %d (%#x)' % (b, self.data[b], 'missing' if not at else 'ambiguous', k, word))
        step = 1 if self.endian == 'little' else -1
        for b in range(1, self.L):
            if b % self.bpw and b in self.layout and b - 1 in self.layout and self.layout[b] != self.layout[b - 1] + step:
                bad.append('data[%d] and data[%d] sit in lanes %d and %d of ROM word %d, not in %s-endian order' % (
                    b - 1, b, self.layout[b - 1], self.layout[b], b // self.bpw, self.endian))
        return bad

    def total(self, s, ml):
        return max(0, min(ml, self.L - s * self.bpw))

    def word(self, s, ml, j):
        """(bytes due in word j of the transfer, is it the final word)."""
        t = self.total(s, ml)
        b0 = (s + j) * self.bpw
        nb = min(self.bpw, t - j * self.bpw)
        return list(range(b0, b0 + nb)), (j + 1) * self.bpw >= t


def _explore(d, cfg):
    """Product of the design with the reference monitor.  Monitor state: (phase, s, ml, j, cnt);
    phases I idle, A active (j words accepted), D awaiting done, G nothing may be emitted (a start with max_length 0)."""
    viol, lanes_bad = {}, {}          # lanes_bad: first complaint per kind ('cut' by max_length / 'whole' word or end of data)
    stats = {'states': 0, 'cycles': 0, 'words': 0}
    completed = set()
    start = (d.reset(), ('I', 0, 0, 0, 0))
    parent = {start: None}
    work = [start]
    idle_inputs = [(st_, s, ml, r) for st_ in (0, 1) for s in cfg.sp_values for ml in cfg.ml_values for r in (0, 1)]
    ml_input = d.ml_is_input

    def inputs(s, ml, st_, r):
        inp = {START: st_, SP: s, READY: r}
        if ml_input:
            inp[ML] = ml
        return inp

    def path(node, last_inp):
        steps = []
        t = node
        while parent[t] is not None:
            t, i = parent[t]
            steps.append((t, i))
        steps.reverse()
        steps.append((node, last_inp))
        out = []
        for (dstate, mon), (st_, s, ml, r) in steps[-9:]:
            cur, _ = d.step(dstate, inputs(s, ml, st_, r))
            out.append('[%s | start=%d pos=%d max=%d ready=%d -> valid=%s first=%d last=%d payload=%#x done=%d]' % (
                d.show(dstate), st_, s, ml, r, bin(cur[VALID]), cur[FIRST], cur[LAST], cur[PAYLOAD], cur[DONE]))
        return ('... ' if len(steps) > 9 else 'from reset: ') + ' '.join(out)

    def report(cat, node, inp, text):
        soft = cat in SOFT
        if cat == 'slice-data':
            cat = 'slice'
        if cat not in viol:
            viol[cat] = '%s; %s' % (text, path(node, inp))
        return soft

    while work:
        node = work.pop(0)
        dstate, mon = node
        phase, ms, mml, j, cnt = mon
        stats['states'] += 1
        if stats['states'] > MAX_STATES:
            raise AnalysisError('product state space of %s larger than %d states' % (cfg.tag, MAX_STATES))
        ins = idle_inputs if phase == 'I' else [(0, ms, mml, 0), (0, ms, mml, 1)]
        for inp in ins:
            st_, s, ml, r = inp
            cur, ndstate = d.step(dstate, inputs(s, ml, st_, r))
            stats['cycles'] += 1
            valid, done = cur[VALID], cur[DONE]
            acc = bool(valid) and bool(r)
            ph, tj, tcnt = phase, j, cnt
            started_now = False
            if ph == 'I' and st_:
                if ml == 0:
                    ph, tcnt = 'G', 0
                else:
                    ph, tj, tcnt = 'A', 0, 0
                started_now = True
            elif ph != 'I':
                s, ml = ms, mml
            stop = False
            nmon = None
            if ph == 'I':
                if acc:
                    stop |= not report('quiet', node, inp, 'a word is handed over although no transfer was started')
                if done:
                    stop |= not report('quiet', node, inp, 'done is raised although no transfer has finished')
                nmon = ('I', 0, 0, 0, 0)
            elif ph == 'G':
                if acc:
                    stop |= not report('zero-length', node, inp, 'a word (valid=%s payload=%#x first=%d last=%d) is handed over although '
                                       'max_length is 0' % (bin(valid), cur[PAYLOAD], cur[FIRST], cur[LAST]))
                tcnt = tcnt + (0 if started_now else 1)
                nmon = ('G', s, ml, 0, tcnt) if tcnt < GRACE else ('I', 0, 0, 0, 0)
            elif ph == 'A':
                if done:
                    stop |= not report('done', node, inp, 'done is raised before the final word of the transfer (start %d, max_length '
                                       '%d) has been accepted' % (s, ml))
                if acc:
                    due, final = cfg.word(s, ml, tj)
                    lanes = {cfg.lane_of(b): b for b in due}
                    pay = cur[PAYLOAD]
                    bad = [(ln, b) for ln, b in sorted(lanes.items()) if (pay >> (8 * ln)) & 0xFF != cfg.data[b]]
                    if bad:
                        report('slice-data', node, inp, 'word %d of the transfer (start %d, max_length %d) must carry data bytes %s in lanes '
                               '%s, payload is %#x (lane %d holds %#x, data[%d] is %#x)' % (
                                   tj, s, ml, due, sorted(lanes), pay, bad[0][0], (pay >> (8 * bad[0][0])) & 0xFF, bad[0][1],
                                   cfg.data[bad[0][1]]))
                    want_mask = 1 if cfg.vw == 1 else sum(1 << ln for ln in lanes)
                    want_bits = 1 if cfg.vw == 1 else len(due)
                    if bin(valid).count('1') != want_bits:
                        report('valid-mask', node, inp, 'word %d of the transfer (start %d, max_length %d) carries %d byte(s) %s: '
                               'that many valid bits must be set, valid is %s' % (tj, s, ml, len(due), due, bin(valid)))
                    elif valid != want_mask and ('cut' if len(due) < min(cfg.bpw, cfg.L - (s + tj) * cfg.bpw) else 'whole') not in lanes_bad:
                        lanes_bad['cut' if len(due) < min(cfg.bpw, cfg.L - (s + tj) * cfg.bpw) else 'whole'] = ('word %d of the transfer (start %d, max_length %d) carries the byte(s) %s, which sit in lane(s) %s '
                                         'of the %s-endian word %#x: valid must be %s, is %s (it marks data byte(s) %s instead); %s' % (
                                             tj, s, ml, due, sorted(lanes), cfg.endian, pay, bin(want_mask), bin(valid),
                                             [b for b in range((s + tj) * cfg.bpw, min(cfg.L, (s + tj + 1) * cfg.bpw))
                                              if (valid >> cfg.lane_of(b)) & 1], path(node, inp)))
                    if bool(cur[FIRST]) != (tj == 0):
                        report('first', node, inp, 'word %d of the transfer (start %d, max_length %d) has first=%d' % (tj, s, ml, cur[FIRST]))
                    if bool(cur[LAST]) != final:
                        report('last', node, inp, 'word %d of the transfer (start %d, max_length %d; %d bytes are due in all) has '
                               'last=%d, expected %d' % (tj, s, ml, cfg.total(s, ml), cur[LAST], int(final)))
                    stats['words'] += 1
                    nmon = ('D', s, ml, 0, 0) if final else ('A', s, ml, tj + 1, 0)
                else:
                    if r and not started_now:
                        tcnt += 1
                    if tcnt > STALL:
                        stop |= not report('progress', node, inp, 'ready has been high for %d cycles of the transfer (start %d, max_length '
                                           '%d) and word %d is still not handed over' % (tcnt, s, ml, tj))
                    nmon = ('A', s, ml, tj, tcnt)
            elif ph == 'D':
                if acc:
                    stop |= not report('slice', node, inp, 'another word (payload %#x, first=%d last=%d) is handed over after the final '
                                       'word of the transfer (start %d, max_length %d, %d bytes due)' % (
                                           cur[PAYLOAD], cur[FIRST], cur[LAST], s, ml, cfg.total(s, ml)))
                if done:
                    completed.add((s, ml))
                    nmon = ('I', 0, 0, 0, 0)
                else:
                    tcnt += 1
                    if tcnt > STALL:
                        stop |= not report('done', node, inp, 'no done pulse within %d cycles after the final word of the transfer '
                                           '(start %d, max_length %d)' % (STALL, s, ml))
                    nmon = ('D', s, ml, 0, tcnt)
            if stop:
                continue
            nn = (ndstate, nmon)
            if nn not in parent:
                parent[nn] = (node, inp)
                work.append(nn)
    return viol, lanes_bad, completed, stats


# --------------------------------------------------------------------------------------------- per-configuration checks
def _drv_loc(ir, sig):
    ds = ir.drivers(sig, exact=True)
    return ds[0].loc if ds else None


def _ml_values(width, L, bpw):
    full = 1 << width
    if full <= L + bpw + 8:
        return list(range(full)), 'all %d values' % full
    vals = list(range(0, L + 6)) + [full >> 1, full - 1]
    return vals, '0..%d, %d and %d' % (L + 5, full >> 1, full - 1)


def _run_config(ctx, cls, d, cfg, ml_note, lane_acc, family):
    ir = d.ir
    viol, lanes_bad, completed, stats = _explore(d, cfg)
    cov = '%d product states, %d cycles, %d word hand-overs checked; start_position %s, max_length %s' % (
        stats['states'], stats['cycles'], stats['words'],
        '0..%d (every position within the data)' % max(cfg.sp_values), ml_note)
    for cat, role, text in CLAUSES:
        sig = {'stream.payload': PAYLOAD, 'stream.first': FIRST, 'stream.last': LAST, 'stream.valid': VALID, 'done': DONE}.get(role, VALID)
        msg = viol.get(cat)
        ctx.ob('C27.' + cat, '%s.%s[%s]' % (cls, role, cfg.tag), msg is None, _drv_loc(ir, sig),
               '%s: %s' % (text, msg) if msg else '%s (%s)' % (text, cov))
    pairs = {(s, ml) for s in cfg.sp_values for ml in cfg.ml_values if ml > 0}
    missing = sorted(pairs - completed)
    ctx.ob('C27.completes', '%s.transfer[%s]' % (cls, cfg.tag), not missing, d.fsm.loc,
           'every one of the %d (start, max_length) transfers runs to its done pulse in the exploration' % len(pairs) if not missing else
           'no explored path completes the transfer(s) (start, max_length) = %s%s: the other clauses would hold vacuously for them'
           % (missing[:6], ' ...' if len(missing) > 6 else ''))
    if cfg.vw > 1:
        fam = lane_acc.setdefault(family, {'loc': _drv_loc(ir, VALID), 'lanes': [], 'lanes-whole': [], 'lane-configs': []})
        fam['lane-configs'].append(cfg.tag)
        if 'cut' in lanes_bad:
            fam['lanes'].append('[%s] %s' % (cfg.tag, lanes_bad['cut']))
        if 'whole' in lanes_bad:
            fam['lanes-whole'].append('[%s] %s' % (cfg.tag, lanes_bad['whole']))
    ctx.note('%s[%s]: %s' % (cls, cfg.tag, cov))
    return stats


def _structural(ctx, cls, d, cfg):
    """(A) facts every configuration needs."""
    ir = d.ir
    spw = ir.signals[SP].w
    need = _bits_for(cfg.n - 1)
    ctx.ob('C27.start-position-width', '%s.start_position[%s]' % (cls, cfg.tag), isinstance(spw, int) and spw >= need, ir.signals[SP].loc,
           'start_position is %s bits wide; %d are needed to name every one of the %d elements' % (spw, need, cfg.n))
    # the position register(s): clocked registers that feed the ROM address / the array index
    if d.rom is not None:
        feeds = set()
        for a in ir.drivers(d.ra, exact=True):
            feeds |= a.rhs.sigs() if isinstance(a.rhs, E) else set()
    else:
        feeds = set()
        for a in ir.drivers(PAYLOAD, exact=True):
            for x in (a.rhs.walk() if isinstance(a.rhs, E) else ()):
                if x.op == 'arr' and isinstance(x.args[0], E):
                    feeds |= x.args[0].sigs()
    pos = sorted(s for s in feeds if s in d.st.regs)
    ctx.need(pos, 'the position register of %s[%s] (a clocked register selecting the word sent)' % (cls, cfg.tag))
    for p in pos:
        w = d.st.widths.get(p)
        ctx.ob('C27.position-width', '%s.position[%s]' % (cls, cfg.tag), isinstance(w, int) and w >= need, ir.signals[p].loc,
               'the position register %s is %s bits wide; %d are needed to reach every one of the %d elements' % (p, w, need, cfg.n))
    if d.rom is not None:
        bad = cfg.set_layout(d.rom)
        ok = d.rom_depth == cfg.n and d.rom_width == 8 * cfg.bpw and d.rom_init_len == cfg.n and not bad
        ctx.ob('C27.rom-image', '%s.rom[%s]' % (cls, cfg.tag), ok, d.rom_loc,
               'the ROM must hold the constant %s as %d word(s) of %d bits, the bytes of each word in %s-endian lane order; it is %d x '
               '%d bits (%d initialised): %s%s' % (cfg.data.hex(), cfg.n, 8 * cfg.bpw, cfg.endian, d.rom_depth, d.rom_width,
                                                   d.rom_init_len, [hex(v) for v in d.rom[:cfg.n + 2]], ('; ' + '; '.join(bad[:3])) if bad else ''))
    else:
        # serializer: the payload is pure routing of the data array (justifies distinct tokens as symbolic data)
        ok = bool(d.data_inputs) and len(d.data_inputs) == cfg.n
        for a in ir.drivers(PAYLOAD, exact=True):
            for x in (a.rhs.walk() if isinstance(a.rhs, E) else ()):
                if x.op not in ('arr', 'sig', 'slice', 'cat', 'const'):
                    ok = False
            if isinstance(a.rhs, E) and a.rhs.op == 'const' and a.rhs.val:
                ok = False
        ctx.ob('C27.payload-routing', '%s.stream.payload[%s]' % (cls, cfg.tag), ok, _drv_loc(ir, PAYLOAD),
               'the payload must be a selection among the %d data[] elements (no arithmetic on the data): drivers %s, data inputs %s'
               % (cfg.n, [a.rhs.canon()[:80] for a in ir.drivers(PAYLOAD, exact=True)], d.data_inputs))


def _positions(ctx, spw, n, what):
    """The start positions explored: every position WITHIN the data (element indexes 0..n-1; for the 32-bit stream these are
    word indexes).  Values the input can carry beyond that are outside the property ("start position within the data")."""
    ctx.need((1 << spw) >= n, 'a start_position input of %s that can name each of the %d elements (it is %d bits wide)' % (what, n, spw))
    return list(range(n))


def _pattern(L):
    return bytes(range(0xA1, 0xA1 + L))          # distinct non-zero bytes: a wrong or missing byte is visible by value


def _generator(ctx, L, mlw, wide, endian, lane_acc, domain=None):
    data = _pattern(L)
    kw = {'constant_data': data, 'max_length_width': mlw}
    bpw = 1
    if wide == 16:
        # a 16-bit payload on the plain stream (one valid bit for the whole word): the length limit still counts bytes
        kw['data_width'] = 16
        bpw = 2
    elif wide:
        ss = ctx.index.find_class('SuperSpeedStreamInterface', 'usb.stream')
        ctx.need(ss is not None, 'class SuperSpeedStreamInterface (the 32-bit stream the USB3 descriptor handler uses)')
        ctx.files.add(ss.mod.relpath)
        kw['stream_type'] = ClassRef(ss)
        bpw = 4
    if endian != 'little' or (wide and wide != 16):
        kw['data_endianness'] = endian
    if domain:
        kw['domain'] = domain
    tag = 'w%d,%s,L%d,mlw%d%s' % (8 * bpw, 'le' if endian == 'little' else 'be', L, mlw, (',' + domain) if domain else '')
    ir = _extract(ctx, GEN, kw)
    d = _Design(ctx, ir, '%s[%s]' % (GEN, tag), domain)
    ctx.need(d.rom is not None, 'the ROM of %s[%s]' % (GEN, tag))
    ctx.need(d.ml_is_input and ir.signals[ML].w == mlw, 'the max_length input of %s[%s] (%d bits)' % (GEN, tag, mlw))
    pw, vw = ir.signals[PAYLOAD].w, ir.signals[VALID].w
    ctx.need(pw == 8 * bpw and vw == (1 if wide == 16 else bpw), 'payload %d bits / valid %d bits in %s[%s] (found %s / %s)' % (
        8 * bpw, bpw, GEN, tag, pw, vw))
    spw = ir.signals[SP].w
    ctx.need(isinstance(spw, int) and spw <= 8, 'width of start_position in %s[%s]' % (GEN, tag))
    mls, note = _ml_values(mlw, L, bpw)
    cfg = _Cfg(tag, data, bpw, endian, _positions(ctx, spw, -(-L // bpw), '%s[%s]' % (GEN, tag)), mls, vw)
    _structural(ctx, GEN, d, cfg)
    return _run_config(ctx, GEN, d, cfg, note, lane_acc, '%s[w%d,%s%s]' % (GEN, 8 * bpw, 'le' if endian == 'little' else 'be',
                                                                          ',one-valid-bit' if wide == 16 else ''))


def _serializer(ctx, L, mlw, lane_acc, usb_stream=False):
    kw = {'data_length': L}
    if mlw:
        kw['max_length_width'] = mlw
    if usb_stream:
        us = ctx.index.find_class('USBInStreamInterface', 'usb.stream')
        ctx.need(us is not None, 'class USBInStreamInterface (the stream the standard request handler serialises onto)')
        ctx.files.add(us.mod.relpath)
        kw['stream_type'] = ClassRef(us)
        kw['domain'] = 'usb'
    tag = 'L%d,%s%s' % (L, ('mlw%d' % mlw) if mlw else 'no-max-length', ',usb-in-stream' if usb_stream else '')
    ir = ctx.ir(SER, MOD, **kw)
    d = _Design(ctx, ir, '%s[%s]' % (SER, tag), kw.get('domain'))
    ctx.need(d.rom is None, 'no memory in %s' % SER)
    data = _pattern(L)
    ctx.need(len(d.data_inputs) == L, 'the %d data[] inputs of %s[%s] (found %s)' % (L, SER, tag, d.data_inputs))
    for i in range(L):
        nm = 'self.data[%d]' % i
        ctx.need(nm in d.data_inputs and ir.signals[nm].w == 8, 'the 8-bit input %s of %s[%s]' % (nm, SER, tag))
        d.tokens[nm] = data[i]
    pw, vw = ir.signals[PAYLOAD].w, ir.signals[VALID].w
    ctx.need(pw == 8 and vw == 1, 'payload 8 bits / valid 1 bit in %s[%s]' % (SER, tag))
    spw = ir.signals[SP].w
    ctx.need(isinstance(spw, int) and spw <= 8, 'width of start_position in %s[%s]' % (SER, tag))
    if mlw:
        ctx.need(d.ml_is_input and ir.signals[ML].w == mlw, 'the max_length input of %s[%s]' % (SER, tag))
        mls, note = _ml_values(mlw, L, 1)
    else:
        ctx.need(not d.ml_is_input, 'max_length of %s[%s] is the constant data length' % (SER, tag))
        mls, note = [L], 'the constant %d' % L
    cfg = _Cfg(tag, data, 1, 'little', _positions(ctx, spw, L, '%s[%s]' % (SER, tag)), mls, vw)
    _structural(ctx, SER, d, cfg)
    return _run_config(ctx, SER, d, cfg, note, lane_acc, SER)


def _mlw_for(L):
    return max(2, _bits_for(L + 1))          # max_length ranges over 0..L+1 at least: below, at and above the data length


def run(ctx):
    thorough = ctx.tier == 'thorough'
    lane_acc = {}
    total = {'states': 0, 'cycles': 0}

    def acc(stats):
        total['states'] += stats['states']
        total['cycles'] += stats['cycles']

    # ---- ConstantStreamGenerator, byte stream
    for L in ((1, 2, 3, 4, 5, 6, 7, 8, 9) if thorough else (1, 2, 3, 4, 5)):
        acc(_generator(ctx, L, _mlw_for(L), False, 'little', lane_acc))
    acc(_generator(ctx, 3, 16, False, 'little', lane_acc, domain='usb'))
    # ---- ConstantStreamGenerator, 32-bit SuperSpeed stream (the USB3 descriptor handler's configuration: max_length_width 16)
    for L in ((1, 2, 3, 4, 5, 6, 7, 8, 9, 11, 12) if thorough else (1, 2, 3, 4, 5, 6, 7, 9)):     # 2, 6: byte count + 4 == 2**mlw
        acc(_generator(ctx, L, _mlw_for(L), True, 'little', lane_acc))
    acc(_generator(ctx, 6 if not thorough else 10, 16, True, 'little', lane_acc, domain='ss'))
    for L in ((3, 5, 7, 8, 9) if thorough else (7,)):
        acc(_generator(ctx, L, _mlw_for(L), True, 'big', lane_acc))
    # ---- a multi-byte payload on the plain stream (data_width=16, a single valid bit)
    for L in ((2, 3, 4, 5, 6) if thorough else (4, 5)):
        acc(_generator(ctx, L, _mlw_for(L), 16, 'little', lane_acc))
    # ---- StreamSerializer (in the tree: data_length 2, max_length_width 2, USB IN stream)
    acc(_serializer(ctx, 2, 2, lane_acc, usb_stream=True))
    for L in ((1, 2, 3, 4, 5, 6, 7, 8) if thorough else (1, 3, 4, 5)):
        acc(_serializer(ctx, L, _mlw_for(L), lane_acc))
    for L in ((1, 2, 3, 5) if thorough else (2, 3)):
        acc(_serializer(ctx, L, None, lane_acc))

    # ---- the valid bits mark the lanes holding the bytes due (one obligation per multi-byte stream family)
    ctx.need(lane_acc, 'a multi-byte stream configuration')
    for family, f in sorted(lane_acc.items()):
        if f['lane-configs']:
            ctx.ob('C27.valid-lanes', '%s.stream.valid' % family, not f['lanes'], f['loc'],
                   ('the valid bits must mark the lanes that hold the bytes due (configurations %s): ' % f['lane-configs'] +
                    ' || '.join(f['lanes'][:2])) if f['lanes'] else
                   'the valid bits mark exactly the lanes that hold the bytes due (configurations %s)' % f['lane-configs'])
            # the same for words NOT cut short by max_length (whole words and the final word of the data): a separate
            # instance, so that a known finding about max_length cuts does not cover them
            ctx.ob('C27.valid-lanes', '%s.stream.valid@uncut' % family, not f['lanes-whole'], f['loc'],
                   ('in a word that max_length does not cut short (a whole word, or the final word of the data) the valid bits must '
                    'mark the lanes that hold the bytes (configurations %s): ' % f['lane-configs'] + ' || '.join(f['lanes-whole'][:2]))
                   if f['lanes-whole'] else 'words not cut by max_length: valid bits mark the lanes that hold the bytes (configurations %s)'
                   % f['lane-configs'])
    ctx.note('product states explored: %d, one-cycle evaluations: %d' % (total['states'], total['cycles']))
