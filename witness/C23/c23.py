import sys
from amaranth import *
from amaranth.sim import Simulator
from amaranth.hdl.rec import Record
from luna.gateware.interface.ulpi import UTMITranslator
ulpi = Record([('data',[('i',8),('o',8),('oe',1)]),('clk',[('o',1)]),('nxt',[('i',1)]),('stp',[('o',1)]),('dir',[('i',1)])])
delay=int(sys.argv[1]) if len(sys.argv)>1 else 0
dut = UTMITranslator(ulpi=ulpi, handle_clocking=False)
sim = Simulator(dut); sim.add_clock(1/60e6, domain='usb')
async def tb(ctx):
    phase='init'; t0=None; done_tx=False; intx=0; bus=[]
    for cyc in range(1500):
        d=ctx.get(ulpi.data.o); stp=ctx.get(ulpi.stp.o)
        if stp: intx=0
        elif intx or d!=0: intx+=1
        ctx.set(ulpi.nxt.i, 1 if intx>=4 else 0)
        if phase!='init' and cyc<t0+40: bus.append('%02x'%d)
        if phase=='init' and cyc>100 and not ctx.get(dut.busy):
            phase='go'; t0=cyc
            ctx.set(dut.tx_data,0xC3); ctx.set(dut.tx_valid,1)
        if phase=='go' and cyc==t0+delay:
            ctx.set(dut.term_select,1)
        if phase=='go' and ctx.get(dut.tx_ready):
            ctx.set(dut.tx_valid,0); done_tx=True; phase='sent'
        await ctx.tick('usb')
    print('delay',delay,'tx accepted:',done_tx,'busy at end:',ctx.get(dut.busy),' '.join(bus))
sim.add_testbench(tb)
sim.run()
