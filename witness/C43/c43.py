from amaranth import *
from amaranth.sim import Simulator
from luna.gateware.usb.usb3.link.ordered_sets import TSBurstDetector, TS1_SET_DATA
dut = TSBurstDetector(set_data=TS1_SET_DATA, first_word_ctrl=0b1111, sets_in_burst=2)
sim = Simulator(dut); sim.add_clock(1e-8, domain='ss')
async def tb(ctx):
    det=0
    async def word(d,c,v=1):
        nonlocal det
        ctx.set(dut.sink.data,d); ctx.set(dut.sink.ctrl,c); ctx.set(dut.sink.valid,v)
        await ctx.tick('ss'); det+=ctx.get(dut.detected)
    async def aset():
        for i,w in enumerate(TS1_SET_DATA): await word(w, 0xf if i==0 else 0)
    await word(0,0,0); await word(0,0,0)
    await aset(); await word(0,0,0); await word(0x12345678,0); await word(0x9abcdef0,0); await aset()
    for _ in range(4): await word(0,0,0)
    print('set, gap, garbage, set -> detections:', det)
    det=0
    await word(0x1,0); await word(0,0,0)
    await aset(); await word(0,0,0); await word(0,0,0); await aset()
    for _ in range(4): await word(0,0,0)
    print('set, gap, set -> detections:', det)
    det=0
    await word(0x1,0);
    await aset(); await aset()
    for _ in range(4): await word(0,0,0)
    print('set, set -> detections:', det)
sim.add_testbench(tb); sim.run()
