#!/bin/bash
# seed_regress_scratch.sh [seed-id ...] -- like seed_regress.sh but never touches /repo: every kept seeded change is
# applied to a scratch copy of /repo/luna and the checks recorded in its meta.json as detecting it are run with --repo;
# each must exit 1 with a VIOLATION line.  Runs the seeds in parallel; scratch copies are removed.
cd /verif
ids=${@:-$(ls seeded)}
one() {
  id=$1; d=/verif/seeded/$id
  [ -f $d/meta.json ] || { echo "$id: no meta.json"; return 0; }
  det=$(/venv/bin/python -c "import json;print(' '.join(json.load(open('$d/meta.json')).get('detected_by',[])))")
  S=$(mktemp -d /tmp/sr_XXXXXX); cp -r /repo/luna $S/luna
  if ! (cd $S && patch -p1 -s -f --no-backup-if-mismatch < $d/patch.diff >/dev/null 2>&1); then echo "$id: patch no longer applies"; rm -rf $S; return 0; fi
  res=""; bad=0
  for p in $det; do
    VERIF_EVIDENCE_DIR=$S/ev /venv/bin/python vcheck $p --repo $S > $S/out.txt 2>&1; rc=$?
    k=$(grep -v '^KNOWN' $S/out.txt | grep '^  [^a]' | head -1 | awk '{print $2}')
    res="$res $p=$rc($k)"
    [ $rc -eq 1 ] || bad=1
  done
  [ -n "$det" ] || res=" (recorded as not detected)"
  [ $bad -eq 0 ] && echo "$id:$res" || echo "$id:$res   <-- MISSED"
  rm -rf $S
}
export -f one
echo $ids | tr ' ' '\n' | xargs -P 8 -I{} bash -c 'one {}' | sort
git checkout -- evidence 2>/dev/null
