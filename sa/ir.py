"""AMIR -- the module IR: HDL expression trees, guards (conjunct sets), assignments, FSM graphs.

Nothing in here looks at /repo; it is the data model the extractor (interp.py) fills in
and the rules query.
"""
from __future__ import annotations


class AnalysisError(Exception):
    """An anchor vanished / a construct in scope is not understood: exit 2, never a verdict."""


COMMUTATIVE = {'&', '|', '^', '==', '!=', '+', '*'}


class SigInfo:
    """Identity of one signal.  The name is derived from what it is bound to, never from text."""
    def __init__(self, leaf, parent=None, w=None, rng=None, init=None, loc=None, shape_src=None, kind='signal'):
        self.leaf = leaf
        self.parent = parent
        self.w = w
        self.rng = rng
        self.init = init
        self.loc = loc
        self.shape_src = shape_src
        self.kind = kind
        self.signed = False
        self.reset_less = False

    @property
    def name(self):
        if self.leaf is None:
            return self.parent.path
        if self.parent is not None:
            return self.parent.path + '.' + self.leaf
        return self.leaf

    path = name

    def __repr__(self):
        return 'Sig(%s)' % self.name


class E:
    """HDL (or symbolic Python) expression node."""
    __slots__ = ('op', 'args', 'w', 'val', 'label', '_c')

    def __init__(self, op, args=(), w=None, val=None, label=None):
        self.op = op
        self.args = tuple(args)
        self.w = w
        self.val = val          # for 'const': the int; for 'param': default value (or NOVAL)
        self.label = label
        self._c = None

    # -- canonical text -------------------------------------------------------------
    def canon(self):
        # signals can be renamed after creation; do not cache sig-bearing strings before naming
        op = self.op
        if op == 'sig':
            return self.args[0].name
        if op == 'const':
            return str(self.val)
        if op == 'param':
            return 'param:' + str(self.args[0])
        if op == 'slice':
            e, lo, hi = self.args
            return '%s[%s:%s]' % (_c(e), lo, hi)
        if op == 'cat':
            return 'Cat(' + ', '.join(_c(a) for a in self.args) + ')'
        if op == '~':
            return '~' + _wrap(self.args[0])
        if op == 'neg':
            return '-' + _wrap(self.args[0])
        if op in ('&', '|', '^', '==', '!=', '<', '<=', '>', '>=', '+', '-', '*', '<<', '>>', '//', '%'):
            parts = [_wrap(a) for a in self.args]
            if op in COMMUTATIVE:
                parts = sorted(parts)
            return (' %s ' % op).join(parts)
        if op == 'mux':
            return 'Mux(%s, %s, %s)' % tuple(_c(a) for a in self.args)
        if op == 'ongoing':
            return 'ongoing(%s:%s)' % (self.args[0], self.args[1])
        if op == 'arr':
            return 'Array[' + ', '.join(_c(a) for a in self.args[1:]) + '][%s]' % _c(self.args[0])
        if op == 'pyif':
            return '(%s if %s else %s)' % (_c(self.args[1]), _c(self.args[0]), _c(self.args[2]))
        if op == 'call':
            return '%s(%s)' % (self.args[0], ', '.join(_c(a) for a in self.args[1:]))
        if op == 'unk':
            return '?<%s>' % (self.args[0],)
        return '%s(%s)' % (op, ', '.join(_c(a) for a in self.args))

    def __repr__(self):
        return 'E<%s>' % self.canon()

    def __eq__(self, other):
        return isinstance(other, E) and self.canon() == other.canon()

    def __hash__(self):
        return hash(self.canon())

    # -- traversal --------------------------------------------------------------------
    def walk(self):
        yield self
        for a in self.args:
            if isinstance(a, E):
                yield from a.walk()

    def sigs(self):
        """Names of all signals read by this expression."""
        out = set()
        for n in self.walk():
            if n.op == 'sig':
                out.add(n.args[0].name)
        return out

    def is_const(self, v=None):
        if self.op != 'const':
            return False
        return v is None or self.val == v


def _c(a):
    if isinstance(a, E):
        return a.canon()
    return repr(a) if not isinstance(a, str) else a


def _wrap(a):
    if isinstance(a, E) and a.op in ('&', '|', '^', '==', '!=', '<', '<=', '>', '>=', '+', '-', '*', '<<', '>>',
                                      '//', '%', 'pyif'):
        return '(' + a.canon() + ')'
    return _c(a)


NOVAL = object()


class Obj:
    """An instance of a class (submodule, Record/interface, helper object)."""

    def __init__(self, cls, leaf='$anon', parent=None):
        self.cls = cls              # ClassInfo or None
        self.leaf = leaf
        self.parent = parent
        self.attrs = {}
        self.kwargs = {}
        self.is_record = False
        self.fields = None          # ordered list of field names for records
        self.loc = None
        self.domain_map = None      # DomainRenamer
        self.named = False
        self.elem_of = None

    @property
    def path(self):
        if self.parent is not None:
            return self.parent.path + '.' + self.leaf
        return self.leaf

    @property
    def clsname(self):
        return self.cls.name if self.cls is not None else None

    def __repr__(self):
        return 'Obj<%s %s>' % (self.clsname, self.path)


class Lit:
    """One conjunct of a guard: an expression with a polarity."""
    __slots__ = ('e', 'pos', 'kind')

    def __init__(self, e, pos=True, kind='cond'):
        self.e = e
        self.pos = pos
        self.kind = kind           # 'cond' | 'cfg' | 'case'

    def canon(self):
        s = self.e.canon() if isinstance(self.e, E) else str(self.e)
        if self.kind == 'cfg':
            s = 'cfg:' + s
        return s if self.pos else '!(' + s + ')'

    def neg(self):
        return Lit(self.e, not self.pos, self.kind)

    def __repr__(self):
        return self.canon()

    def __eq__(self, o):
        return isinstance(o, Lit) and self.canon() == o.canon()

    def __hash__(self):
        return hash(self.canon())


def literals(e, pos=True, kind='cond'):
    """Conjunct normal form of a condition: a list of alternatives-free literals.

    a & b  (pos)  -> lits(a) + lits(b);   ~(a | b) -> lits(~a) + lits(~b);  ~~a -> a.
    Anything else is one opaque literal.  Constants: true -> [], false -> [FALSE]."""
    if not isinstance(e, E):
        if isinstance(e, (int, bool)):
            truth = bool(e)
            if truth == pos:
                return []
            return [Lit(E('const', val=0), True)]
        return [Lit(E('unk', (repr(e),)), pos, kind)]
    if e.op == '~' and _is_bool(e.args[0]):
        return literals(e.args[0], not pos, kind)
    if e.op == '&' and pos and all(_is_bool(a) for a in e.args):
        out = []
        for a in e.args:
            out += literals(a, True, kind)
        return out
    if e.op == '&' and pos and any(_known_one_bit(a) for a in e.args) and \
            all(_known_one_bit(a) or (isinstance(a, E) and isinstance(a.w, int) and a.w > 1) for a in e.args):
        # a condition `wide & flag`: Amaranth zero-extends the (unsigned) one-bit operand, so every bit of the result
        # above bit 0 is 0 and the condition is true iff bit 0 of every wide operand and every flag is 1 -- NOT iff the
        # wide operand is non-zero.  Written out, so that rules see what the hardware tests.
        out = []
        for a in e.args:
            out += literals(a if _known_one_bit(a) else E('slice', (a, 0, 1), w=1), True, kind)
        return out
    if e.op == '|' and not pos and all(_is_bool(a) for a in e.args):
        out = []
        for a in e.args:
            out += literals(a, False, kind)
        return out
    if e.op == 'const':
        truth = bool(e.val)
        if truth == pos:
            return []
        return [Lit(E('const', val=0), True)]
    if e.op == '!=' :
        return [Lit(E('==', e.args), not pos, kind)]
    if e.op == '<' and len(e.args) == 2:
        return [Lit(E('>=', e.args, w=1), not pos, kind)]
    if e.op == 'call' and e.args[0] == 'bool' and len(e.args) == 2 and isinstance(e.args[1], E):
        return literals(e.args[1], pos, kind) if _is_bool(e.args[1]) else [Lit(e, pos, kind)]
    if kind == 'cond' and e.op in ('sig', 'slice', 'param', 'arr') and isinstance(e.w, int) and e.w > 1:
        # `with m.If(wide)` tests wide != 0: the same literal as `wide != 0`, `wide.any()` and `wide.bool()`
        return [Lit(E('==', (E('const', val=0), e), w=1), not pos, kind)]
    return [Lit(e, pos, kind)]


def _known_one_bit(e):
    """Certainly one bit wide and unsigned (comparison results, 1-bit signals / slices, and their combinations)."""
    if not isinstance(e, E):
        return False
    if e.op in ('==', '!=', '<', '<=', '>', '>=', 'ongoing'):
        return True
    if e.op in ('&', '|', '^', '~'):
        return all(_known_one_bit(a) for a in e.args)
    if e.op == 'call' and e.args[0] in ('any', 'all', 'bool', 'matches', 'xor'):
        return True
    return e.w == 1


def _is_bool(e):
    """May ~ be read as logical negation?  Only for 1-bit things (or unknown-width signals used as flags)."""
    if not isinstance(e, E):
        return True
    if e.op in ('==', '!=', '<', '<=', '>', '>=', 'ongoing'):
        return True
    if e.op in ('&', '|', '^', '~'):
        return all(_is_bool(a) for a in e.args)
    if e.op == 'call' and e.args[0] in ('any', 'all', 'bool', 'matches', 'xor'):
        return True
    if e.op in ('sig', 'slice', 'param', 'mux', 'pyif', 'arr'):
        return e.w is None or e.w == 1
    if e.op == 'const':
        return e.val in (0, 1)
    return e.w == 1


class Loc:
    __slots__ = ('chain',)

    def __init__(self, chain):
        self.chain = tuple(chain)   # ((file, line), ...) outermost call site first

    def __str__(self):
        f, l = self.chain[0]
        s = '%s:%s' % (f, l)
        if len(self.chain) > 1:
            s += ' (via ' + ' > '.join('%s:%s' % c for c in self.chain[1:]) + ')'
        return s

    @property
    def file(self):
        return self.chain[0][0]

    @property
    def line(self):
        return self.chain[0][1]

    @property
    def inner(self):
        return self.chain[-1]


class Assign:
    kind = 'assign'

    def __init__(self, domain, lhs, rhs, guard, state, order, loc):
        self.domain = domain
        self.lhs = lhs
        self.rhs = rhs
        self.guard = guard         # tuple[Lit]  (state atom is kept separately)
        self.state = state         # (fsm_id, state_name) or None ; outermost-first list for nested FSMs in .states
        self.states = ()
        self.order = order
        self.loc = loc

    def lhs_sigs(self):
        return lhs_targets(self.lhs)

    def gcanon(self):
        return tuple(sorted(l.canon() for l in self.guard))

    def __repr__(self):
        st = ('@%s ' % self.state[1]) if self.state else ''
        return '%s%s.%s <= %s  if %s  [%s]' % (st, self.domain, _c(self.lhs), _c(self.rhs),
                                                ' & '.join(l.canon() for l in self.guard) or '1', self.loc)


class Edge:
    kind = 'edge'

    def __init__(self, fsm, src, dst, guard, order, loc):
        self.fsm = fsm
        self.src = src
        self.dst = dst             # str, or E when not foldable
        self.guard = guard
        self.order = order
        self.loc = loc
        self.state = (fsm, src)
        self.states = ()

    def gcanon(self):
        return tuple(sorted(l.canon() for l in self.guard))

    def __repr__(self):
        return '%s: %s -> %s  if %s  [%s]' % (self.fsm, self.src, self.dst,
                                              ' & '.join(l.canon() for l in self.guard) or '1', self.loc)


class FSMInfo:
    def __init__(self, fid, domain, loc, init=None, name=None):
        self.id = fid
        self.domain = domain
        self.loc = loc
        self.init_decl = init
        self.name = name
        self.states = []           # declaration order
        self.state_loc = {}
        self.edges = []
        self.outer_state = None    # for nested FSMs
        self.outer_guard = ()

    @property
    def init(self):
        if self.init_decl is not None:
            return self.init_decl
        return self.states[0] if self.states else None

    def out_edges(self, s):
        return [e for e in self.edges if e.src == s]

    def in_edges(self, s):
        return [e for e in self.edges if e.dst == s]


class Submodule:
    def __init__(self, name, obj, loc, domain_map=None):
        self.name = name
        self.obj = obj
        self.loc = loc
        self.domain_map = domain_map


class ModuleIR:
    """Everything extracted from one class's elaborate() (under one constructor configuration)."""

    def __init__(self, clsname, file):
        self.clsname = clsname
        self.file = file
        self.assigns = []
        self.fsms = []
        self.submodules = []
        self.signals = {}          # name -> SigInfo
        self.opaque = []           # (src, Loc, why)
        self.self_obj = None
        self.helpers_inlined = 0
        self.cfg_forks = []
        self.memories = []
        self.env = None
        self.inlined_locals = []   # (name, definition, location) of combinational locals that were read through

    # ---- queries ---------------------------------------------------------------------
    def fsm_with_state(self, state):
        for f in self.fsms:
            if state in f.states:
                return f
        return None

    def drivers(self, name, exact=False):
        """All assignments that can write (part of) the signal `name` (a path such as
        'self.interface.new_token').  A record-level assignment to a parent counts."""
        out = []
        for a in self.assigns:
            for t in a.lhs_sigs():
                if t == name or (not exact and (name.startswith(t + '.') or t.startswith(name + '.'))):
                    out.append(a)
                    break
        return out

    def readers(self, name):
        out = []
        for a in self.assigns:
            if isinstance(a.rhs, E) and _reads(a.rhs, name):
                out.append(a)
                continue
            if any(isinstance(l.e, E) and _reads(l.e, name) for l in a.guard):
                out.append(a)
        return out

    def sig(self, name):
        return self.signals.get(name)


def _reads(e, name):
    for s in e.sigs():
        if s == name or s.startswith(name + '.') :
            return True
    return False


def lhs_targets(lhs):
    """Signal names written by an assignment target (through slices and Cat)."""
    if not isinstance(lhs, E):
        return []
    if lhs.op == 'sig':
        return [lhs.args[0].name]
    if lhs.op in ('slice',):
        return lhs_targets(lhs.args[0])
    if lhs.op == 'cat':
        out = []
        for a in lhs.args:
            out += lhs_targets(a)
        return out
    if lhs.op == 'arr':
        out = []
        for a in lhs.args[1:]:
            out += lhs_targets(a)
        return out
    if lhs.op == 'call' and lhs.args[0] in ('bit_select', 'word_select', 'as_unsigned', 'as_signed'):
        return lhs_targets(lhs.args[1])
    if lhs.op == 'pyif':
        return lhs_targets(lhs.args[1]) + lhs_targets(lhs.args[2])
    return []
