#!/venv/bin/python
"""seed_meta.py <seed-id> <property> <detected-by (comma list or 'none')> [note]  -- write /verif/seeded/<id>/meta.json"""
import json, os, sys
sid, prop, det = sys.argv[1:4]
note = sys.argv[4] if len(sys.argv) > 4 else ''
d = '/verif/seeded/' + sid
ag = json.load(open(d + '/meta.agent.json')) if os.path.exists(d + '/meta.agent.json') else {}
meta = {
    'id': sid,
    'property': prop,
    'summary': ag.get('summary', ''),
    'needs_to_manifest': ag.get('needs_to_manifest', ''),
    'files_changed': ag.get('files_changed', []),
    'origin': 'written by an independent sub-agent that saw only the property text and a scratch worktree of /repo (nothing from /verif)',
    'confirmed_by_me': {
        'how': 'tools/confirm_seed.sh: patch applied in the scratch worktree -> 93 baseline tests pass, demo.py exits 1; patch reverted -> demo.py exits 0; '
               'then `git -C /repo apply patch.diff`, every claimed check run, `git -C /repo checkout -- .`',
        'tests_with_change': '93 passed',
        'demo_with_change': 'FAIL (exit 1)',
        'demo_without_change': 'PASS (exit 0)',
    },
    'detected_by': [] if det == 'none' else det.split(','),
    'note': note,
}
json.dump(meta, open(d + '/meta.json', 'w'), indent=1)
if os.path.exists(d + '/meta.agent.json'):
    os.remove(d + '/meta.agent.json')
