"""C09 -- GET_DESCRIPTOR returns exactly the requested descriptor bytes.

How the obligations are decided (RULES_HOWTO rule 9):
 (A) structure: guards, drivers, edges, priorities (state_outcomes), widths/ranges, constructor arguments, and the AST of the
     elaboration-time ROM writer `generate_rom_content` reduced to linear forms over its loop variables (by role);
 (B) one-cycle evaluation of the extracted expressions of a state over ALL valuations of the registers/inputs they read
     (all 65536 wValue, all 65536 remainders, all positions of the position register, all counts/pointers of a table entry),
     with the ROM word on the read port built from the writer's own struct formats;
 (C) where a decision spans two consecutive states (index remap register -> count comparison; length/base registers ->
     send state) the register values computed by the first state's assignments are handed to the second: a composition of
     exhaustive per-state tables, not a run on chosen stimuli.
Descriptor collections are elaboration-time configuration, like the packet size: three fixed collections (dense, sparse
indices, large/empty/type 0 and 15) are swept; nothing here depends on request histories.

Genuine defect found by this rule (F16), repaired in /repo by 525aceb: ConstantStreamGenerator.start_position was
Signal(range(data_length)) and could not hold the descriptor length; the two C09.offset-lossless obligations fire again if
that returns (simulation witness kept as documentation: witness/C09/witness.py).
"""
import ast
import struct

from ..ir import E, AnalysisError
from .. import q
from ..fsm import state_outcomes, must_exit

TITLE = 'GET_DESCRIPTOR data stage'
FLOOR = 120
DECIDES = ('(a) unknown descriptor => stall and no data: every stall site of GetDescriptorHandlerBlock returns to idle and '
           'shares its state with no tx.valid driver; for concrete collections (dense and sparse indices) and ALL 65536 '
           'wValue values the type check, the index remap Switch and the count comparison accept exactly the (type, index) '
           'pairs of the collection and select the writer\'s rank; GetDescriptorHandlerDistributed drives tx / generator.start '
           'exactly under the Case of the descriptor and stall = start exactly in the Default arm; the Mux stalls only when '
           'all handlers stalled (set wins over clear of the latch); (b) per-packet length is min(wLength - start_position, '
           'max packet) on both handlers (evaluated for all 65536 remainders); last-byte / advance / exit logic of the send '
           'loops of the block handler and of ConstantStreamGenerator (truth table over a register box); (c) in '
           'StandardRequestHandler: start_position cleared and PID set to DATA1 in the idle state, advanced by exactly '
           'max_packet_size with the PID toggle under handshakes_in.ack & expecting_ack, handler started once per '
           'data_requested, leaves on status stage, the handler is built with the same max packet size; (d) every sink of '
           'start_position can hold the descriptor length (block: position register; distributed: the generator port) and '
           'offset == length yields a last-without-first beat (ZLP); (e) ROM layout: writer expressions of '
           'generate_rom_content (AST, linear forms) against the reader expressions of elaborate (IR, evaluated): word format '
           '/ byte lane, type entry address, (count, pointer) packing, index entry address, data placement, alignment; every '
           'handler registered behind the descriptor multiplexer is built with max_packet_length = max_packet_size. ')
NOT_DECIDED = ('byte equality of whole data stages as histories (the composition of the per-cycle facts over many packets); '
               'synchronous read latency of amaranth Memory; runtime (callable) descriptors; DeviceDescriptorCollection itself.')

I = 'self.interface.'
GET_DESCRIPTOR = 6              # USB 2.0 table 9-4
MPS = (8, 16, 32, 64)


def _mk(n, seed):
    return bytes((seed * 37 + i * 11 + 1) & 0xFF for i in range(n))


COLLS = {
    # consecutive indices; longest descriptor (64) is a power of two and a multiple of every packet size
    'dense': [(1, 0, _mk(18, 1)), (2, 0, _mk(32, 2)), (3, 0, _mk(4, 3)), (3, 1, _mk(20, 4)), (3, 2, _mk(64, 5))],
    # sparse indices, unused types below the maximum, type 15
    'sparse': [(1, 0, _mk(18, 6)), (2, 0, _mk(25, 7)), (3, 0, _mk(4, 8)), (3, 2, _mk(16, 9)), (3, 0xEE, _mk(18, 10)),
               (6, 0, _mk(10, 11)), (15, 1, _mk(5, 12))],
    # type 0, empty descriptor, several hundred bytes, longest is 2**k
    'big': [(0, 0, _mk(7, 13)), (2, 0, _mk(300, 14)), (2, 1, _mk(512, 15)), (3, 0, _mk(0, 16)), (3, 1, _mk(24, 17)),
            (15, 0, _mk(128, 18))],
}


# ------------------------------------------------------------------------------------------------ expression evaluation
def _mask(w):
    return (1 << w) - 1


_DRV = {}


def drivers_of(ir, name):
    """ir.drivers(name, exact=True) in program order, cached (the truth tables below ask millions of times)."""
    k = (id(ir), name)
    if k not in _DRV:
        _DRV[k] = (ir, sorted(ir.drivers(name, exact=True), key=lambda x: x.order))
    return _DRV[k][1]


class Ev:
    """Evaluates extracted expressions for one valuation of the signals they read (one cycle, no state)."""

    def __init__(self, ir, env, state=None):
        self.ir, self.env, self.state = ir, dict(env), state
        self.memo = {}          # guard literals are shared between the arms of a Switch: evaluate each once

    def sig(self, name):
        if name in self.env:
            return self.env[name]
        ds = drivers_of(self.ir, name)
        if ds and all(a.domain == 'comb' for a in ds):
            v = self.drive(name, 0)
            self.env[name] = v
            return v
        raise AnalysisError('no value for signal %s while evaluating %s' % (name, self.ir.clsname))

    def ev(self, e):
        if not isinstance(e, E):
            return int(e)
        op, a = e.op, e.args
        if op == 'const':
            return e.val
        if op == 'sig':
            return self.sig(a[0].name)
        if op == 'param':
            return self.sig(e.canon())
        if op == 'slice':
            return (self.ev(a[0]) >> a[1]) & _mask(max(a[2] - a[1], 0))
        if op == 'cat':
            r = sh = 0
            for x in a:
                if x.w is None:
                    raise AnalysisError('Cat operand of unknown width: ' + x.canon())
                r |= (self.ev(x) & _mask(x.w)) << sh
                sh += x.w
            return r
        if op == '~':
            v = self.ev(a[0])
            w = a[0].w if isinstance(a[0], E) else None
            return int(not v) if (w is None or w == 1) else (~v) & _mask(w)
        if op == 'neg':
            return -self.ev(a[0])
        if op in ('&', '|', '^', '+', '*'):
            vs = [self.ev(x) for x in a]
            r = vs[0]
            for v in vs[1:]:
                r = r & v if op == '&' else r | v if op == '|' else r ^ v if op == '^' else r + v if op == '+' else r * v
            return r
        if op in ('==', '!=', '<', '<=', '>', '>=', '-', '<<', '>>', '//', '%'):
            x, y = self.ev(a[0]), self.ev(a[1])
            return {'==': lambda: int(x == y), '!=': lambda: int(x != y), '<': lambda: int(x < y), '<=': lambda: int(x <= y),
                    '>': lambda: int(x > y), '>=': lambda: int(x >= y), '-': lambda: x - y, '<<': lambda: x << y,
                    '>>': lambda: x >> y, '//': lambda: x // y, '%': lambda: x % y}[op]()
        if op == 'mux':
            return self.ev(a[1]) if self.ev(a[0]) else self.ev(a[2])
        if op == 'ongoing':
            return int(self.state == a[1])
        if op == 'call':
            f = a[0]
            if f == 'bit_select':
                return (self.ev(a[1]) >> self.ev(a[2])) & _mask(self.ev(a[3]))
            if f == 'word_select':
                w = self.ev(a[3])
                return (self.ev(a[1]) >> (self.ev(a[2]) * w)) & _mask(w)
            if f in ('any', 'bool'):
                return int(self.ev(a[1]) != 0)
            if f in ('as_unsigned',):
                return self.ev(a[1])
        raise AnalysisError('expression not evaluable: %s' % e.canon())

    def holds(self, item):
        for l in item.guard:
            if l.kind == 'cfg':
                raise AnalysisError('configuration atom in a guard that must be evaluated: %s' % l.canon())
            k = id(l.e)
            v = self.memo.get(k)
            if v is None:
                v = self.memo[k] = bool(self.ev(l.e))
            if v != l.pos:
                return False
        return True

    def active(self, a):
        return (a.state is None or a.state[1] == self.state) and self.holds(a)

    def drive(self, name, default=None, domain=None):
        """Value driven onto `name` this cycle (last active assignment wins); `default` when nothing drives it."""
        val = default
        for a in drivers_of(self.ir, name):
            if domain is not None and (a.domain == 'comb') != (domain == 'comb'):
                continue
            if a.lhs.op != 'sig':
                raise AnalysisError('partial assignment to %s not supported here' % name)
            if self.active(a):
                val = self.ev(a.rhs)
        return val

    def next_state(self, fsm):
        dst = self.state
        k = (id(fsm), self.state)
        if k not in _DRV:
            _DRV[k] = (fsm, sorted(fsm.out_edges(self.state), key=lambda x: x.order))
        for e in _DRV[k][1]:
            if self.holds(e):
                dst = e.dst
        return dst


# ------------------------------------------------------------------------------------------------ linear forms over the writer AST
def p_const(c):
    return {(): c} if c else {}


def p_atom(a):
    return {(a,): 1}


def p_add(a, b, s=1):
    r = dict(a)
    for k, v in b.items():
        r[k] = r.get(k, 0) + s * v
        if r[k] == 0:
            del r[k]
    return r


def p_mul(a, b):
    r = {}
    for ka, va in a.items():
        for kb, vb in b.items():
            k = tuple(sorted(ka + kb))
            r[k] = r.get(k, 0) + va * vb
            if r[k] == 0:
                del r[k]
    return r


def p_str(p):
    return ' + '.join('%s%s' % ('' if (v == 1 and k) else str(v) + ('*' if k else ''), '*'.join(k)) for k, v in sorted(p.items())) or '0'


def p_isconst(p):
    return all(k == () for k in p)


class RomWriter:
    """Facts about generate_rom_content read off its AST: where (as a linear form over the loop variables, by role) each
    table entry and descriptor is stored and what is packed into it.  Roles, not variable names: `type`, `index`, `raw`
    (the three elements yielded by the collection), `indexset` (dict index->raw of one type), `rank` (enumerate position)."""

    def __init__(self, ctx, fn, consts):
        self.ctx, self.fn, self.consts = ctx, fn, consts
        self.defs, self.aug, self.stores, self.roles = {}, {}, {}, {}
        self.slice_stores = []
        self.assumed = []
        for n in ast.walk(fn):
            if isinstance(n, ast.Assign) and len(n.targets) == 1:
                t = n.targets[0]
                if isinstance(t, ast.Name):
                    self.defs.setdefault(t.id, []).append((n.lineno, n.value))
                elif isinstance(t, ast.Subscript) and isinstance(t.value, ast.Name):
                    if isinstance(t.slice, ast.Slice):
                        self.slice_stores.append((n.lineno, t.value.id, t.slice.lower, t.slice.upper, n.value))
                    else:
                        self.stores.setdefault(t.value.id, []).append((n.lineno, t.slice, n.value))
                elif isinstance(t, ast.Subscript) and isinstance(t.value, ast.Subscript) and isinstance(t.value.value, ast.Name):
                    self.stores.setdefault(t.value.value.id, []).append((n.lineno, (t.value.slice, t.slice), n.value))
            elif isinstance(n, ast.AugAssign) and isinstance(n.target, ast.Name):
                self.aug.setdefault(n.target.id, []).append((n.lineno, n.op, n.value))
        self._roles()

    # -- roles of loop variables
    def _set(self, name, role):
        old = self.roles.get(name)
        self.ctx.need(old in (None, role), 'generate_rom_content: variable %s used in two roles (%s, %s)' % (name, old, role))
        self.roles[name] = role

    def _roles(self):
        fors = sorted((n for n in ast.walk(self.fn) if isinstance(n, ast.For)), key=lambda n: n.lineno)
        src = [f for f in fors if isinstance(f.target, ast.Tuple) and len(f.target.elts) == 3 and
               any(isinstance(x, ast.Attribute) and isinstance(x.value, ast.Name) and x.value.id == 'self' for x in ast.walk(f.iter))]
        self.ctx.need(len(src) >= 1 and all(isinstance(x, ast.Name) for x in src[0].target.elts),
                      'generate_rom_content: loop over the descriptor collection (type, index, raw)')
        for nm, role in zip(src[0].target.elts, ('type', 'index', 'raw')):
            self._set(nm.id, role)
        for d, sts in self.stores.items():
            for ln, key, val in sts:
                if isinstance(key, tuple) and [self._role_of(k) for k in key] == ['type', 'index'] and self._role_of(val) == 'raw':
                    self._set(d, 'bytype')
        self.ctx.need('bytype' in self.roles.values(), 'generate_rom_content: dictionary type -> index -> descriptor')
        for _ in range(2):
            for f in fors:
                it, tgt, rank = f.iter, f.target, None
                if isinstance(it, ast.Call) and isinstance(it.func, ast.Name) and it.func.id == 'enumerate' and it.args:
                    it = it.args[0]
                    if isinstance(tgt, ast.Tuple) and len(tgt.elts) == 2:
                        rank, tgt = tgt.elts[0], tgt.elts[1]
                srt = False
                if isinstance(it, ast.Call) and isinstance(it.func, ast.Name) and it.func.id == 'sorted' and it.args:
                    it, srt = it.args[0], True
                if not (isinstance(it, ast.Call) and isinstance(it.func, ast.Attribute) and isinstance(it.func.value, ast.Name)):
                    continue
                base, meth = self.roles.get(it.func.value.id), it.func.attr
                kv = {'bytype': ('type', 'indexset'), 'indexset': ('index', 'raw')}.get(base)
                if kv is None:
                    continue
                if meth == 'items' and isinstance(tgt, ast.Tuple) and len(tgt.elts) == 2 and all(isinstance(x, ast.Name) for x in tgt.elts):
                    self._set(tgt.elts[0].id, kv[0])
                    self._set(tgt.elts[1].id, kv[1])
                    if rank is not None and isinstance(rank, ast.Name):
                        self._set(rank.id, 'rank')
                        self.rank_sorted = srt
                elif meth == 'values' and isinstance(tgt, ast.Name):
                    self._set(tgt.id, kv[1])
                elif meth == 'keys' and isinstance(tgt, ast.Name):
                    self._set(tgt.id, kv[0])

    def _role_of(self, n):
        return self.roles.get(n.id) if isinstance(n, ast.Name) else None

    # -- linear form of an expression as seen at `line`
    def latest(self, name, line):
        c = [d for d in self.defs.get(name, []) if d[0] < line]
        return max(c, key=lambda d: d[0]) if c else None

    def poly(self, n, line, depth=0):
        self.ctx.need(depth < 12, 'generate_rom_content: definition chain too deep')
        if isinstance(n, ast.Constant) and isinstance(n.value, int):
            return p_const(n.value)
        if isinstance(n, ast.Attribute) and isinstance(n.value, ast.Name) and n.value.id in ('self', 'cls') and n.attr in self.consts:
            return p_const(self.consts[n.attr])
        if isinstance(n, ast.Name):
            if n.id in self.roles:
                return p_atom(self.roles[n.id])
            if n.id in self.aug:
                return p_atom('addr@%d' % sum(1 for a in self.aug[n.id] if a[0] < line)) if self.running == n.id else p_atom('run:%s' % n.id)
            d = self.latest(n.id, line)
            if d is not None:
                return self.poly(d[1], d[0], depth + 1)
            return p_atom('free:' + n.id)
        if isinstance(n, ast.BinOp):
            a, b = self.poly(n.left, line, depth + 1), self.poly(n.right, line, depth + 1)
            if isinstance(n.op, ast.Add):
                return p_add(a, b)
            if isinstance(n.op, ast.Sub):
                return p_add(a, b, -1)
            if isinstance(n.op, ast.Mult):
                return p_mul(a, b)
            if isinstance(n.op, ast.LShift) and p_isconst(b):
                return p_mul(a, p_const(1 << b.get((), 0)))
            if isinstance(n.op, ast.BitOr):
                self.assumed.append('operands of | at line %d occupy disjoint bits' % n.lineno)
                return p_add(a, b)
            if isinstance(n.op, ast.FloorDiv) and p_isconst(a) and p_isconst(b) and b:
                return p_const(a.get((), 0) // b[()])
        if isinstance(n, ast.Call):
            f = n.func
            if isinstance(f, ast.Name) and f.id == 'len' and len(n.args) == 1 and self._role_of(n.args[0]):
                return p_atom('len(%s)' % self._role_of(n.args[0]))
            if isinstance(f, ast.Name) and f.id == 'max' and len(n.args) == 1:
                x = n.args[0]
                if isinstance(x, ast.Call) and isinstance(x.func, ast.Attribute) and x.func.attr == 'keys':
                    x = x.func.value
                if self._role_of(x) == 'bytype':
                    return p_atom('maxtype')
            if isinstance(f, ast.Attribute) and isinstance(f.value, ast.Name) and f.value.id in ('self', 'cls') and len(n.args) == 1 \
                    and f.attr == self.align_name:
                return p_atom('align(%s)' % p_str(self.poly(n.args[0], line, depth + 1)))
        if isinstance(n, ast.Subscript) and isinstance(n.value, ast.Name) and n.value.id in self.stores:
            k = self.poly(n.slice, line, depth + 1)
            hits = [s for s in self.stores[n.value.id] if not isinstance(s[1], tuple) and self.poly(s[1], s[0], depth + 1) == k]
            if len(hits) == 1:
                return self.poly(hits[0][2], hits[0][0], depth + 1)
        return p_atom('expr:' + ast.unparse(n))

    running = None
    align_name = '_align_to_element_size'
    rank_sorted = False


def pyeval(n, env):
    """Arithmetic value of a small Python expression AST (no execution of repo code: own interpreter)."""
    if isinstance(n, ast.Constant) and isinstance(n.value, int):
        return n.value
    if isinstance(n, ast.Name) and n.id in env:
        return env[n.id]
    if isinstance(n, ast.Attribute) and isinstance(n.value, ast.Name) and n.value.id in ('self', 'cls') and n.attr in env:
        return env[n.attr]
    if isinstance(n, ast.BinOp):
        a, b = pyeval(n.left, env), pyeval(n.right, env)
        for t, f in ((ast.Add, lambda: a + b), (ast.Sub, lambda: a - b), (ast.Mult, lambda: a * b), (ast.FloorDiv, lambda: a // b),
                     (ast.Mod, lambda: a % b), (ast.LShift, lambda: a << b), (ast.RShift, lambda: a >> b), (ast.BitAnd, lambda: a & b),
                     (ast.BitOr, lambda: a | b)):
            if isinstance(n.op, t):
                return f()
    if isinstance(n, ast.UnaryOp) and isinstance(n.op, ast.USub):
        return -pyeval(n.operand, env)
    if isinstance(n, ast.UnaryOp) and isinstance(n.op, ast.Invert):
        return ~pyeval(n.operand, env)
    raise AnalysisError('python expression not evaluable: ' + ast.unparse(n))


# ------------------------------------------------------------------------------------------------ (e) the ROM writer
def analyse_writer(ctx):
    from ..hdl import class_attr
    cls, fn = ctx.func('GetDescriptorHandlerBlock', 'generate_rom_content')
    ir0 = ctx.ir('GetDescriptorHandlerBlock', 'usb2.descriptor')
    es = class_attr(ir0.interp, cls, 'ELEMENT_SIZE')
    ctx.need(isinstance(es, int) and es > 0, 'GetDescriptorHandlerBlock.ELEMENT_SIZE constant')
    W = RomWriter(ctx, fn, {'ELEMENT_SIZE': es})
    K = 'GetDescriptorHandlerBlock.generate_rom_content.'
    loc = '%s:%d' % (cls.mod.relpath, fn.lineno)

    def is_struct(n, what):
        return isinstance(n, ast.Call) and isinstance(n.func, ast.Attribute) and n.func.attr == what and \
            isinstance(n.func.value, ast.Name) and n.func.value.id == 'struct'
    packs = [n for n in ast.walk(fn) if is_struct(n, 'pack')]
    unpacks = [n for n in ast.walk(fn) if is_struct(n, 'unpack')]
    ctx.need(len(packs) == 2 and len(unpacks) == 1 and all(len(p.args) == 3 and isinstance(p.args[0], ast.Constant) for p in packs)
             and isinstance(unpacks[0].args[0], ast.Constant), 'two struct.pack(fmt, count, pointer) and one struct.unpack in generate_rom_content')
    run = {p.args[2].id for p in packs if isinstance(p.args[2], ast.Name)}
    ctx.need(len(run) == 1 and run <= set(W.aug), 'the running address variable (second field of both table entries)')
    W.running = run.pop()
    byrole = {}
    for p in packs:
        byrole[p_str(W.poly(p.args[1], p.lineno))] = p
    ctx.need(set(byrole) == {'len(indexset)', 'len(raw)'}, 'table entries (number of indices, pointer) and (descriptor length, pointer): %s' % sorted(byrole))
    tp, ip_ = byrole['len(indexset)'], byrole['len(raw)']
    W.es, W.wfmt, W.tfmt, W.ifmt = es, unpacks[0].args[0].value, tp.args[0].value, ip_.args[0].value
    ok = True
    try:
        ok = struct.calcsize(W.tfmt) == es and struct.calcsize(W.ifmt) == es and struct.calcsize(W.wfmt) == es and \
            len(struct.unpack(W.wfmt, bytes(es))) == 1
    except struct.error:
        ok = False
    ctx.ob('C09.rom-writer', K + 'word-format', ok, loc,
           'every table entry (%r, %r) and every ROM word (%r) must be ELEMENT_SIZE = %d bytes' % (W.tfmt, W.ifmt, W.wfmt, es))
    ctx.need(ok, 'struct formats of the ROM writer')
    # which slice store carries which value
    rom = {s[1] for s in W.slice_stores}
    ctx.need(len(rom) == 1 and len(W.slice_stores) == 3, 'three slice stores into one ROM byte array')
    W.rom = rom.pop()
    kinds = {}
    for ln, _, lo, hi, val in W.slice_stores:
        kind = None
        if isinstance(val, ast.Name):
            if W.roles.get(val.id) == 'raw':
                kind = 'data'
            else:
                d = W.latest(val.id, ln)
                kind = 'type' if d and d[1] is tp else 'index' if d and d[1] is ip_ else None
        elif val is tp or val is ip_:
            kind = 'type' if val is tp else 'index'
        ctx.need(kind is not None and kind not in kinds, 'value of the ROM store at line %d' % ln)
        kinds[kind] = (ln, W.poly(lo, ln), W.poly(hi, ln))
    ctx.need(set(kinds) == {'type', 'index', 'data'}, 'type-entry, index-entry and data stores')
    W.t_lo, W.i_lo, W.d_lo = kinds['type'][1], kinds['index'][1], kinds['data'][1]
    t_ptr, i_ptr = W.poly(tp.args[2], tp.lineno), W.poly(ip_.args[2], ip_.lineno)
    ES = p_const(es)
    ctx.ob('C09.rom-writer', K + 'type-entry.address', W.t_lo == p_mul(ES, p_atom('type')) and p_add(kinds['type'][2], W.t_lo, -1) == ES, loc,
           'the (count, pointer) entry of a type is stored at ELEMENT_SIZE * type: [%s : %s]' % (p_str(W.t_lo), p_str(kinds['type'][2])))
    W.t_ptr = t_ptr
    base = p_add(W.i_lo, p_mul(ES, p_atom('rank')), -1)
    ctx.ob('C09.rom-writer', K + 'index-entry.address', base == t_ptr and len(t_ptr) == 1 and p_add(kinds['index'][2], W.i_lo, -1) == ES, loc,
           'the (length, pointer) entry of rank i is stored at <pointer packed into the type entry> + ELEMENT_SIZE * i: '
           'store at [%s], type entry points to %s' % (p_str(W.i_lo), p_str(t_ptr)))
    ctx.ob('C09.rom-writer', K + 'data.placement', W.d_lo == i_ptr and len(i_ptr) == 1 and
           p_add(kinds['data'][2], W.d_lo, -1) == p_atom('len(raw)') and kinds['data'][0] > ip_.lineno, loc,
           'the descriptor bytes are stored at the pointer packed into its index entry: store at [%s : %s], entry points to %s' % (
               p_str(W.d_lo), p_str(kinds['data'][2]), p_str(i_ptr)))
    # running address: start after the type table, advance by exactly the table / aligned data size
    d0 = W.defs.get(W.running, [])
    augs = sorted(W.aug[W.running])
    start_ok = len(d0) == 1 and W.poly(d0[0][1], d0[0][0]) == p_mul(ES, p_add(p_atom('maxtype'), p_const(1)))
    a1 = [a for a in augs if tp.lineno < a[0] < ip_.lineno]
    a2 = [a for a in augs if a[0] > ip_.lineno]
    adv_ok = len(a1) == 1 and len(a2) == 1 and len(augs) == 2 and all(isinstance(a[1], ast.Add) for a in augs) and \
        W.poly(a1[0][2], a1[0][0]) == p_mul(ES, p_atom('len(indexset)')) and \
        W.poly(a2[0][2], a2[0][0]) == p_mul(ES, p_atom('align(len(raw))'))
    ctx.ob('C09.rom-writer', K + 'address-advance', start_ok and adv_ok, loc,
           'the running address starts at ELEMENT_SIZE*(max type+1), grows by ELEMENT_SIZE*len(indices) per type and by '
           'ELEMENT_SIZE*align(len(descriptor)) per descriptor: start %s, advances %s' % (
               [p_str(W.poly(d[1], d[0])) for d in d0], [p_str(W.poly(a[2], a[0])) for a in augs]))
    _, al = ctx.func('GetDescriptorHandlerBlock', W.align_name)
    ret = [s for s in al.body if isinstance(s, ast.Return)]
    ctx.need(len(ret) == 1 and len(al.args.args) == 2, '_align_to_element_size(cls, n) with a single return')
    bad = [n for n in range(0, 2050) if not (n <= es * pyeval(ret[0].value, {al.args.args[1].arg: n, 'ELEMENT_SIZE': es}) < n + es)]
    ctx.ob('C09.rom-writer', K + 'alignment', not bad, '%s:%d' % (cls.mod.relpath, al.lineno),
           'align(n) * ELEMENT_SIZE must be the smallest multiple of ELEMENT_SIZE >= n for n = 0..2049; fails for %s' % bad[:5])
    rd = W.defs.get(W.rom, [])
    ok = len(rd) == 1 and isinstance(rd[0][1], ast.Call) and isinstance(rd[0][1].func, ast.Name) and rd[0][1].func.id == 'bytearray'
    ctx.ob('C09.rom-writer', K + 'zero-init', ok, loc, 'the ROM image starts as bytearray(size): entries of unused types read as count 0')
    ctx.ob('C09.rom-writer', K + 'rank-sorted', W.rank_sorted, loc,
           'the rank of a descriptor is its position among the SORTED indices of its type (the reader uses the index itself when indices are consecutive)')
    # chunking of the byte image into words
    chunk = [c for c in ast.walk(fn) if isinstance(c, (ast.GeneratorExp, ast.ListComp)) and isinstance(c.elt, ast.Subscript)
             and isinstance(c.elt.value, ast.Name) and c.elt.value.id == W.rom and isinstance(c.elt.slice, ast.Slice)]
    ok = False
    if len(chunk) == 1 and isinstance(chunk[0].generators[0].target, ast.Name):
        v = chunk[0].generators[0].target.id
        W.roles[v] = 'word'
        lo, hi = W.poly(chunk[0].elt.slice.lower, chunk[0].lineno), W.poly(chunk[0].elt.slice.upper, chunk[0].lineno)
        del W.roles[v]
        ok = lo == p_mul(ES, p_atom('word')) and p_add(hi, lo, -1) == ES
    ctx.ob('C09.rom-writer', K + 'word-chunks', ok, loc, 'ROM word k is bytes [ELEMENT_SIZE*k : ELEMENT_SIZE*(k+1)] of the image')
    # returned maxima
    rets = [s for s in ast.walk(fn) if isinstance(s, ast.Return)]
    ctx.need(len(rets) == 1 and isinstance(rets[0].value, ast.Tuple) and len(rets[0].value.elts) == 4, 'generate_rom_content returns a 4-tuple')
    r1, r2 = rets[0].value.elts[1], rets[0].value.elts[2]
    ok1 = False
    if isinstance(r1, ast.Name):
        ds = [d for d in W.defs.get(r1.id, []) if isinstance(d[1], ast.Call) and isinstance(d[1].func, ast.Name) and d[1].func.id == 'max']
        ok1 = any(any(W.poly(x, d[0]) == p_atom('len(raw)') for x in d[1].args) and
                  any(isinstance(x, ast.Name) and x.id == r1.id for x in d[1].args) for d in ds)
    ctx.ob('C09.rom-writer', K + 'returned-maxima', ok1 and W.poly(r2, rets[0].lineno) == p_atom('maxtype'), loc,
           'the 2nd / 3rd returned values are max(len(descriptor)) and max(type): the reader sizes its position counter and its type check with them')
    return W


def word(W, fmt, c, p):
    return struct.unpack(W.wfmt, struct.pack(fmt, c, p))[0]


def p_eval(p, vals):
    """Value of a linear form; None when it mentions something else than the given roles (the writer obligation reports that)."""
    r = 0
    for k, v in p.items():
        for a in k:
            if a not in vals:
                return None
            v *= vals[a]
        r += v
    return r


# ------------------------------------------------------------------------------------------------ block-RAM handler
def step_regs(ev, ir):
    """Next values of all registers that have an active clocked assignment this cycle."""
    out = {}
    k = (id(ir), '$clocked')
    if k not in _DRV:
        _DRV[k] = (ir, sorted((a for a in ir.assigns if a.domain != 'comb' and a.lhs.op == 'sig'), key=lambda x: x.order))
    for a in _DRV[k][1]:
        if ev.active(a):
            out[a.lhs.args[0].name] = ev.ev(a.rhs)
    return out


def two_arm_min(ctx, ir, cls, mps, tag, reg):
    """(b) the local `length`: for every remainder r = wLength - start_position (all 65536), min(r, max packet)."""
    cands = [n for n in ir.signals if '.' not in n and any(a.rhs.canon() == 'self.length - self.start_position' for a in ir.drivers(n, exact=True))]
    ctx.need(len(cands) == 1, '%s: the per-packet length signal (assigned wLength - start_position)' % cls)
    L = cands[0]
    ds = ir.drivers(L, exact=True)
    bad = None
    for r in range(65536):
        ev = Ev(ir, {'self.length': r, 'self.start_position': 0})
        v = ev.drive(L)
        if v != min(r, mps):
            bad = (r, v)
            break
    ctx.ob('C09.packet-length', '%s.length%s' % (cls, tag), bad is None and all((a.domain != 'comb') == reg for a in ds), ds[0].loc,
           'the packet length must be min(wLength - start_position, %d) for every remainder; (remainder, value) = %s' % (mps, bad))
    return L


def block(ctx, W, mps, cname, full):
    coll = COLLS[cname]
    tag = '@mps%d/%s' % (mps, cname)
    C = 'GetDescriptorHandlerBlock'
    ir = ctx.ir(C, 'usb2.descriptor', descriptor_collection=coll, max_packet_length=mps)
    fsm = ctx.the_fsm(ir)
    init = fsm.init
    bytype = {}
    for t, i, raw in coll:
        bytype.setdefault(t, {})[i] = raw
    maxtype, maxlen = max(bytype), max(len(r) for _, _, r in coll)
    # ---- roles
    oe = fsm.out_edges(init)
    ctx.need(len(oe) == 1, C + ': one edge out of the idle state')
    ctx.ob('C09.start-once', C + '.idle-exit' + tag, q.atoms(oe[0]) == {('self.start', True)}, oe[0].loc, 'the handler starts exactly on `start`: %s' % q.fmt(oe[0]))
    S_start = oe[0].dst
    nx = {e.dst for e in fsm.out_edges(S_start)} - {init}
    ctx.need(len(nx) == 1, C + ': the type-lookup state')
    S_type = nx.pop()
    pay = ir.drivers('self.tx.payload', exact=True)
    ctx.need(len(pay) == 1 and pay[0].state, C + ': one payload driver')
    S_send = q.state_of(pay[0])
    zl = {q.state_of(a) for a in q.raises(ir, 'self.tx.valid')} - {S_send}
    ctx.need(len(zl) == 1 and None not in zl, C + ': the ZLP state')
    S_zlp = zl.pop()
    ds_ = {e.src for e in fsm.in_edges(S_send)}
    ctx.need(len(ds_) == 1, C + ': the descriptor-lookup state')
    S_desc = ds_.pop()
    ctx.need(len({init, S_start, S_type, S_desc, S_send, S_zlp}) == 6 == len(fsm.states), C + ': six distinct states')
    clocked = {a.lhs.args[0].name for a in ir.assigns if a.domain != 'comb' and a.lhs.op == 'sig'}
    psig = pay[0].rhs.sigs()
    ctx.need(len(psig & clocked) == 1 and len(psig - clocked) == 1, C + ': payload = byte of the ROM read data selected by the position register')
    POS, DATA = (psig & clocked).pop(), (psig - clocked).pop()
    posl = [a for a in ir.drivers(POS, exact=True) if q.state_of(a) == S_start]
    ctx.ob('C09.position-load', C + '.position' + tag, len(posl) == 1 and not posl[0].guard and posl[0].rhs.canon() == 'self.start_position',
           posl[0].loc if posl else fsm.state_loc[S_start],
           'the stream position is loaded from start_position, unconditionally, in the state entered by start: %s' % [q.fmt(a)[:160] for a in posl])
    ADDR = DATA.rsplit('.', 1)[0] + '.addr'
    ctx.need(ir.drivers(ADDR, exact=True), C + ': ROM read address drivers')
    depth = [s.obj.kwargs.get('depth') for s in ir.submodules if s.name == 'rom']
    shape = [s.obj.kwargs.get('shape') for s in ir.submodules if s.name == 'rom']
    ctx.need(depth and isinstance(depth[0], int), C + ': ROM depth')
    words = (maxtype + 1) + len(coll) + sum((len(r) + W.es - 1) // W.es for _, _, r in coll)
    ctx.ob('C09.rom-layout', C + '.rom-shape' + tag, shape == [8 * W.es] and depth[0] >= words, None,
           'ROM words are 8*ELEMENT_SIZE bits and the depth covers the writer\'s total (%d words): shape %s depth %s' % (words, shape, depth))
    AW = max((depth[0] - 1).bit_length(), 1)
    params = {n.canon(): AW for a in ir.assigns for n in a.rhs.walk() if n.op == 'param'}
    ctx.need(all(k.startswith('param:len(') for k in params), C + ': only the address width is symbolic: %s' % sorted(params))
    L = two_arm_min(ctx, ir, C, mps, tag, True)
    posw = ir.signals[POS].w
    # ---- (d) the position register can hold the longest descriptor
    ctx.ob('C09.offset-lossless', C + '.position' + tag, posw is not None and (1 << posw) > maxlen, ir.signals[POS].loc,
           'the position register (%s bits, declared %s) must be able to hold the descriptor length %d itself, so that the request after a '
           'full final packet is recognised and answered with a ZLP' % (posw, ir.signals[POS].shape_src, maxlen))
    ctx.need(posw is not None and posw <= 12, C + ': position width')
    base_env = dict(params)
    base_env.update({'self.start': 0, 'self.value': 0, 'self.tx.ready': 0, 'self.length': 0, 'self.start_position': 0, L: 1, DATA: 0, POS: 0})
    regs0 = {a.lhs.args[0].name for a in ir.assigns if a.domain != 'comb' and a.lhs.op == 'sig'}
    for r in regs0:
        base_env.setdefault(r, 0)
    sent_ = [r for r in regs0 if r not in (POS, L) and any(q.state_of(a) == init and q.is_zero(a.rhs) for a in ir.drivers(r, exact=True))
             and any(q.state_of(a) == S_send for a in ir.drivers(r, exact=True))]
    ctx.need(len(sent_) == 1, C + ': the per-packet byte counter (cleared in idle, counted while sending)')
    SENT = sent_[0]

    # ---- (a) stall sites: structural
    st = q.raises(ir, 'self.stall')
    ctx.need(len(st) >= 2, C + ': stall sites')
    for a in st:
        s = q.state_of(a)
        role = 'type-check' if s == S_start else 'index-check' if s == S_type else 'other'
        outs = state_outcomes(fsm, s, {x: p for x, p in q.atoms(a)}) if s else {}
        novalid = not [d for d in ir.drivers('self.tx.valid', exact=True) if q.state_of(d) in (s, None)]
        ctx.ob('C09.stall-no-data', '%s.stall@%s%s' % (C, role, tag), s in (S_start, S_type) and set(outs) == {init} and novalid and q.is_one(a.rhs), a.loc,
               'a stall must end the request (back to idle) in a state that drives no data: outcomes %s, %s' % (sorted(map(str, outs)), q.fmt(a)))
    # ---- (a)/(e) the exists decision for every wValue
    cnt = {t: len(bytype.get(t, {})) for t in range(256)}
    ptr = {}
    nfa = W.es * (maxtype + 1)
    for t in sorted(bytype):
        ptr[t] = nfa
        nfa += W.es * len(bytype[t])
    bad_t = bad_x = bad_r = bad_a = None
    values = range(65536) if full else [t << 8 | i for t in range(256) for i in (range(256) if t <= maxtype + 1 else (0, 1, 2, 0xEE, 0xFF))]
    for v in values:
        t, i = v >> 8, v & 0xFF
        env = dict(base_env)
        env['self.value'] = v
        e1 = Ev(ir, env, S_start)
        a1 = e1.drive(ADDR, 0)
        n1, s1 = e1.next_state(fsm), e1.drive('self.stall', 0)
        if a1 * W.es != p_eval(W.t_lo, {'type': t}) and bad_a is None:
            bad_a = (t, a1)
        ok1 = (n1 == S_type and not s1) if t <= maxtype else (n1 == init and s1 == 1)
        if not ok1 and bad_t is None:
            bad_t = (t, n1, s1)
        if t > maxtype:
            continue
        env.update(step_regs(e1, ir))
        env[DATA] = word(W, W.tfmt, cnt[t], ptr.get(t, 0))
        e2 = Ev(ir, env, S_type)
        n2, s2 = e2.next_state(fsm), e2.drive('self.stall', 0)
        exists = i in bytype.get(t, {})
        if ((n2 == init and s2 == 1) if not exists else (n2 in (S_desc, S_zlp) and not s2)) is False and bad_x is None:
            bad_x = ('type %d index %d %s' % (t, i, 'exists' if exists else 'does not exist'), n2, s2)
        if exists:
            rank = sorted(bytype[t]).index(i)
            a2 = e2.drive(ADDR, 0) & _mask(AW)
            want = p_eval(W.i_lo, {list(W.t_ptr)[0][0]: ptr[t], 'rank': rank})
            if a2 * W.es != want and bad_r is None:
                bad_r = ('type %d index %d rank %d' % (t, i, rank), a2, 'writer stores at ' + p_str(W.i_lo) if want is None else want // W.es)
    n = len(values)
    ctx.ob('C09.rom-layout', C + '.type-entry.address' + tag, bad_a is None, fsm.state_loc[S_start],
           'while the type entry is fetched the ROM address must be the writer\'s %s / ELEMENT_SIZE; (type, address) = %s' % (p_str(W.t_lo), bad_a))
    ctx.ob('C09.unknown-type', C + '.type-check' + tag, bad_t is None, fsm.state_loc[S_start],
           'types above the largest type of the ROM (%d) must stall and return to idle, all others go on; (type, next, stall) = %s [%d wValue]' % (maxtype, bad_t, n))
    ctx.ob('C09.exists-decision', C + '.index-check' + tag, bad_x is None, fsm.state_loc[S_type],
           'with the writer\'s (count, pointer) entry on the read port, exactly the (type, index) pairs of the collection go on and all '
           'others stall without data; differs for %s [%d wValue]' % (bad_x, n))
    ctx.ob('C09.rom-layout', C + '.index-entry.address' + tag, bad_r is None, fsm.state_loc[S_type],
           'the index entry fetched must be the one the writer stored for this (type, index): pointer/ELEMENT_SIZE + rank; (request, address, expected) = %s' % (bad_r,))
    # ---- (e) packing of (count, pointer): all counts, all pointers (against the index register)
    IDX = [a for a in ir.drivers('self.stall', exact=True) if q.state_of(a) == S_type]
    bad_c = bad_p = None
    env = dict(base_env)
    e0 = Ev(ir, dict(env, **{'self.value': sorted(bytype)[0] << 8}), S_start)
    idxregs = step_regs(e0, ir)
    for c in range(0, 65536, 1 if ctx.tier == 'thorough' else 251):
        for d in (0, 1, 2, 254, 255):
            en = dict(env, **{'self.value': d})
            en.update({k: d for k in idxregs if k not in (POS, L)})
            en[DATA] = word(W, W.tfmt, c, 0x40)
            e2 = Ev(ir, en, S_type)
            if bool(e2.drive('self.stall', 0)) != (d >= c) and bad_c is None:
                bad_c = (c, d)
    for p in range(0, 1 << 16, W.es):
        en = dict(env, **{'self.value': 3})
        en.update({k: 3 for k in idxregs if k not in (POS, L)})
        en[DATA] = word(W, W.tfmt, 9, p)
        e2 = Ev(ir, en, S_type)
        if (e2.drive(ADDR, 0) & _mask(AW)) != ((p // W.es + 3) & _mask(AW)) and bad_p is None:
            bad_p = p
    ctx.ob('C09.rom-layout', C + '.type-entry.fields' + tag, bad_c is None and bad_p is None and len(IDX) == 1, fsm.state_loc[S_type],
           'reader and writer agree on the (count, pointer) packing %r/%r: stall iff index >= count (count, index) = %s; address = pointer/ELEMENT_SIZE + index fails at pointer %s' % (
               W.tfmt, W.wfmt, bad_c, bad_p))
    # ---- (e)/(d) index entry (length, pointer) -> ZLP decision, base, send addresses, byte lanes
    bad_z = bad_b = bad_l = bad_lane = bad_first = None
    lens = sorted({len(r) for _, _, r in coll} | {1, 2, 3, 4, 5, 8, 9, maxlen})
    lens = [x for x in lens if 0 <= x <= maxlen]
    ptrs = [W.es * k for k in (0, 1, 2, 5, 63, (1 << AW) - 1)]
    rawb = bytes(range(0x41, 0x41 + W.es))
    rw = struct.unpack(W.wfmt, rawb)[0]
    # every (length, position) with one pointer; every (pointer, position) with the longest descriptor
    combos = [(dl, ptrs[2], pos) for dl in lens for pos in range(1 << posw)] + \
             [(maxlen, p, pos) for p in ptrs for pos in range(maxlen) if p != ptrs[2]]
    for dl, p, pos in combos:
        en = dict(base_env)
        en.update({POS: pos, DATA: word(W, W.ifmt, dl, p), 'self.start_position': 0})
        e3 = Ev(ir, en, S_desc)
        n3 = e3.next_state(fsm)
        if n3 != (S_zlp if pos >= dl else S_send) and bad_z is None:
            bad_z = (dl, pos, n3)
        if pos >= dl:
            continue
        a3 = e3.drive(ADDR, 0) & _mask(AW)
        if a3 != ((p + pos) // W.es) & _mask(AW) and bad_b is None:
            bad_b = ('lookup', dl, p, pos, a3)
        if e3.drive('self.tx.valid', 0) or e3.drive('self.stall', 0):
            bad_b = bad_b or ('lookup drives tx.valid/stall', dl, p, pos)
        en.update(step_regs(e3, ir))
        en[DATA] = rw
        for rdy, sent, ln in ((0, 0, 5), (1, 0, 5), (1, 0, 1), (1, 3, 4)):
            en.update({'self.tx.ready': rdy, L: ln, SENT: sent, 'self.start_position': pos})
            e4 = Ev(ir, en, S_send)
            last = (pos == dl - 1) or (sent + 1 >= ln)
            adv = rdy and not last
            a4 = e4.drive(ADDR, 0) & _mask(AW)
            if a4 != ((p // W.es) + (pos + (1 if adv else 0)) // W.es) & _mask(AW) and bad_b is None:
                bad_b = ('send ready=%d last=%d' % (rdy, last), dl, p, pos, a4)
            if bool(e4.drive('self.tx.last', 0)) != last and bad_l is None:
                bad_l = (dl, pos, sent, ln)
            if e4.drive('self.tx.payload', 0) != rawb[pos % W.es] and bad_lane is None:
                bad_lane = (pos, e4.drive('self.tx.payload', 0))
            if not e4.drive('self.tx.first', 0) and bad_first is None:
                bad_first = (pos, pos)
    ctx.ob('C09.zlp-path', C + '.offset-at-end' + tag, bad_z is None, fsm.state_loc[S_desc],
           'with the writer\'s (length, pointer) entry on the read port: position >= length -> ZLP state, else send state; (length, position, next) = %s' % (bad_z,))
    ctx.ob('C09.rom-layout', C + '.data.address' + tag, bad_b is None, fsm.state_loc[S_send],
           'the data word fetched must be the writer\'s (pointer + position) / ELEMENT_SIZE, also for the look-ahead fetch when a byte is accepted: %s' % (bad_b,))
    ctx.ob('C09.rom-layout', C + '.data.byte-lane' + tag, bad_lane is None, pay[0].loc,
           'byte k of a ROM word packed with %r must be sent for position %% ELEMENT_SIZE == k; (position, payload) = %s, word bytes %s' % (W.wfmt, bad_lane, rawb.hex()))
    ctx.ob('C09.last-byte', C + '.tx.last' + tag, bad_l is None, fsm.state_loc[S_send],
           'tx.last exactly on the last descriptor byte or the last byte of the packet; (length, position, sent, packet length) = %s' % (bad_l,))
    ctx.ob('C09.first-byte', C + '.tx.first' + tag, bad_first is None, fsm.state_loc[S_send],
           'tx.first on the byte at position == start_position (a packet without first is taken for a ZLP): (position, start_position) = %s' % (bad_first,))
    tl = [a for a in ir.drivers('self.tx.last', exact=True) if q.state_of(a) == S_send]
    ctx.need(len(tl) == 1, C + ': tx.last driver of the send state')
    dreg = sorted(tl[0].rhs.sigs() & {a.lhs.args[0].name for a in ir.assigns if a.domain != 'comb' and q.state_of(a) == S_desc and a.lhs.op == 'sig'})
    ctx.need(len(dreg) == 1, C + ': the register that keeps the descriptor length (loaded during the lookup, read by tx.last)')
    send_loop(ctx, ir, fsm, C, tag, S_send, POS, SENT, L, 'self.tx', dreg[0], None, base_env)
    # ---- ZLP state and the entries of the sending states
    zv = [a for a in ir.assigns if q.state_of(a) == S_zlp]
    drv = {a.lhs.canon(): a for a in zv}
    ok = set(drv) == {'self.tx.valid', 'self.tx.last'} and all(q.is_one(a.rhs) and not a.guard for a in zv) and must_exit(fsm, S_zlp, {}, {init})[0]
    ctx.ob('C09.zlp-path', C + '.zlp-state' + tag, ok, fsm.state_loc[S_zlp], 'the ZLP state raises valid and last (never first) for one cycle and returns to idle: %s' % sorted(drv))
    for e in fsm.in_edges(S_zlp):
        ctx.ob('C09.zlp-path', '%s.zlp-entry<-%s%s' % (C, 'type-lookup' if e.src == S_type else 'descriptor-lookup' if e.src == S_desc else 'other', tag),
               e.src in (S_type, S_desc), e.loc, 'a ZLP is sent only for an existing descriptor (after the lookups): %s' % q.fmt(e))
    e7 = Ev(ir, dict(base_env, **{DATA: word(W, W.tfmt, 9, 0x40), L: 1}), S_type)
    ctx.ob('C09.send-entry', C + '.lookup-continues' + tag, e7.next_state(fsm) == S_desc, fsm.state_loc[S_type],
           'an existing descriptor with a non-zero packet length goes on to the descriptor lookup')
    br = [a for a in ir.drivers(SENT, exact=True) if q.is_zero(a.rhs)]
    ctx.ob('C09.send-entry', C + '.sent-counter-reset' + tag, any(q.state_of(a) == init and not a.guard for a in br), br[0].loc if br else None,
           'the per-packet byte counter is cleared in idle')
    return ir


def send_loop(ctx, ir, fsm, C, tag, S, POS, SENT, L, TX, DLEN, fixed, base_env):
    """Truth table of the byte loop over a register box: advance both counters by one on an accepted non-final byte, leave on the
    accepted final byte, otherwise hold.  DLEN: register holding the descriptor length (block handler) or None when the length
    is the elaboration constant `fixed` (stream generator)."""
    bad = None
    n = 0
    posw = ir.signals[POS].w
    for pos in (range(min(1 << posw, 10)) if DLEN else range(fixed)):
        for dl in (range(pos + 1, 12) if DLEN else (fixed,)):
            for sent in range(0, 6):
                for ln in range(sent + 1, 8):
                    for rdy in (0, 1):
                        en = dict(base_env)
                        en.update({POS: pos, SENT: sent, L: ln, TX + '.ready': rdy})
                        if DLEN:
                            en[DLEN] = dl
                        ev = Ev(ir, en, S)
                        last = (pos == dl - 1) or (sent + 1 >= ln)
                        regs = step_regs(ev, ir)
                        nxt = ev.next_state(fsm)
                        want = (pos + 1, sent + 1) if (rdy and not last) else (pos, sent)
                        got = (regs.get(POS, pos), regs.get(SENT, sent))
                        v, la = ev.drive(TX + '.valid', 0), ev.drive(TX + '.last', 0)
                        n += 1
                        if ((nxt != S) != bool(rdy and last) or got != want or not v or bool(la) != last) and bad is None:
                            bad = {'position': pos, 'length': dl, 'sent': sent, 'packet': ln, 'ready': rdy, 'next': nxt, 'regs': got, 'valid': v, 'last': la}
    ctx.ob('C09.send-loop', C + '.byte-loop' + tag, bad is None and n > 100, fsm.state_loc[S],
           'while sending: valid is held; last marks the final byte (end of descriptor or of the packet); an accepted non-final byte '
           'advances position and byte count by one, the accepted final byte leaves the state, anything else holds; differs at %s [%d valuations]' % (bad, n))


# ------------------------------------------------------------------------------------------------ block-RAM-free handler
def distributed(ctx, mps, cname, full):
    coll = COLLS[cname]
    tag = '@mps%d/%s' % (mps, cname)
    C = 'GetDescriptorHandlerDistributed'
    ir = ctx.ir(C, 'usb2.descriptor', descriptor_collection=coll, max_packet_length=mps)
    L = two_arm_min(ctx, ir, C, mps, tag, False)
    gens = [s for s in ir.submodules if s.obj.clsname == 'USBDescriptorStreamGenerator']
    ctx.need(len(gens) == len(coll), C + ': one stream generator per descriptor')
    want = {(t << 8) | i: raw for t, i, raw in coll}
    # which generator serves which wValue: the one started under that value
    key_of = {}
    starts = {}
    for g in gens:
        P = g.obj.path
        ds = ir.drivers(P + '.start', exact=True)
        ctx.need(len(ds) == 1, '%s: one start driver of %s' % (C, P))
        starts[P] = ds[0]
        ks = [k for k, pol in q.guard_consts(ds[0], 'self.value').items() if pol]
        ctx.need(len(ks) == 1, '%s: %s is started under one Case of wValue' % (C, P))
        key_of[P] = ks[0]
    data_ok = all(g.obj.attrs.get('_data') == want.get(key_of[g.obj.path]) for g in gens) and len(set(key_of.values())) == len(want)
    ctx.ob('C09.generator-data', C + '.generators' + tag, data_ok and set(key_of.values()) == set(want), None,
           'the generator selected by (type << 8 | index) holds exactly that descriptor\'s bytes: keys %s' % sorted(map(hex, key_of.values())))
    for g in gens:
        P = g.obj.path
        for port, src in (('max_length', L), ('start_position', 'self.start_position')):
            d = ir.drivers('%s.%s' % (P, port), exact=True)
            if not (len(d) == 1 and not d[0].guard and d[0].rhs.canon() == src and d[0].domain == 'comb'):
                ctx.ob('C09.generator-wiring', '%s.generator.%s%s' % (C, port, tag), False, d[0].loc if d else None, '%s.%s must be driven by %s' % (P, port, src))
    ctx.ob('C09.generator-wiring', C + '.generator.ports' + tag, True, None, 'every generator gets the packet length and the start position')
    # all wValue: data / start only from the matching generator, stall = start only when nothing matches
    bad = None
    vals = range(65536) if full else sorted(set(want) | {k ^ 1 for k in want} | {k ^ 0x100 for k in want} | {k + 1 for k in want} | set(range(0, 65536, 97)))
    by_key = {k: P for P, k in key_of.items()}
    for v in vals:
        v &= 0xFFFF
        for st in (0, 1):
            env = {'self.value': v, 'self.start': st, 'self.tx.ready': 1, 'self.length': 64, 'self.start_position': 0}
            for g in gens:
                P = g.obj.path
                env.update({P + '.stream.valid': 1, P + '.stream.last': 0, P + '.stream.first': 1, P + '.stream.payload': 1 + gens.index(g)})
            ev = Ev(ir, env)
            stall, valid, pl = ev.drive('self.stall', 0), ev.drive('self.tx.valid', 0), ev.drive('self.tx.payload', 0)
            started = {P for P in key_of if ev.active(starts[P]) and ev.ev(starts[P].rhs)}
            rdy = {P for P in key_of if ev.drive(P + '.stream.ready', 0)}
            if v in want:
                P = by_key.get(v)
                ok = P is not None and not stall and valid and pl == 1 + [g.obj.path for g in gens].index(P) and started == ({P} if st else set()) and rdy == {P}
            else:
                ok = stall == st and not valid and not started and not rdy
            if not ok and bad is None:
                bad = {'wValue': hex(v), 'start': st, 'stall': stall, 'tx.valid': valid, 'started': sorted(started)}
    ctx.ob('C09.exists-decision', C + '.switch' + tag, bad is None, None,
           'for every wValue: an existing descriptor connects and starts exactly its generator and never stalls; any other value stalls '
           'on start and drives no data; differs at %s [%d wValue x start]' % (bad, 2 * len(vals)))
    # (d) the sink of the continuation offset
    narrow = []
    for g in gens:
        si = ir.signals.get(g.obj.path + '.start_position')
        n = g.obj.attrs.get('_data_length')
        ctx.need(isinstance(n, int), C + ': generator data length')
        if n and n % mps == 0 and (si is None or si.w is None or not ((1 << si.w) > n)):
            narrow.append((hex(key_of[g.obj.path]), n, getattr(si, 'w', None)))
    ctx.ob('C09.offset-lossless', C + '.generator.start_position', not narrow, None,
           'the continuation offset is wired into a port that cannot hold the descriptor length: (wValue, descriptor length, port bits) = %s; '
           'when the length is a multiple of the packet size (8/16/32/64) and wLength is larger, the request after the last full packet '
           'has start_position == length, the port truncates it (to 0 for power-of-two lengths) and the descriptor is sent again '
           'instead of a zero-length packet' % narrow[:4])
    return ir


def generator(ctx, lengths):
    """ConstantStreamGenerator as instantiated by USBDescriptorStreamGenerator (8-bit data, 16-bit max_length, usb domain)."""
    C = 'ConstantStreamGenerator'
    narrow, bad_zlp, bad_start, bad_idle = [], None, None, None
    for n in lengths:
        ir = ctx.ir('USBDescriptorStreamGenerator', 'usb2.descriptor', data=_mk(n, n))
        fsm = ctx.the_fsm(ir)
        si = ir.signals.get('self.start_position')
        ctx.need(si is not None and si.w is not None, C + '.start_position width')
        if n % min(MPS) == 0 and not ((1 << si.w) > n):       # only lengths that can be a whole number of packets matter
            narrow.append((n, si.w, si.shape_src))
        init = fsm.init
        oe = fsm.out_edges(init)
        ctx.need(len(oe) == 1, C + ': one edge out of idle')
        S = oe[0].dst
        posl = [a for a in ir.assigns if a.domain != 'comb' and q.state_of(a) == init and a.lhs.op == 'sig' and
                'self.start_position' in q.support(ir, a.rhs)]
        ctx.need(len(posl) == 1, C + ': position register loaded from start_position in idle')
        POS = posl[0].lhs.args[0].name
        regs = sorted({a.lhs.args[0].name for a in ir.assigns if a.domain != 'comb' and a.lhs.op == 'sig'})
        sent_ = [r for r in regs if r != POS and any(q.state_of(a) == init and q.is_zero(a.rhs) for a in ir.drivers(r, exact=True))]
        ml = [r for r in regs if any(a.rhs.canon() == 'self.max_length' for a in ir.drivers(r, exact=True))]
        ctx.need(len(sent_) == 1 and len(ml) == 1, C + ': byte counter and latched max_length')
        SENT, ML = sent_[0], ml[0]
        base = {r: 0 for r in regs}
        base.update({'self.start': 0, 'self.max_length': 1, 'self.stream.ready': 0, 'self.start_position': 0})
        # idle: for every offset the port could carry if it were wide enough, and start / max_length == 0 or not
        for sp in range(0, n + 1):      # n itself: the offset after a descriptor that filled whole packets
            for st in (0, 1):
                for mlen in (0, 1, 64):
                    ev = Ev(ir, dict(base, **{'self.start_position': sp, 'self.start': st, 'self.max_length': mlen}), init)
                    r = step_regs(ev, ir)
                    nx = ev.next_state(fsm)
                    ok = r.get(POS) == min(sp, n - 1) and r.get(SENT) == 0 and r.get(ML) == mlen and (mlen == 0 or (nx == S) == bool(st)) and (st or nx == init) and \
                        not ev.drive('self.stream.valid', 0)
                    if not ok and bad_idle is None:
                        bad_idle = (n, sp, st, mlen, r, nx)
            # the first beat after a start at this offset
            pos = min(sp, n - 1)
            ev = Ev(ir, dict(base, **{'self.start_position': sp, POS: pos, ML: 8, SENT: 0}), S)
            first, last, valid = ev.drive('self.stream.first', 0), ev.drive('self.stream.last', 0), ev.drive('self.stream.valid', 0)
            if sp >= n:
                if not (valid and last and not first) and bad_zlp is None:
                    bad_zlp = (n, sp, valid, first, last)
            elif not (valid and first) and bad_start is None:
                bad_start = (n, sp, valid, first)
        if n in lengths[:3]:
            send_loop(ctx, ir, fsm, C, '@len%d' % n, S, POS, SENT, ML, 'self.stream', None, n, base)
            pay = ir.drivers('self.stream.payload', exact=True)
            dsig = (pay[0].rhs.sigs() if len(pay) == 1 else set())
            ctx.need(len(dsig) == 1, C + ': payload comes from the ROM read port')
            ADDR = dsig.pop().rsplit('.', 1)[0] + '.addr'
            bad_a = None
            for pos in range(n):
                for rdy, sent, mlen in ((0, 0, 8), (1, 0, 8), (1, 0, 1)):
                    ev = Ev(ir, dict(base, **{POS: pos, SENT: sent, ML: mlen, 'self.stream.ready': rdy}), S)
                    adv = rdy and not (pos == n - 1 or sent + 1 >= mlen)
                    if ev.drive(ADDR, 0) != pos + (1 if adv else 0) and bad_a is None:
                        bad_a = (pos, rdy, ev.drive(ADDR, 0))
            for sp in range(n):
                ev = Ev(ir, dict(base, **{'self.start_position': sp}), init)
                if ev.drive(ADDR, 0) != sp and bad_a is None:
                    bad_a = ('idle', sp, ev.drive(ADDR, 0))
            rom = [s for s in ir.submodules if s.name == 'rom']
            ok = bad_a is None and len(rom) == 1 and rom[0].obj.kwargs.get('init') == _mk(n, n) and rom[0].obj.kwargs.get('shape') == 8
            ctx.ob('C09.rom-layout', C + '.rom-address@len%d' % n, ok, pay[0].loc,
                   'the ROM is initialised with the descriptor bytes and addressed with the position of the byte presented next: %s' % (bad_a,))
    ctx.ob('C09.offset-lossless', C + '.start_position', not narrow, None,
           'start_position is declared %s: for power-of-two data lengths it cannot hold the data length itself, the value wraps and the '
           'clamp below it (start_position >= length -> last byte, sent as last-without-first = ZLP) can never fire; '
           '(length, bits) = %s' % (narrow[0][2] if narrow else '', [(a, b) for a, b, _ in narrow][:8]))
    ctx.ob('C09.zlp-path', C + '.offset-at-end', bad_zlp is None, None,
           'an offset at or beyond the end of the data must give one beat with last and without first (a zero-length packet); '
           '(length, offset, valid, first, last) = %s' % (bad_zlp,))
    ctx.ob('C09.first-byte', C + '.stream.first', bad_start is None, None, 'the beat at position == start_position carries first: %s' % (bad_start,))
    ctx.ob('C09.send-entry', C + '.idle', bad_idle is None, None,
           'idle loads position = min(start_position, length - 1), clears the byte count, latches max_length, starts on start (for a '
           'non-zero max_length) and only on start, driving no data: (length, offset, start, max_length, registers, next) = %s' % (bad_idle,))


# ------------------------------------------------------------------------------------------------ multiplexer of handlers
def mux(ctx):
    C = 'GetDescriptorHandlerMux'
    ir = ctx.ir(C, 'usb2.descriptor')
    H = 'self._handlers[*].'
    for port in ('value', 'length', 'start', 'start_position'):
        d = ir.drivers(H + port, exact=True)
        ctx.ob('C09.mux-forward', '%s.handler.%s' % (C, port), len(d) == 1 and not d[0].guard and d[0].rhs.canon() == 'self.' + port, d[0].loc if d else None,
               'every handler sees the request: %s' % [q.fmt(a) for a in d])
    st = ir.drivers('self.stall', exact=True)
    ctx.need(len(st) == 1 and not st[0].guard and st[0].rhs.op == 'sig', C + ': stall driven from the per-handler stalled flags')
    flag = st[0].rhs.args[0].name
    fd = ir.drivers(flag, exact=True)
    latch = sorted(fd[0].rhs.sigs() - {H + 'stall', 'self.start'}) if len(fd) == 1 else []
    ctx.need(len(latch) == 1, C + ': stalled flag = handler.stall | latch')
    bad = None
    sets = [a for a in ir.drivers(latch[0], exact=True)]
    for hs in (0, 1):
        for lt in (0, 1):
            for start in (0, 1):
                env = {H + 'stall': hs, latch[0]: lt, 'self.start': start}
                ev = Ev(ir, env)
                fl = ev.drive(flag, 0)
                env2 = dict(env, **{flag: fl})
                for other in (0, 1):            # all other handlers stalled or not: stall = all(flags)
                    stall = int(fl and other)
                    ev2 = Ev(ir, dict(env2, **{'self.stall': stall}))
                    nxt = step_regs(ev2, ir).get(latch[0], lt)
                    want = 1 if (hs and not stall) else 0 if (start or stall) else lt
                    # the latch is cleared only at the END of a start cycle: a stall remembered from the previous request
                    # must not count in the start cycle of the next one (it would meet the combinational stall of the
                    # other handler there and stall a request for a descriptor that exists)
                    if (fl != (hs | (lt and not start)) or nxt != want) and bad is None:
                        bad = {'handler.stall': hs, 'latch': lt, 'start': start, 'mux.stall': stall, 'flag': fl, 'next latch': nxt}
    ctx.ob('C09.mux-stall', C + '.stall-latch', bad is None and len(sets) == 2, sets[0].loc if sets else None,
           'a handler counts as stalled from its stall pulse (remembered in a latch; the set wins over the clear on start) until the '
           'multiplexer itself stalls or the next start -- and a latch left over from the previous request does not count in the '
           'start cycle itself: %s' % (bad,))
    # .all() is folded away by the extractor for a single symbolic handler: read the reduction off the source
    _, fn = ctx.func(C, 'elaborate')
    red = [n.args[0] for n in ast.walk(fn) if isinstance(n, ast.Call) and isinstance(n.func, ast.Attribute) and n.func.attr == 'eq' and n.args and
           isinstance(n.func.value, ast.Attribute) and n.func.value.attr == 'stall' and isinstance(n.func.value.value, ast.Name) and n.func.value.value.id == 'self']
    ctx.need(len(red) == 1 and isinstance(red[0], ast.Call) and isinstance(red[0].func, ast.Attribute) and red[0].func.attr in ('all', 'any'),
             C + ': stall is a reduction (.all()/.any()) of the stalled flags')
    ctx.ob('C09.mux-stall', C + '.stall-reduction', red[0].func.attr == 'all', st[0].loc,
           'the multiplexer may stall only when ALL handlers have stalled (a descriptor known to one handler must not be stalled): .%s()' % red[0].func.attr)
    tm = [s for s in ir.submodules if isinstance(getattr(s, 'obj', None), object) and getattr(s.obj, 'clsname', None) == 'OneHotMultiplexer']
    kw = tm[0].obj.kwargs if tm else {}
    ok = bool(tm) and set(kw.get('or_signals', ())) >= {'valid', 'first', 'last'} and 'payload' in (tuple(kw.get('mux_signals', ())) + tuple(kw.get('or_signals', ()))) \
        and 'ready' in kw.get('pass_signals', ())
    ctx.ob('C09.mux-forward', C + '.tx-merge', ok, tm[0].loc if tm else None, 'valid/first/last/payload of the handlers are merged, ready is passed back: %s' % {k: v for k, v in kw.items() if k.endswith('signals')})
    T = tm[0].name if tm else 'tx_mux'
    for f in ('valid', 'first', 'last', 'payload'):
        d = ir.drivers('self.tx.' + f, exact=True)
        ctx.ob('C09.mux-forward', '%s.tx.%s' % (C, f), len(d) == 1 and not d[0].guard and d[0].rhs.canon() == '%s.output.%s' % (T, f), d[0].loc if d else None, 'tx.%s comes from the merged stream' % f)


# ------------------------------------------------------------------------------------------------ (c) the request handler
def request_handler(ctx, mps, variant):
    C = 'StandardRequestHandler'
    tag = '@mps%d/%s' % (mps, variant)
    kw = {'max_packet_size': mps}
    if variant == 'distributed':
        kw['avoid_blockram'] = True
    elif variant == 'block':
        kw.update(avoid_blockram=False, descriptors=COLLS['dense'])
    else:
        kw['avoid_blockram'] = False
    ir = ctx.ir(C, 'request.standard', **kw)
    fsm = ctx.the_fsm(ir)
    init = fsm.init
    vd = [a for a in ir.assigns if a.rhs.canon() == I + 'setup.value' and a.lhs.canon().endswith('.value')]
    ctx.need(len(vd) == 1, C + ': the descriptor handler (its value port is fed from setup.value)')
    P = vd[0].lhs.canon()[:-len('value')]
    sub = [s for s in ir.submodules if s.name == 'get_descriptor']
    ctx.need(len(sub) == 1, C + ': get_descriptor submodule')
    cls = sub[0].obj.clsname
    want_cls = {'distributed': 'GetDescriptorHandlerDistributed', 'block': 'GetDescriptorHandlerBlock', 'mux': 'GetDescriptorHandlerMux'}[variant]
    same = cls == want_cls and (variant == 'mux' or sub[0].obj.kwargs.get('max_packet_length') == mps)
    ctx.ob('C09.handler-config', C + '.get_descriptor' + tag, same, sub[0].loc,
           'the handler is a %s built with max_packet_length = max_packet_size (%d): %s %s' % (want_cls, mps, cls, {k: v for k, v in sub[0].obj.kwargs.items() if isinstance(v, int)}))
    if variant == 'mux':
        # the multiplexer only merges: every handler it was given must itself cut the data stage into max_packet_size packets
        kids = sub[0].obj.attrs.get('_handlers') if hasattr(sub[0].obj, 'attrs') else None
        ctx.need(isinstance(kids, list) and len(kids) >= 2 and all(hasattr(k, 'kwargs') for k in kids),
                 C + ': the handlers registered with the descriptor multiplexer')
        for k in kids:
            ctx.ob('C09.handler-config', '%s.get_descriptor.%s%s' % (C, k.clsname, tag), k.kwargs.get('max_packet_length') == mps, k.loc or sub[0].loc,
                   'the %s behind the multiplexer must be built with max_packet_length = max_packet_size (%d), otherwise its packets exceed '
                   'the endpoint size while start_position advances by %d: got %s' % (k.clsname, mps, mps, {a: b for a, b in k.kwargs.items() if isinstance(b, int)} or 'the default'))
    for port, src in (('value', 'setup.value'), ('length', 'setup.length')):
        d = ir.drivers(P + port, exact=True)
        ctx.ob('C09.request-wiring', '%s.handler.%s%s' % (C, port, tag), len(d) == 1 and not d[0].guard and d[0].rhs.canon() == I + src and d[0].state is None,
               d[0].loc if d else None, 'handler.%s <= %s always' % (port, src))
    sts = q.raises(ir, P + 'start')
    ctx.need(len(sts) == 1 and sts[0].state, C + ': the state that starts the descriptor handler')
    G = q.state_of(sts[0])
    wrap = {x for x in q.atoms(sts[0]) if x[0].endswith('setup.type')}          # the `setup.type == STANDARD` wrapper of the whole FSM
    core = lambda a: q.atoms(a) - wrap
    ine = fsm.in_edges(G)
    ok = bool(ine) and all(e.src == init and q.has(e, I + 'setup.received') and q.guard_consts(e, I + 'setup.request').get(GET_DESCRIPTOR) is True for e in ine)
    ctx.ob('C09.entry', C + '.get-descriptor.entry' + tag, ok, ine[0].loc if ine else None, 'entered only from idle on a received SETUP with bRequest == 6: %s' % [q.fmt(e)[:200] for e in ine])
    EXP = [a.lhs.canon() for a in ir.assigns if a.domain != 'comb' and q.state_of(a) == G and q.is_one(a.rhs) and core(a) == core(sts[0])]
    ctx.need(len(EXP) == 1, C + ': the expecting-ack flag (set together with start)')
    EXP = EXP[0]
    ctx.ob('C09.start-per-token', C + '.handler.start' + tag, core(sts[0]) == {(I + 'data_requested', True)} and q.is_one(sts[0].rhs), sts[0].loc,
           'the handler is started exactly once per IN token of the data stage (data_requested): %s' % q.fmt(sts[0])[:200])
    sp = ir.drivers(P + 'start_position', exact=True)
    clr = [a for a in sp if q.is_zero(a.rhs)]
    adv = [a for a in sp if not q.is_zero(a.rhs)]
    ok = len(clr) == 1 and q.state_of(clr[0]) == init and not core(clr[0]) and clr[0].domain != 'comb'
    ctx.ob('C09.offset-clear', C + '.start_position.clear' + tag, ok, clr[0].loc if clr else None,
           'start_position is cleared (unconditionally) in the idle state every request starts from: %s' % [q.fmt(a)[:160] for a in clr])
    ACK = {(I + 'handshakes_in.ack', True), (EXP, True)}
    ok = len(adv) == 1 and q.state_of(adv[0]) == G and core(adv[0]) == ACK and adv[0].domain != 'comb'
    if ok:
        w = getattr(ir.signals.get(P + 'start_position'), 'w', None) or 11
        ok = all(Ev(ir, {P + 'start_position': x}).ev(adv[0].rhs) == x + mps for x in range(1 << w))
    ctx.ob('C09.offset-advance', C + '.start_position.advance' + tag, ok, adv[0].loc if adv else None,
           'start_position advances by exactly max_packet_size (%d) under handshakes_in.ack & expecting_ack, only in the GET_DESCRIPTOR state: %s' % (mps, [q.fmt(a)[:200] for a in adv]))
    pid = ir.drivers(I + 'tx_data_pid', exact=True)
    tog = [a for a in pid if q.state_of(a) == G]
    ok = len(tog) == 1 and core(tog[0]) == ACK and tog[0].rhs.canon() == '~' + I + 'tx_data_pid'
    ctx.ob('C09.pid-toggle', C + '.tx_data_pid.toggle' + tag, ok, tog[0].loc if tog else None, 'the data PID toggles with every advance: %s' % [q.fmt(a)[:160] for a in tog])
    p1 = [a for a in pid if q.state_of(a) == init]
    ctx.ob('C09.pid-toggle', C + '.tx_data_pid.data1' + tag, len(p1) == 1 and q.is_one(p1[0].rhs) and not core(p1[0]), p1[0].loc if p1 else None, 'the data stage starts with DATA1')
    ex = ir.drivers(EXP, exact=True)
    ok = any(q.is_zero(a.rhs) and core(a) == ACK and q.state_of(a) == G for a in ex)
    ctx.ob('C09.offset-advance', C + '.expecting_ack.consume' + tag, ok, ex[0].loc, 'one ACK advances once: expecting_ack is cleared by the advance')
    go = state_outcomes(fsm, G, {I + 'status_requested': True, P + 'stall': False})
    hold = state_outcomes(fsm, G, {I + 'status_requested': False, P + 'stall': False})
    ak = [a for a in q.raises(ir, I + 'handshakes_out.ack') if q.state_of(a) == G]
    ok = set(go) == {init} and set(hold) == {None} and len(ak) == 1 and core(ak[0]) == {(I + 'status_requested', True)}
    ctx.ob('C09.leave-on-status', C + '.get-descriptor.exit' + tag, ok, fsm.state_loc[G], 'stays for the whole data stage, ACKs the status stage and returns to idle: go=%s hold=%s' % (sorted(map(str, go)), sorted(map(str, hold))))
    for lhs, rhs in ((I + 'tx.valid', P + 'tx.valid'), (I + 'tx.first', P + 'tx.first'), (I + 'tx.last', P + 'tx.last'), (I + 'tx.payload', P + 'tx.payload'),
                     (P + 'tx.ready', I + 'tx.ready'), (I + 'handshakes_out.stall', P + 'stall')):
        d = [a for a in ir.drivers(lhs, exact=True) if q.state_of(a) == G]
        ctx.ob('C09.request-wiring', '%s.%s%s' % (C, lhs.replace(I, 'interface.').replace(P, 'handler.'), tag), len(d) == 1 and not core(d[0]) and d[0].rhs.canon() == rhs,
               d[0].loc if d else None, '%s <= %s throughout the GET_DESCRIPTOR state' % (lhs, rhs))
    so = state_outcomes(fsm, G, {P + 'stall': True, I + 'status_requested': False})
    ctx.ob('C09.stall-no-data', C + '.get-descriptor.stall-exit' + tag, set(so) == {init}, fsm.state_loc[G], 'a stalled request is over: back to idle (which clears the offset): %s' % sorted(map(str, so)))


# ------------------------------------------------------------------------------------------------
def run(ctx):
    thorough = ctx.tier == 'thorough'
    W = analyse_writer(ctx)
    cfgs = [(64, 'dense'), (8, 'sparse')]
    if thorough:
        cfgs = [(m, 'dense') for m in MPS] + [(64, 'sparse'), (8, 'sparse'), (16, 'big'), (32, 'big')]
    for m, c in cfgs:
        block(ctx, W, m, c, True)            # all 65536 wValue in both tiers
        distributed(ctx, m, c, True)
    lens = [8, 18, 64] + ([n for n in range(1, 131) if n not in (8, 18, 64)] + [192, 255, 256, 300, 512] if thorough else [1, 9, 16, 24, 32, 100, 128])
    generator(ctx, lens)
    mux(ctx)
    for m in (MPS if thorough else (64, 8)):
        for v in ('distributed', 'block', 'mux'):
            request_handler(ctx, m, v)
