"""C57 -- the USB serial (CDC-ACM) device carries bytes both ways and answers CDC requests."""
import ast
import itertools

from ..ir import E, Obj, AnalysisError
from .. import q
from ..interp import Env, extract
from ..values import FuncRef, pval

TITLE = 'USB serial device composition'
FLOOR = 40
DECIDES = ('Composition of USBSerialDevice, each clause a necessary condition: (a) the endpoint descriptors written by '
           'create_descriptors (its AST, every field folded with the constructor configuration) declare exactly one bulk IN and one '
           'bulk OUT endpoint in the CDC-data interface, whose numbers/directions equal those of the stream endpoints wired to tx / rx '
           '(roles found through the wiring, directions through what the endpoint class does), with a packet size the endpoint '
           'respects; every other registered endpoint is declared with its number and direction, every declared endpoint is '
           'registered, no two registered endpoints share (number, direction); union / call-management descriptors name the '
           'interfaces that really hold the functional descriptors and the bulk endpoints, with the CDC / ACM / CDC-data class codes; '
           '(b) one-cycle truth table of ACMRequestHandlers over ALL values of setup.type x setup.request x the strobes it reads: it '
           'claims exactly for type == CLASS(1) & request == SET_LINE_CODING(0x20); while claiming it requests ACK exactly on '
           'rx_ready_for_response, sends a ZLP (tx.valid & tx.last, no first) exactly on status_requested and never STALLs / NAKs; '
           'the multiplexer broadcasts setup, rx_ready_for_response and the stage strobes to every handler; (c) truth table of the '
           'claim outputs of ALL handlers registered on the control endpoint (the stall handler evaluated with its actual condition '
           'lambda) over type x request: STANDARD requests are claimed by the standard handler alone, CLASS/SET_LINE_CODING by the '
           'ACM handler alone, every other CLASS request and every VENDOR / RESERVED request is either claimed by nobody -- then the '
           'multiplexer fallback answers, which must be the default, unconditional StallOnlyRequestHandler (no custom fallback on '
           'the control endpoint) -- or by exactly one handler that STALLs at the data and the status stage and does nothing else '
           '(routing by the claim encoder itself: C10); (d) rx.payload/valid come from, and rx.ready goes to, the stream of a '
           'registered OUT endpoint, every tx field the IN transfer logic reads (payload, valid, last) comes from tx and tx.ready '
           'from a registered IN endpoint, connect drives the device connect, each through a single unconditional driver; control, '
           'IN and OUT endpoints are all registered with the USBDevice submodule; (e) the bus given to the constructor is the bus of '
           'USBDevice and of its control endpoint, the descriptors given to the standard handler are those of create_descriptors, '
           'every registered endpoint class compares the token endpoint with exactly the endpoint_number it is constructed with; '
           'the control endpoint is built with the max packet size the device descriptor announces as bMaxPacketSize0; the device '
           'clauses are evaluated for the default configuration and for max_packet_size 512 (thorough tier: 256 too). ')
NOT_DECIDED = ('enumeration behaviour itself (control transfer stages C07, address / configuration C08, GET_DESCRIPTOR C09, STALL of '
               'unsupported standard requests and the routing of the request multiplexer C10); byte order and exactly-once delivery '
               'through the endpoints and FIFOs (bulk IN C11, bulk OUT C13, data toggles C14, FIFO C18, endpoint isolation C12); '
               'behaviour under stream back-pressure patterns; the contents of the line coding (ignored by design); string / device '
               'descriptor contents; whether the explicitly added VENDOR/RESERVED StallOnlyRequestHandler has any effect (it never '
               'claims, so on this tree the multiplexer fallback is what STALLs those requests).')

CLASS, SET_LINE_CODING = 1, 0x20           # [USB2.0: 9.3 bmRequestType.type], [CDC PSTN 1.2: 6.3.10]
EP_DEFAULT_ATTR, EP_DEFAULT_WMAX = 2, 64   # defaults of usb_protocol's EndpointDescriptor (bulk, 64)
I = 'self.interface.'
TYPE, REQ = I + 'setup.type', I + 'setup.request'
ENUM_LIMIT = 1 << 20


# ------------------------------------------------------------------------------------------ one-cycle evaluation
class Undecided(Exception):
    pass


def ev(e, env):
    """Value of an extracted expression under an assignment of the signals it reads (ints)."""
    if not isinstance(e, E):
        if isinstance(e, (int, bool)):
            return int(e)
        raise Undecided(repr(e))
    op = e.op
    if op == 'const':
        return int(e.val)
    if op == 'sig':
        n = e.args[0].name
        if n in env:
            return env[n]
        raise Undecided(n)
    if op in ('==', '!=', '<', '<=', '>', '>='):
        a, b = ev(e.args[0], env), ev(e.args[1], env)
        return int({'==': a == b, '!=': a != b, '<': a < b, '<=': a <= b, '>': a > b, '>=': a >= b}[op])
    if op in ('&', '|', '^'):
        vals = [ev(a, env) for a in e.args]
        r = vals[0]
        for v in vals[1:]:
            r = (r & v) if op == '&' else (r | v) if op == '|' else (r ^ v)
        return r
    if op == '~':
        w = e.args[0].w if isinstance(e.args[0], E) and e.args[0].w else 1
        return (~ev(e.args[0], env)) & ((1 << w) - 1)
    if op == 'slice':
        x, lo, hi = e.args
        return (ev(x, env) >> lo) & ((1 << (hi - lo)) - 1)
    if op == 'mux':
        return ev(e.args[1], env) if ev(e.args[0], env) else ev(e.args[2], env)
    raise Undecided(e.canon())


def guard_true(a, env):
    for l in a.guard:
        if l.kind == 'cfg':
            raise Undecided('configuration-dependent guard ' + l.canon())
        if bool(ev(l.e, env)) != l.pos:
            return False
    return True


_DRV = {}


def value(ir, name, env, init=0):
    """Value of a combinationally driven signal in one cycle: reset value, then the last assignment whose guard holds wins."""
    v = init
    key = (id(ir), name)
    if key not in _DRV:
        _DRV[key] = sorted(ir.drivers(name, exact=True), key=lambda a: a.order)
    for a in _DRV[key]:
        if a.domain != 'comb':
            raise Undecided('%s is not a plain combinational output: %s' % (name, q.fmt(a)))
        if a.state is not None:
            # a handler with internal state: the caller says which state to evaluate ('$state': {fsm id: state})
            if '$state' not in env:
                raise Undecided('%s is not a plain combinational output: %s' % (name, q.fmt(a)))
            if env['$state'].get(a.state[0]) != a.state[1]:
                continue
        if guard_true(a, env):
            v = ev(a.rhs, env)
    return v


def read_sigs(ir, names):
    """{signal: width} read by the drivers of `names` (guards and right-hand sides)."""
    out = {}
    for n in names:
        for a in ir.drivers(n, exact=True):
            es = [l.e for l in a.guard] + [a.rhs]
            for e in es:
                if isinstance(e, E):
                    for x in e.walk():
                        if x.op == 'sig':
                            out[x.args[0].name] = x.w or x.args[0].w
    return out


def valuations(ctx, what, sigs, fixed=None):
    """All assignments of `sigs` {name: width}; `fixed` {name: iterable} restricts some."""
    names = sorted(sigs)
    doms = []
    n = 1
    for s in names:
        if fixed and s in fixed:
            d = list(fixed[s])
        else:
            w = sigs[s]
            ctx.need(isinstance(w, int) and 1 <= w <= 8, 'width of %s read by %s (%r)' % (s, what, w))
            d = list(range(1 << w))
        n *= len(d)
        doms.append(d)
    ctx.need(n <= ENUM_LIMIT, 'truth table of %s small enough (%d rows over %s)' % (what, n, names))
    for vals in itertools.product(*doms):
        yield dict(zip(names, vals))


# ------------------------------------------------------------------------------------------ object helpers
def owner(ctx, e):
    """The elaboratable object (registered endpoint / submodule) a port expression belongs to."""
    if not (isinstance(e, E) and e.op == 'sig'):
        return None
    o = e.args[0].parent
    while o is not None:
        if isinstance(o, Obj) and o.cls is not None and o.leaf != 'self' and ctx.index.find_method(o.cls, 'elaborate'):
            return o
        o = getattr(o, 'parent', None)
    return None


def registry_attr(ctx, clsname, method, mod=None):
    """Name of the self.<attr> a public registration method appends to / assigns (add_endpoint, add_interface, ...)."""
    cls, fn = ctx.func(clsname, method, mod)
    names = set()
    for n in ast.walk(fn):
        t = None
        if isinstance(n, ast.Call) and isinstance(n.func, ast.Attribute) and n.func.attr in ('append', 'extend', 'add'):
            t = n.func.value
        elif isinstance(n, ast.Assign) and len(n.targets) == 1:
            t = n.targets[0]
        if isinstance(t, ast.Attribute) and isinstance(t.value, ast.Name) and t.value.id == fn.args.args[0].arg:
            names.add(t.attr)
    ctx.need(len(names) == 1, 'the attribute filled by %s.%s (%s)' % (clsname, method, sorted(names)))
    return names.pop()


def plain(a):
    """single-driver discipline: combinational, outside any If / Switch / FSM state."""
    return a.domain == 'comb' and not a.guard and a.state is None


def ctor_kwargs(ctx, obj):
    cls, fn = ctx.func(obj.clsname, '__init__')
    names = [a.arg for a in fn.args.args][1:]
    args = list(getattr(obj, 'args', []) or [])
    ctx.need(len(args) <= len(names), 'positional constructor arguments of %s' % obj.clsname)
    kw = dict(zip(names, args))
    kw.update(obj.kwargs or {})
    return kw


def class_ir(ctx, obj):
    """IR of the class of a handler / endpoint object with its concrete (int / bool / function) constructor arguments."""
    kw = {}
    fn = False
    for k, v in ctor_kwargs(ctx, obj).items():
        c = pval(v)
        if isinstance(v, FuncRef):
            kw[k] = v
            fn = True
        elif isinstance(c, (int, bool, str)):
            kw[k] = c
    if not fn:
        return ctx.ir(obj.clsname, obj.cls.mod.name, **kw)
    # function-valued arguments (the stall condition): not cacheable by text, extract for this very object
    key = ('C57', id(obj))
    if key not in ctx._irs:
        ir = extract(ctx.index, obj.cls, kw)
        if ir.opaque:
            src, loc, why = ir.opaque[0]
            raise AnalysisError('construct not understood inside %s (%s): %s -- %s' % (obj.clsname, loc, why, src))
        ctx._irs[key] = ir
        ctx.files.add(obj.cls.mod.relpath)
        ctx.classes.add(obj.clsname)
        ctx.assign_sites += len(ir.assigns)
        ctx.helpers += ir.helpers_inlined
    return ctx._irs[key]


def ep_direction(ir):
    """'IN' for an endpoint class that transmits data packets, 'OUT' for one that consumes received data."""
    sends = bool(q.raises(ir, I + 'tx.valid'))
    recvs = bool(ir.readers(I + 'rx.payload'))
    if sends and not recvs:
        return 'IN'
    if recvs and not sends:
        return 'OUT'
    return None


def num(v):
    c = pval(v)
    return c if isinstance(c, int) and not isinstance(c, bool) else None


# ------------------------------------------------------------------------------------------ descriptors (AST)
class Desc:
    def __init__(self, kind, var, line, parent=None):
        self.kind, self.var, self.line, self.parent = kind, var, line, parent
        self.fields = {}
        self.children = []
        self.subs = []

    def all(self, kind):
        out = [self] if self.kind == kind else []
        for c in self.children:
            out += c.all(kind)
        return out


def parse_descriptors(ctx, top, cls, fn):
    """Tree of the descriptors built by create_descriptors, fields folded with the constructor configuration."""
    ip = top.interp
    env = Env(globals_mod=cls.mod)
    ctx.need(fn.args.args and len(fn.args.args) == 1, 'create_descriptors(self)')
    env.vars[fn.args.args[0].arg] = top.self_obj
    root = Desc('root', None, fn.lineno)
    emitters = {}

    def fold(node):
        saved = (ip.curfile, ip.curline)
        try:
            v = ip.eval(node, env)
        finally:
            ip.curfile, ip.curline = saved
        c = pval(v)
        return c if isinstance(c, (int, str)) and not isinstance(c, bool) else None

    def visit(body, stack):
        for st in body:
            if isinstance(st, ast.Expr) and isinstance(st.value, ast.Constant):
                continue
            if isinstance(st, ast.With):
                ctx.need(len(st.items) == 1, 'one context manager per with in create_descriptors (line %d)' % st.lineno)
                it = st.items[0]
                ce = it.context_expr
                ctx.need(isinstance(ce, ast.Call) and isinstance(ce.func, ast.Attribute) and isinstance(ce.func.value, ast.Name)
                         and isinstance(it.optional_vars, ast.Name), 'descriptor context manager at line %d' % st.lineno)
                ctx.need(not ce.args and not ce.keywords, 'descriptor context manager without arguments at line %d' % st.lineno)
                par = [d for d in stack if d.var == ce.func.value.id]
                ctx.need(stack[-1].kind == 'root' or par, 'parent of the descriptor opened at line %d' % st.lineno)
                d = Desc(ce.func.attr, it.optional_vars.id, st.lineno, par[-1] if par else root)
                d.parent.children.append(d)
                visit(st.body, stack + [d])
            elif isinstance(st, ast.Assign) and len(st.targets) == 1 and isinstance(st.targets[0], ast.Attribute) \
                    and isinstance(st.targets[0].value, ast.Name):
                v, attr = st.targets[0].value.id, st.targets[0].attr
                if v in emitters:
                    emitters[v].fields[attr] = (fold(st.value), st.lineno)
                    continue
                tgt = [d for d in stack if d.var == v]
                ctx.need(tgt, 'descriptor written at line %d' % st.lineno)
                tgt[-1].fields[attr] = (fold(st.value), st.lineno)
            elif isinstance(st, ast.Assign) and len(st.targets) == 1 and isinstance(st.targets[0], ast.Name) \
                    and isinstance(st.value, ast.Call):
                f = st.value.func
                name = f.attr if isinstance(f, ast.Attribute) else f.id if isinstance(f, ast.Name) else '?'
                if stack[-1].kind == 'root':
                    root.var = root.var or st.targets[0].id
                else:
                    emitters[st.targets[0].id] = Desc(name, st.targets[0].id, st.lineno)
            elif isinstance(st, ast.Expr) and isinstance(st.value, ast.Call) and isinstance(st.value.func, ast.Attribute) \
                    and st.value.func.attr == 'add_subordinate_descriptor' and isinstance(st.value.func.value, ast.Name) \
                    and len(st.value.args) == 1:
                tgt = [d for d in stack if d.var == st.value.func.value.id]
                ctx.need(tgt, 'descriptor receiving a subordinate at line %d' % st.lineno)
                a = st.value.args[0]
                if isinstance(a, ast.Name) and a.id in emitters:
                    tgt[-1].subs.append(emitters[a.id])
                elif isinstance(a, ast.Call):
                    f = a.func
                    tgt[-1].subs.append(Desc(f.attr if isinstance(f, ast.Attribute) else getattr(f, 'id', '?'), None, st.lineno))
                else:
                    ctx.need(False, 'subordinate descriptor at line %d' % st.lineno)
            elif isinstance(st, ast.Return):
                ctx.need(isinstance(st.value, ast.Name) and st.value.id == root.var and len(stack) == 1,
                         'create_descriptors returns the collection it filled')
            else:
                ctx.need(False, 'statement in create_descriptors not understood (line %d: %s)' % (st.lineno, ast.unparse(st)[:60]))
    visit(fn.body, [root])
    return root


def fld(d, name, default=None):
    v = d.fields.get(name)
    return default if v is None else v[0]


# ------------------------------------------------------------------------------------------ the device
def check_device(ctx, tag, **cfg):
    index = ctx.index
    top = ctx.ir('USBSerialDevice', 'devices.acm', allow_opaque=True, **cfg)
    K = 'USBSerialDevice' + tag
    dcls, dfn = ctx.func('USBSerialDevice', 'create_descriptors', 'devices.acm')
    file = dcls.mod.relpath

    class L:
        def __init__(self, line):
            self.line = line

        def __str__(self):
            return '%s:%s' % (file, self.line)

    # ---- the device core and what is registered with it
    devs = [s for s in top.submodules if isinstance(s.obj, Obj) and s.obj.clsname == 'USBDevice']
    ctx.need(len(devs) == 1, 'exactly one USBDevice submodule of USBSerialDevice (%d)' % len(devs))
    usb = devs[0].obj
    eps = usb.attrs.get(registry_attr(ctx, 'USBDevice', 'add_endpoint', 'usb2.device'))
    ctx.need(isinstance(eps, list) and all(isinstance(e, Obj) and e.cls is not None for e in eps),
             'endpoints registered with the USBDevice (add_endpoint)')
    ctrl = [e for e in eps if e.clsname == 'USBControlEndpoint']
    ctx.ob('C57.registered', K + '.control-endpoint', len(ctrl) == 1, devs[0].loc,
           'exactly one control endpoint is registered with the device: %s' % [e.clsname for e in eps])
    ctx.need(len(ctrl) == 1, 'the control endpoint of the serial device')
    ctrl = ctrl[0]

    # ---- (d) wiring; the data endpoints are found through it
    def fed_by(name):
        return [x for x in top.assigns if isinstance(x.rhs, E) and x.rhs.canon() == name]

    rc = [owner(ctx, x.rhs) for x in top.drivers('self.rx.payload', exact=True)] + [owner(ctx, x.lhs) for x in fed_by('self.rx.ready')]
    tc = [owner(ctx, x.lhs) for x in fed_by('self.tx.payload')] + [owner(ctx, x.rhs) for x in top.drivers('self.tx.ready', exact=True)]
    rc, tc = [o for o in rc if o is not None], [o for o in tc if o is not None]
    ctx.need(rc, 'an endpoint stream connected to USBSerialDevice.rx (payload source or ready sink)')
    ctx.need(tc, 'an endpoint stream connected to USBSerialDevice.tx (payload sink or ready source)')
    rx_ep, tx_ep = rc[0], tc[0]
    ctx.ob('C57.rx-wiring', K + '.rx.one-endpoint', all(o is rx_ep for o in rc), rx_ep.loc,
           'rx is connected to one endpoint object only: %s' % sorted({o.path for o in rc}))
    ctx.ob('C57.tx-wiring', K + '.tx.one-endpoint', all(o is tx_ep for o in tc), tx_ep.loc,
           'tx is connected to one endpoint object only: %s' % sorted({o.path for o in tc}))
    rx_ir, tx_ir = class_ir(ctx, rx_ep), class_ir(ctx, tx_ep)
    rxs, txs = rx_ep.path + '.stream.', tx_ep.path + '.stream.'
    ctx.ob('C57.rx-wiring', K + '.rx.endpoint-direction', ep_direction(rx_ir) == 'OUT' and bool(q.raises(rx_ir, 'self.stream.payload')),
           rx_ep.loc, 'rx is fed by an endpoint that consumes OUT data and produces a stream (%s: %s)' % (rx_ep.clsname, ep_direction(rx_ir)))
    ctx.ob('C57.tx-wiring', K + '.tx.endpoint-direction', ep_direction(tx_ir) == 'IN' and bool(q.raises(tx_ir, 'self.stream.ready')),
           tx_ep.loc, 'tx feeds an endpoint that transmits IN data and consumes a stream (%s: %s)' % (tx_ep.clsname, ep_direction(tx_ir)))
    for f in ('payload', 'valid'):
        d = top.drivers('self.rx.' + f, exact=True)
        ok = len(d) == 1 and plain(d[0]) and d[0].rhs.canon() == rxs + f
        ctx.ob('C57.rx-wiring', K + '.rx.' + f, ok, d[0].loc if d else None,
               'rx.%s has the single unconditional driver %s%s: %s' % (f, rxs, f, [q.fmt(x) for x in d]))
    for f in ('first', 'last'):
        d = top.drivers('self.rx.' + f, exact=True)
        ok = not d or (len(d) == 1 and plain(d[0]) and d[0].rhs.canon() == rxs + f)
        ctx.ob('C57.rx-wiring', K + '.rx.' + f, ok, d[0].loc if d else None,
               'rx.%s, where driven, is the %s of the same endpoint stream: %s' % (f, f, [q.fmt(x) for x in d]))
    d = top.drivers(rxs + 'ready', exact=True)
    ok = len(d) == 1 and plain(d[0]) and d[0].rhs.canon() == 'self.rx.ready'
    ctx.ob('C57.rx-wiring', K + '.rx.ready', ok, d[0].loc if d else rx_ep.loc,
           'the OUT endpoint stream is drained by rx.ready (single unconditional driver): %s' % [q.fmt(x) for x in d])
    # fields of its stream the IN endpoint really uses (followed one level into the transfer logic)
    needed = []
    for f in ('payload', 'valid', 'first', 'last'):
        rd = tx_ir.readers('self.stream.' + f)
        used = False
        for a in rd:
            sub = owner(ctx, a.lhs) if (isinstance(a.rhs, E) and a.rhs.op == 'sig' and plain(a)) else None
            if sub is None:
                used = True
                continue
            port = a.lhs.canon()[len(sub.path) + 1:]
            sir = class_ir(ctx, sub)
            used = used or bool(sir.readers('self.' + port))
        if used:
            needed.append(f)
    ctx.ob('C57.tx-wiring', K + '.tx.fields-used', {'payload', 'valid'} <= set(needed), tx_ep.loc,
           'the IN endpoint logic reads payload and valid of its stream (reads: %s)' % needed)
    for f in ('payload', 'valid', 'first', 'last'):
        d = top.drivers(txs + f, exact=True)
        if f in needed:
            ok = len(d) == 1 and plain(d[0]) and d[0].rhs.canon() == 'self.tx.' + f
        else:
            ok = not d or (len(d) == 1 and plain(d[0]) and d[0].rhs.canon() == 'self.tx.' + f)
        ctx.ob('C57.tx-wiring', K + '.tx.' + f, ok, d[0].loc if d else tx_ep.loc,
               'the IN endpoint stream %s (%s by the transfer logic) has the single unconditional driver tx.%s: %s' % (
                   f, 'read' if f in needed else 'not read', f, [q.fmt(x) for x in d]))
    d = top.drivers('self.tx.ready', exact=True)
    ok = len(d) == 1 and plain(d[0]) and d[0].rhs.canon() == txs + 'ready'
    ctx.ob('C57.tx-wiring', K + '.tx.ready', ok, d[0].loc if d else tx_ep.loc,
           'tx.ready has the single unconditional driver %sready: %s' % (txs, [q.fmt(x) for x in d]))
    cn = usb.attrs.get('connect')
    ctx.need(isinstance(cn, E) and cn.op == 'sig', 'USBDevice.connect')
    d = top.drivers(cn.canon(), exact=True)
    ok = len(d) == 1 and plain(d[0]) and d[0].rhs.canon() == 'self.connect'
    ctx.ob('C57.connect', K + '.connect', ok, d[0].loc if d else devs[0].loc,
           'the device connect input has the single unconditional driver self.connect: %s' % [q.fmt(x) for x in d])
    # the receive FIFO must hold a whole maximum-size packet: bytes become readable only when the packet is committed at
    # its end, so a packet that does not fit is refused (NAK) however fast the consumer is -- forever, for that size
    rkw = ctor_kwargs(ctx, rx_ep)
    bs, rmps = rkw.get('buffer_size'), num(rkw.get('max_packet_size'))
    ok = bs is None or (num(bs) is not None and rmps is not None and num(bs) >= rmps)
    ctx.ob('C57.rx-buffer', K + '.rx-endpoint.buffer_size', ok, rx_ep.loc,
           'the rx endpoint must buffer at least one maximum-size packet (buffer_size %s, max_packet_size %s; the default is '
           '2 * max_packet_size - 1)' % (num(bs) if bs is not None else 'default', rmps))
    for role, ep in (('rx', rx_ep), ('tx', tx_ep)):
        n = sum(1 for e in eps if e is ep)
        ctx.ob('C57.registered', K + '.%s-endpoint' % role, n == 1, ep.loc,
               'the endpoint behind %s (%s) is registered with the device exactly once (add_endpoint): registered %d time(s)' % (role, ep.path, n))

    # ---- numbers / directions of everything registered
    memo = {}

    def info(e):
        if id(e) not in memo:
            memo[id(e)] = info_(e)
        return memo[id(e)]

    def info_(e):
        kw = ctor_kwargs(ctx, e)
        n, mps = num(kw.get('endpoint_number')), num(kw.get('max_packet_size'))
        ctx.need(n is not None and mps is not None, 'endpoint_number / max_packet_size arguments of %s fold to integers' % e.path)
        eir = class_ir(ctx, e)
        dr = ep_direction(eir)
        ctx.need(dr is not None, 'direction of the endpoint class %s' % e.clsname)
        cmp_ = set()
        for a in eir.assigns:
            for x in [l.e for l in a.guard] + [a.rhs]:
                for y in (x.walk() if isinstance(x, E) else ()):
                    ce = q.const_eq(y) if y.op == '==' else None
                    if ce and ce[1] == I + 'tokenizer.endpoint':
                        cmp_.add(ce[0])
        return n, dr, mps, cmp_
    reg = []          # (object, number, direction, max packet size) of the registered non-control endpoints
    extra = 0
    for e in eps + [x for x in (rx_ep, tx_ep) if not any(x is y for y in eps)]:
        if e is ctrl:
            continue
        n_kw, dr, mps, cmp_ = info(e)
        if e is rx_ep or e is tx_ep:
            role = 'rx' if e is rx_ep else 'tx'
        else:
            role, extra = 'other#%d' % extra, extra + 1
        ctx.ob('C57.endpoint-config', K + '.%s.number' % role, cmp_ == {n_kw} and 1 <= n_kw <= 15, e.loc,
               '%s (%s), constructed with endpoint_number=%s, compares the token endpoint with exactly that number: %s' % (e.path, e.clsname, n_kw, sorted(cmp_)))
        if any(e is y for y in eps):
            reg.append((e, n_kw, dr, mps))
    pairs = [(r[1], r[2]) for r in reg]
    ctx.ob('C57.endpoint-config', K + '.distinct-addresses', len(set(pairs)) == len(pairs), devs[0].loc,
           'no two registered endpoints answer the same (number, direction): %s' % pairs)

    # ---- (a) descriptors
    root = parse_descriptors(ctx, top, dcls, dfn)
    ifaces = root.all('InterfaceDescriptor')
    edescs = root.all('EndpointDescriptor')
    ctx.need(ifaces and edescs, 'interface and endpoint descriptors in create_descriptors')
    decl = []
    for e in edescs:
        addr, attr, wmax = fld(e, 'bEndpointAddress'), fld(e, 'bmAttributes', EP_DEFAULT_ATTR), fld(e, 'wMaxPacketSize', EP_DEFAULT_WMAX)
        ctx.need(all(isinstance(x, int) for x in (addr, attr, wmax)),
                 'endpoint descriptor at line %d folds to integers (%r, %r, %r)' % (e.line, addr, attr, wmax))
        decl.append((e, addr & 0x0f, 'IN' if addr & 0x80 else 'OUT', attr & 3, wmax & 0x7ff))
    bulk = {dr: [x for x in decl if x[3] == 2 and x[2] == dr] for dr in ('IN', 'OUT')}
    for dr, role, ep in (('IN', 'tx', tx_ep), ('OUT', 'rx', rx_ep)):
        b = bulk[dr]
        ctx.ob('C57.descriptor-endpoints', K + '.bulk-%s.unique' % dr.lower(), len(b) == 1, L(b[0][0].line if b else dfn.lineno),
               'the configuration declares exactly one bulk %s endpoint (%d)' % (dr, len(b)))
        if len(b) != 1:
            continue
        n, edir, mps = info(ep)[:3]
        ctx.ob('C57.descriptor-endpoints', K + '.bulk-%s.address' % dr.lower(), b[0][1] == n and edir == dr, L(b[0][0].fields['bEndpointAddress'][1]),
               'the bulk %s endpoint descriptor (endpoint %d) names the endpoint wired to %s (endpoint %s %s)' % (dr, b[0][1], role, n, edir))
        ok = mps <= b[0][4] if dr == 'IN' else b[0][4] <= mps
        ctx.ob('C57.descriptor-endpoints', K + '.bulk-%s.packet-size' % dr.lower(), ok, L(b[0][0].line),
               'declared wMaxPacketSize %d vs max_packet_size %d of the %s endpoint (%s)' % (
                   b[0][4], mps, role, 'an IN endpoint must not send more than declared' if dr == 'IN' else 'an OUT endpoint must accept a declared-size packet'))
    for e, n, dr, mps in reg:
        if e is rx_ep or e is tx_ep:
            continue
        m = [x for x in decl if x[1] == n and x[2] == dr]
        ctx.ob('C57.descriptor-endpoints', K + '.extra-endpoint.%s%d' % (dr.lower(), n), len(m) == 1 and m[0][3] != 2 and (dr != 'IN' or mps <= m[0][4]), e.loc,
               'the additional registered endpoint %s (%s %d, max packet %d) is declared once, as a non-bulk endpoint of that number, direction and size: %s' % (
                   e.path, dr, n, mps, [(x[1], x[2], x[3], x[4]) for x in m]))
    for x in decl:
        m = [r for r in reg if r[1] == x[1] and r[2] == x[2]]
        ctx.ob('C57.declared-endpoints-exist', K + '.declared.%s%d' % (x[2].lower(), x[1]), len(m) == 1, L(x[0].line),
               'the declared endpoint %d %s is answered by exactly one registered endpoint (%s)' % (x[1], x[2], [r[0].path for r in m]))
    # interfaces: the bulk endpoints live in the CDC-data interface that the union / call management descriptors name
    if len(bulk['IN']) == 1 and len(bulk['OUT']) == 1:
        di, do = bulk['IN'][0][0].parent, bulk['OUT'][0][0].parent
        ctx.ob('C57.descriptor-interfaces', K + '.data-interface', di is do and di.kind == 'InterfaceDescriptor' and fld(di, 'bInterfaceClass') == 0x0a, L(di.line),
               'both bulk endpoints belong to one interface of class CDC-data (0x0A): class %r' % fld(di, 'bInterfaceClass'))
        comm = [i for i in ifaces if any('Union' in s.kind for s in i.subs)]
        ctx.ob('C57.descriptor-interfaces', K + '.comm-interface', len(comm) == 1 and comm[0] is not di and fld(comm[0], 'bInterfaceClass') == 2 and
               fld(comm[0], 'bInterfaceSubclass') == 2, L(comm[0].line if comm else dfn.lineno),
               'one communications interface (class 2 CDC, subclass 2 ACM) carries the functional descriptors: %s' % [
                   (fld(i, 'bInterfaceNumber'), fld(i, 'bInterfaceClass'), fld(i, 'bInterfaceSubclass')) for i in comm])
        nums = [fld(i, 'bInterfaceNumber') for i in ifaces]
        ctx.ob('C57.descriptor-interfaces', K + '.interface-numbers', all(isinstance(n, int) for n in nums) and sorted(nums) == list(range(len(nums))), L(ifaces[0].line),
               'interfaces are numbered 0..n-1 without repetition: %s' % nums)
        if len(comm) == 1:
            un = [s for s in comm[0].subs if 'Union' in s.kind][0]
            ok = fld(un, 'bControlInterface') == fld(comm[0], 'bInterfaceNumber') and fld(un, 'bSubordinateInterface0') == fld(di, 'bInterfaceNumber')
            ctx.ob('C57.descriptor-interfaces', K + '.union', ok, L(un.line),
                   'the union descriptor names the communications interface as control (%r vs %r) and the data interface as subordinate (%r vs %r)' % (
                       fld(un, 'bControlInterface'), fld(comm[0], 'bInterfaceNumber'), fld(un, 'bSubordinateInterface0'), fld(di, 'bInterfaceNumber')))
            cm = [s for s in comm[0].subs if 'CallManagement' in s.kind]
            if cm:
                ctx.ob('C57.descriptor-interfaces', K + '.call-management', fld(cm[0], 'bDataInterface') == fld(di, 'bInterfaceNumber'), L(cm[0].line),
                       'the call management descriptor names the data interface (%r vs %r)' % (fld(cm[0], 'bDataInterface'), fld(di, 'bInterfaceNumber')))
    cfgs = root.all('ConfigurationDescriptor')
    dd = root.all('DeviceDescriptor')
    ctx.ob('C57.descriptor-interfaces', K + '.one-configuration', len(cfgs) == 1 and len(dd) == 1 and fld(dd[0], 'bNumConfigurations', 1) == 1 and
           all(i.parent is cfgs[0] for i in ifaces), L(cfgs[0].line if cfgs else dfn.lineno),
           'one device descriptor announcing the one configuration that holds all interfaces (bNumConfigurations %r, %d configuration(s))' % (
               fld(dd[0], 'bNumConfigurations', 1) if dd else None, len(cfgs)))

    # ---- (e) bus, descriptors handed over
    bus = top.self_obj.attrs.get('_bus')
    kw = ctor_kwargs(ctx, usb)
    ok = isinstance(bus, E) and bus.op == 'sig' and bus.args[0].kind == 'param' and isinstance(kw.get('bus'), E) and kw['bus'].canon() == bus.canon()
    ctx.ob('C57.bus', K + '.usb.bus', ok, devs[0].loc, 'the bus given to the constructor is the bus of the USBDevice: %r' % kw.get('bus'))
    ck = ctor_kwargs(ctx, ctrl)
    ut = usb.attrs.get('utmi')
    ok = isinstance(ck.get('utmi'), (E, Obj)) and isinstance(ut, (E, Obj)) and (ck['utmi'] is ut or (isinstance(ut, E) and isinstance(ck['utmi'], E) and ck['utmi'].canon() == ut.canon()))
    ctx.ob('C57.bus', K + '.control-endpoint.utmi', ok, ctrl.loc, 'the control endpoint decodes SETUP packets from the UTMI bus of the device: %r vs %r' % (ck.get('utmi'), ut))
    # the control endpoint cuts its data stages into packets of its own max_packet_size; the host cuts them at the
    # bMaxPacketSize0 the device descriptor announces (usb_protocol default: 64) -- the two must agree, whatever packet
    # size the bulk endpoints were configured with
    ep0 = pval(ctrl.attrs.get('_max_packet_size')) if hasattr(ctrl, 'attrs') else None
    if ep0 is None:
        ep0 = pval(ck.get('max_packet_size'))
    announced = fld(dd[0], 'bMaxPacketSize0', 64) if dd else None
    ctx.ob('C57.ep0-packet-size', K + '.control-endpoint.max_packet_size', isinstance(ep0, int) and ep0 == announced, ctrl.loc,
           'the control endpoint is built with max_packet_size %r, the device descriptor announces bMaxPacketSize0 = %r: GET_DESCRIPTOR '
           'data stages longer than one packet are cut at the wrong size and the device does not enumerate' % (ep0, announced))

    handlers = ctrl.attrs.get(registry_attr(ctx, 'USBControlEndpoint', 'add_request_handler', 'usb2.control'))
    ctx.need(isinstance(handlers, list) and all(isinstance(h, Obj) and h.cls is not None for h in handlers), 'request handlers of the control endpoint')
    std = [h for h in handlers if h.clsname == 'StandardRequestHandler']
    acm = [h for h in handlers if h.clsname == 'ACMRequestHandlers']
    ctx.ob('C57.handlers', K + '.standard-handler', len(std) == 1, ctrl.loc, 'one standard request handler is registered: %s' % [h.clsname for h in handlers])
    ctx.ob('C57.handlers', K + '.acm-handler', len(acm) == 1, ctrl.loc, 'one ACM class request handler is registered: %s' % [h.clsname for h in handlers])
    if len(std) != 1 or len(acm) != 1:
        return top          # already a violation; the responder table needs both roles
    ds = ctor_kwargs(ctx, std[0]).get('descriptors')
    ok = isinstance(ds, Obj) and ds.loc is not None and ds.loc.inner[0] == file and dfn.lineno <= ds.loc.inner[1] <= dfn.end_lineno
    ctx.ob('C57.handlers', K + '.standard-handler.descriptors', ok, std[0].loc,
           'the standard handler serves the collection built by create_descriptors (created at %s)' % (ds.loc if isinstance(ds, Obj) else ds))

    # ---- (c) who answers which request: truth table of the claims
    hirs = [class_ir(ctx, h) for h in handlers]
    sigs = {TYPE: 2, REQ: 8}
    for hir in hirs:
        sigs.update(read_sigs(hir, [I + 'claim']))
    ctx.need(sigs[TYPE] == 2 and sigs[REQ] == 8, 'widths of setup.type / setup.request (%s, %s)' % (sigs[TYPE], sigs[REQ]))
    regions = {'STANDARD': [], 'CLASS.SET_LINE_CODING': [], 'CLASS.other': [], 'VENDOR': [], 'RESERVED': []}
    stage_cache = {}

    def stalls_only(i, env):
        """handler i, sole claimer under env: STALL at the data and at the status stage, nothing else."""
        key = (i, tuple(sorted(env.items())))
        if key not in stage_cache:
            hir = hirs[i]
            outs = [I + 'handshakes_out.stall', I + 'handshakes_out.ack', I + 'handshakes_out.nak', I + 'tx.valid']
            rs = read_sigs(hir, outs)
            ok = True
            strobes = (I + 'data_requested', I + 'status_requested')
            extra = {s: w for s, w in rs.items() if s not in env and s not in strobes}
            for stage in strobes:
                for v in valuations(ctx, '%s outputs' % handlers[i].clsname, extra):
                    e2 = dict(env)
                    e2.update(v)
                    e2.update({s: int(s == stage) for s in strobes})
                    ok = ok and [value(hir, o, e2) for o in outs] == [1, 0, 0, 0]
            stage_cache[key] = ok
        return stage_cache[key]
    try:
        for env in valuations(ctx, 'request handler claims', sigs):
            cl = [i for i, hir in enumerate(hirs) if value(hir, I + 'claim', env)]
            t, r = env[TYPE], env[REQ]
            who = [handlers[i].clsname for i in cl]
            if t == 0:
                if not (len(cl) == 1 and handlers[cl[0]] is std[0]):
                    regions['STANDARD'].append((env, who))
            elif t == CLASS and r == SET_LINE_CODING:
                if not (len(cl) == 1 and handlers[cl[0]] is acm[0]):
                    regions['CLASS.SET_LINE_CODING'].append((env, who))
            else:
                name = 'CLASS.other' if t == CLASS else 'VENDOR' if t == 2 else 'RESERVED'
                if cl and not (len(cl) == 1 and stalls_only(cl[0], env)):
                    regions[name].append((env, who))
    except Undecided as ex:
        ctx.need(False, 'claim logic of the registered handlers is a finite combinational function of the setup packet (%s)' % ex)
    want = {'STANDARD': 'claimed by the standard handler alone', 'CLASS.SET_LINE_CODING': 'claimed by the ACM handler alone',
            'CLASS.other': 'left to the STALLing fallback (or claimed by exactly one handler that only STALLs)',
            'VENDOR': 'left to the STALLing fallback (or claimed by exactly one handler that only STALLs)',
            'RESERVED': 'left to the STALLing fallback (or claimed by exactly one handler that only STALLs)'}
    for name, bad in regions.items():
        ctx.ob('C57.one-responder', K + '.requests.' + name, not bad, ctrl.loc,
               'every %s request is %s; %d counterexample(s), first: %s' % (name, want[name], len(bad), (
                   {k.replace(I, ''): v for k, v in bad[0][0].items()}, 'claimed by', bad[0][1]) if bad else None))
    silent = [h.clsname for h, hir in zip(handlers, hirs) if not top_drivers(hir, I + 'claim')]
    if silent:
        ctx.note('handlers that never claim (their outputs are never selected by the request multiplexer, the fallback answers instead): %s' % silent)
    return top


def top_drivers(ir, name):
    return ir.drivers(name, exact=True)


# ------------------------------------------------------------------------------------------ the ACM handler
def check_acm(ctx):
    h = ctx.ir('ACMRequestHandlers', 'devices.acm')
    K = 'ACMRequestHandlers'
    outs = {n: I + n for n in ('claim', 'handshakes_out.ack', 'handshakes_out.nak', 'handshakes_out.stall', 'tx.valid', 'tx.last', 'tx.first')}
    cl = h.drivers(outs['claim'], exact=True)
    ctx.need(cl, 'ACMRequestHandlers drives interface.claim')
    sigs = {TYPE: 2, REQ: 8}
    sigs.update(read_sigs(h, list(outs.values())))
    ctx.need(sigs[TYPE] == 2 and sigs[REQ] == 8, 'widths of setup.type / setup.request')
    RX, ST = I + 'rx_ready_for_response', I + 'status_requested'
    ctx.ob('C57.acm-strobes', K + '.strobes', RX in sigs and ST in sigs, cl[0].loc,
           'the handler answers on rx_ready_for_response (data stage) and status_requested (status stage); it reads %s' % sorted(s.replace(I, '') for s in sigs))
    PID = I + 'tx_data_pid'
    si = h.signals.get(PID)
    ctx.need(si is not None and si.w == 1, 'tx_data_pid of the request handler interface')
    sigs.update(read_sigs(h, [PID]))
    bad = {k: [] for k in ('claim', 'ack', 'zlp', 'no-stall', 'pid')}
    # a handler that keeps state of its own must answer correctly in EVERY state it can be in: its state is moved by strobes
    # that are not gated to this endpoint (handshakes_in.ack pulses for every host ACK to any endpoint), so nothing ties the
    # state to the stage of the control transfer
    fstates = [dict(zip([f.id for f in h.fsms], combo)) for combo in itertools.product(*[f.states for f in h.fsms])] if h.fsms else [None]
    try:
        for env0, fst in itertools.product(valuations(ctx, 'ACMRequestHandlers', sigs), fstates):
            env = dict(env0)
            if fst is not None:
                env['$state'] = fst
            v = {n: value(h, s, env) for n, s in outs.items()}
            mine = env[TYPE] == CLASS and env[REQ] == SET_LINE_CODING
            if bool(v['claim']) != mine:
                bad['claim'].append((env, v))
            if not mine:
                continue
            if v['handshakes_out.ack'] != env.get(RX, 0):
                bad['ack'].append((env, v))
            st = env.get(ST, 0)
            if v['tx.valid'] != st or (st and (v['tx.last'] != 1 or v['tx.first'] != 0)):
                bad['zlp'].append((env, v))
            if v['handshakes_out.stall'] or v['handshakes_out.nak']:
                bad['no-stall'].append((env, v))
            if st and value(h, PID, env, init=si.init or 0) != 1:
                bad['pid'].append((env, v))
    except Undecided as ex:
        ctx.need(False, 'ACMRequestHandlers is a finite combinational function of the setup packet and the stage strobes (%s)' % ex)

    def first(b):
        if not b:
            return None
        env, v = b[0]
        return ({k.replace(I, ''): x for k, x in env.items()}, {k: x for k, x in v.items() if x})
    consts = {s: q.guard_consts(cl[0], s) for s in (TYPE, REQ)}
    ctx.ob('C57.acm-claim', K + '.claim', not bad['claim'], cl[0].loc,
           'claims exactly for type == CLASS (1) and request == SET_LINE_CODING (0x20); constants in the claim guard: %s; %d wrong row(s), first: %s' % (
               {k.replace(I, ''): v for k, v in consts.items()}, len(bad['claim']), first(bad['claim'])))
    a = q.raises(h, outs['handshakes_out.ack'])
    ctx.ob('C57.acm-data-stage', K + '.ack', not bad['ack'] and bool(a), a[0].loc if a else cl[0].loc,
           'while SET_LINE_CODING is claimed, ACK is requested exactly when rx_ready_for_response; %d wrong row(s), first: %s' % (len(bad['ack']), first(bad['ack'])))
    z = q.raises(h, outs['tx.valid'])
    ctx.ob('C57.acm-status-stage', K + '.zlp', not bad['zlp'] and bool(z), z[0].loc if z else cl[0].loc,
           'while SET_LINE_CODING is claimed, a zero-length packet (tx.valid & tx.last, no first) is sent exactly when status_requested; %d wrong row(s), first: %s' % (
               len(bad['zlp']), first(bad['zlp'])))
    ctx.ob('C57.acm-no-stall', K + '.stall-nak', not bad['no-stall'], cl[0].loc,
           'SET_LINE_CODING is never STALLed or NAKed by its own handler; %d wrong row(s), first: %s' % (len(bad['no-stall']), first(bad['no-stall'])))
    pid = h.drivers(PID, exact=True)
    ctx.ob('C57.acm-status-stage', K + '.zlp-pid', not bad['pid'], pid[0].loc if pid else cl[0].loc,
           'the status-stage ZLP is sent with DATA1 (tx_data_pid: reset value %r, drivers %s); %d wrong row(s), first: %s' % (
               getattr(si, 'init', None), [q.fmt(a) for a in pid], len(bad['pid']), first(bad['pid'])))


def check_plumbing(ctx):
    mux = ctx.ir('USBRequestHandlerMultiplexer', 'usb2.request')
    IFS = registry_attr(ctx, 'USBRequestHandlerMultiplexer', 'add_interface', 'usb2.request')
    FB = registry_attr(ctx, 'USBRequestHandlerMultiplexer', 'set_fallback_interface', 'usb2.request')
    HS = registry_attr(ctx, 'USBControlEndpoint', 'add_request_handler', 'usb2.control')
    for f in ('rx_ready_for_response', 'status_requested', 'data_requested', 'setup.type', 'setup.request'):
        d = mux.drivers('self.%s[*].%s' % (IFS, f), exact=True)
        ok = len(d) == 1 and plain(d[0]) and d[0].rhs.canon() == 'self.shared.' + f
        ctx.ob('C57.handler-plumbing', 'USBRequestHandlerMultiplexer.broadcast.' + f, ok, d[0].loc if d else None,
               'every handler sees the shared %s (single unconditional driver): %s' % (f, [q.fmt(a) for a in d]))
    # the control endpoint registers all its handlers with the multiplexer and keeps the default fallback
    ce = ctx.ir('USBControlEndpoint', 'usb2.control')
    rm = [s for s in ce.submodules if isinstance(s.obj, Obj) and s.obj.clsname == 'USBRequestHandlerMultiplexer']
    ctx.need(len(rm) == 1, 'the request multiplexer of USBControlEndpoint')
    ifs = rm[0].obj.attrs.get(IFS)
    ok = isinstance(ifs, list) and [x.canon() if isinstance(x, E) else getattr(x, 'path', None) for x in ifs] == ['self.%s[*].interface' % HS]
    ctx.ob('C57.handler-plumbing', 'USBControlEndpoint.request_mux.interfaces', ok, rm[0].loc,
           'the interface of every registered request handler (and nothing else) is added to the multiplexer: %s' % (ifs,))
    ctx.ob('C57.fallback', 'USBControlEndpoint.request_mux.fallback', FB in rm[0].obj.attrs and rm[0].obj.attrs[FB] is None, rm[0].loc,
           'the control endpoint installs no custom fallback, so unclaimed requests go to the multiplexer default: %r' % (rm[0].obj.attrs.get(FB, 'missing'),))
    fb = [s for s in mux.submodules if isinstance(s.obj, Obj) and s.obj.clsname == 'StallOnlyRequestHandler']
    ok = len(fb) == 1 and not fb[0].obj.kwargs and not getattr(fb[0].obj, 'args', []) and \
        any(a.rhs is not None and isinstance(a.rhs, E) and a.rhs.canon() == fb[0].obj.path + '.interface.handshakes_out' and q.atoms(a) == {('encoder.n', True)}
            for a in mux.drivers('self.shared.handshakes_out', exact=True))
    ctx.ob('C57.fallback', 'USBRequestHandlerMultiplexer.default-fallback', ok, fb[0].loc if fb else None,
           'the default fallback is a StallOnlyRequestHandler without a condition whose handshakes are used when no handler claims')
    so = ctx.ir('StallOnlyRequestHandler', 'usb2.request')
    outs = [I + 'handshakes_out.stall', I + 'handshakes_out.ack', I + 'handshakes_out.nak', I + 'tx.valid']
    sigs = {TYPE: 2, REQ: 8, I + 'data_requested': 1, I + 'status_requested': 1}
    sigs.update(read_sigs(so, outs))
    bad = []
    try:
        for env in valuations(ctx, 'the fallback handler', sigs):
            got = [value(so, o, env) for o in outs]
            if got != [int(bool(env[I + 'data_requested'] or env[I + 'status_requested'])), 0, 0, 0]:
                bad.append(({k.replace(I, ''): v for k, v in env.items()}, got))
    except Undecided as ex:
        ctx.need(False, 'the default StallOnlyRequestHandler is a finite combinational function (%s)' % ex)
    ctx.ob('C57.fallback', 'StallOnlyRequestHandler.default', not bad, so.assigns[0].loc if so.assigns else None,
           'without a condition it STALLs every request at its data or status stage and does nothing else; %d wrong row(s), first: %s' % (len(bad), bad[0] if bad else None))


def run(ctx):
    _DRV.clear()
    check_device(ctx, '')
    check_device(ctx, '[max_packet_size=512]', max_packet_size=512)      # a documented non-default configuration
    check_acm(ctx)
    check_plumbing(ctx)
    if ctx.tier == 'thorough':
        for mps in (256,):
            check_device(ctx, '[max_packet_size=%d]' % mps, max_packet_size=mps)
