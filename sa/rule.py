"""Rule context: IR cache, obligations, findings, evidence, exit codes."""
from __future__ import annotations
import json
import os
import sys
import time
import traceback

from .ir import AnalysisError, E
from .index import RepoIndex
from .interp import extract

VERIF = os.path.dirname(os.path.dirname(os.path.abspath(__file__)))


class Ob:
    def __init__(self, rule, key, ok, loc, msg, sample=None):
        self.rule = rule
        self.key = key
        self.ok = ok
        self.loc = loc
        self.msg = msg
        self.sample = sample


class Ctx:
    def __init__(self, prop, repo='/repo', tier='quick'):
        self.prop = prop
        self.repo = repo
        self.tier = tier
        self.t0 = time.time()
        self.index = RepoIndex(repo)
        if self.index.parse_errors:
            raise AnalysisError('source does not parse: %s' % (self.index.parse_errors[:3],))
        self._irs = {}
        self.obs = []
        self.notes = []
        self.files = set()
        self.classes = set()
        self.fsm_states = 0
        self.fsm_edges = 0
        self.assign_sites = 0
        self.helpers = 0
        self.cfg_forks = 0
        self.decided = []
        self.not_decided = []
        self.floor = 1

    # ---------------------------------------------------------------- IR access
    def cls(self, name, mod=None):
        return self.index.find_class(name, mod)

    def ir(self, name, mod=None, allow_opaque=False, **kwargs):
        key = (name, mod, tuple(sorted((k, repr(v)) for k, v in kwargs.items())))
        if key in self._irs:
            return self._irs[key]
        cls = self.index.find_class(name, mod)
        ir = extract(self.index, cls, kwargs or None)
        self._irs[key] = ir
        self.files.add(cls.mod.relpath)
        self.classes.add(cls.name)
        self.fsm_states += sum(len(f.states) for f in ir.fsms)
        self.fsm_edges += sum(len(f.edges) for f in ir.fsms)
        self.assign_sites += len(ir.assigns)
        self.helpers += ir.helpers_inlined
        self.cfg_forks += len(ir.cfg_forks)
        if ir.opaque and not allow_opaque:
            src, loc, why = ir.opaque[0]
            raise AnalysisError('construct not understood inside %s (%s): %s -- %s' % (name, loc, why, src))
        return ir

    def func(self, clsname, fname, mod=None):
        """(ClassInfo, FunctionDef) of a method; AnalysisError if it vanished."""
        cls = self.index.find_class(clsname, mod)
        m = self.index.find_method(cls, fname)
        if m is None:
            raise AnalysisError('anchor vanished: %s.%s' % (clsname, fname))
        self.files.add(cls.mod.relpath)
        return m

    # ---------------------------------------------------------------- anchors
    def need(self, cond, what):
        if not cond:
            raise AnalysisError('anchor vanished or not understood: ' + what)
        return cond

    def the_fsm(self, ir, having_states=None, domain=None, index=None):
        cands = ir.fsms
        if having_states:
            cands = [f for f in cands if all(s in f.states for s in having_states)]
        if domain:
            cands = [f for f in cands if f.domain == domain]
        if index is not None:
            self.need(len(cands) > index, 'FSM #%d of %s' % (index, ir.clsname))
            return cands[index]
        self.need(len(cands) == 1, 'exactly one FSM in %s (found %d)' % (ir.clsname, len(cands)))
        return cands[0]

    def sig(self, ir, name):
        self.need(name in ir.signals or any(n.startswith(name + '.') for n in ir.signals) or ir.drivers(name)
                  or ir.readers(name), 'signal %s of %s' % (name, ir.clsname))
        return name

    # ---------------------------------------------------------------- obligations
    def ob(self, rule, key, ok, loc=None, msg='', sample=None):
        """Record one obligation (rule instance).  key identifies the construct stably (class, role, signal)."""
        self.obs.append(Ob(rule, '%s:%s' % (rule, key), bool(ok), loc, msg, sample))
        return bool(ok)

    def note(self, text):
        self.notes.append(text)


def load_known():
    path = os.path.join(VERIF, 'known_findings.json')
    if not os.path.exists(path):
        return {'open': [], 'fixed': []}
    with open(path) as f:
        return json.load(f)


def _loc_str(loc):
    return str(loc) if loc is not None else '?'


def run_property(prop, rule_mod, repo='/repo', tier='quick', replay=None):
    """Run one property's rules; print report; write evidence; return exit code."""
    t0 = time.time()
    seed = int(os.environ.get('VERIF_SEED', '0') or 0)
    # scratch runs of the validation tools (tools/*_scratch.sh) redirect their evidence so that they never race with,
    # or overwrite, the evidence of a run against /repo itself
    ev_dir = os.environ.get('VERIF_EVIDENCE_DIR') or os.path.join(VERIF, 'evidence')
    ev_path = os.path.join(ev_dir, prop + '.json')
    os.makedirs(os.path.dirname(ev_path), exist_ok=True)
    ctx = None
    try:
        ctx = Ctx(prop, repo, tier)
        rule_mod.run(ctx)
        # the floor guards against a vacuous PASS; a violation that was found stands whatever the count
        if len(ctx.obs) < (getattr(ctx, 'floor_override', None) or getattr(rule_mod, 'FLOOR', 1)) and all(o.ok for o in ctx.obs):
            raise AnalysisError('rule instance floor not met: %d obligations < floor %d (a rule matching too few '
                                'sites would pass vacuously)' % (len(ctx.obs), rule_mod.FLOOR))
    except AnalysisError as ex:
        # an obligation that has already failed is a verdict on the construct it names, whatever the analysis could not
        # make sense of afterwards: report it (exit 1); only without a new violation is the run "no verdict" (exit 2)
        open_now = {k['key'] for k in load_known().get('open', []) if k.get('property') == prop}
        if ctx is None or not [o for o in ctx.obs if not o.ok and o.key not in open_now]:
            print('ANALYSIS-ERROR property=%s %s' % (prop, ex))
            _write_evidence(ev_path, prop, tier, seed, ctx, rule_mod, t0, error=str(ex))
            return 2
        print('ANALYSIS-INCOMPLETE property=%s the analysis stopped after the violation(s) below: %s' % (prop, ex))
    except Exception as ex:      # internal error: never a verdict
        traceback.print_exc()
        print('ANALYSIS-ERROR property=%s internal error: %s: %s' % (prop, type(ex).__name__, ex))
        _write_evidence(ev_path, prop, tier, seed, ctx, rule_mod, t0, error='%s: %s' % (type(ex).__name__, ex))
        return 2

    known = load_known()
    open_keys = {k['key']: k for k in known.get('open', []) if k.get('property') == prop}
    failed = [o for o in ctx.obs if not o.ok]
    if replay:
        try:
            want = set(json.load(open(replay)).get('keys', []))
            failed = [o for o in failed if o.key in want]
        except Exception:
            pass
    new = [o for o in failed if o.key not in open_keys]
    hit_known = [o for o in failed if o.key in open_keys]
    seen = set()
    for o in hit_known:
        if o.key in seen:
            continue
        seen.add(o.key)
        print('KNOWN-FINDING: property=%s %s -- %s [%s]' % (prop, o.key, open_keys[o.key].get('what', o.msg),
                                                            _loc_str(o.loc)))
    print('%s %s: %d obligations, %d discharged, %d known finding(s), %d new violation(s)  [%s tier, %.2fs]' % (
        prop, getattr(rule_mod, 'TITLE', ''), len(ctx.obs), len(ctx.obs) - len(failed), len(seen), len(new), tier,
        time.time() - t0))
    print('  analysed: %d classes, %d FSM states, %d edges, %d assignment sites, %d helper calls inlined' % (
        len(ctx.classes), ctx.fsm_states, ctx.fsm_edges, ctx.assign_sites, ctx.helpers))
    _write_evidence(ev_path, prop, tier, seed, ctx, rule_mod, t0, failed=failed, new=new, known_hit=sorted(seen))
    if new:
        for o in new:
            print('  %s  %s  %s' % (_loc_str(o.loc), o.key, o.msg))
        rp = os.path.join(ev_dir, 'replay', prop + '.json')
        os.makedirs(os.path.dirname(rp), exist_ok=True)
        with open(rp, 'w') as f:
            json.dump({'property': prop, 'keys': sorted({o.key for o in new}),
                       'reports': [{'key': o.key, 'loc': _loc_str(o.loc), 'msg': o.msg} for o in new]}, f, indent=1)
        print('VIOLATION property=%s replay=%s' % (prop, rp))
        return 1
    return 0


def _write_evidence(path, prop, tier, seed, ctx, rule_mod, t0, failed=(), new=(), known_hit=(), error=None):
    obs = ctx.obs if ctx is not None else []
    samples = []
    for o in obs[:12]:
        samples.append({'rule_instance': o.key, 'ok': o.ok, 'where': _loc_str(o.loc), 'detail': o.msg[:300]})
    distinct = len({o.key for o in obs})
    decided = getattr(rule_mod, 'DECIDES', '')
    not_decided = getattr(rule_mod, 'NOT_DECIDED', '')
    expl = ('Static analysis of the source text: Python ast -> module IR (guarded assignments, FSM graphs, wiring) by '
            'abstract interpretation of elaborate(); nothing of /repo is imported or executed and no solver is used. Rules '
            'inspect guards, drivers, FSM structure and priority, folded constants and widths; where a rule says so it '
            'evaluates the extracted guard/assignment expressions over all valuations of their (finitely many) boolean '
            'atoms or small control registers, i.e. a finite abstract interpretation of the extracted IR. Decided structural '
            'clauses: %s Not decided: %s' % (decided, not_decided))
    if error:
        expl = 'ANALYSIS-ERROR, no verdict: ' + error + ' || ' + expl
    ev = {
        'property_id': prop,
        'tier': 'thorough' if tier == 'thorough' else 'quick',
        'seed': seed,
        'level': 'other',
        'coverage': {
            'explanation': expl,
            'obligations': len(obs),
            'discharged': len([o for o in obs if o.ok]),
            'evaluations': max(len(obs), 1),
            'distinct_nontrivial': distinct,
            'rule': 'one obligation per rule instance (rule id + class + role/signal); distinct = distinct instance '
                    'keys that matched at least one construct in the current tree',
            'samples': samples or [{'note': 'no obligation evaluated'}],
            'checker_cmd': '/venv/bin/python /verif/vcheck %s%s' % (prop, ' --thorough' if tier == 'thorough' else ''),
            'trusted_base': ['CPython ast module', '/verif/sa/alpha.py (locals renamed w.r.t. sa/locals_ref.json are renamed back: a collision-free alpha-conversion)', '/verif/sa extractor (interp.py, hdl.py) and its model of the '
                             'Amaranth DSL (last assignment wins, If/Elif/Else, Switch/Case, FSM)',
                             'spec constants quoted in /verif/sa/rules/%s.py' % prop],
            'classes_analysed': sorted(ctx.classes) if ctx else [],
            'files_analysed': sorted(ctx.files) if ctx else [],
            'units_parsed': ctx.index.n_units if ctx else 0,
            'functions_parsed': ctx.index.n_funcs if ctx else 0,
            'fsm_states_walked': ctx.fsm_states if ctx else 0,
            'fsm_edges_walked': ctx.fsm_edges if ctx else 0,
            'assignment_sites': ctx.assign_sites if ctx else 0,
            'helpers_inlined': ctx.helpers if ctx else 0,
            'config_forks': ctx.cfg_forks if ctx else 0,
            'source_digest': ctx.index.digest(ctx.files) if ctx else '',
            'known_findings_hit': list(known_hit),
            'new_violations': [o.key for o in new],
            'notes': ctx.notes if ctx else [],
            'local_names_alpha_renamed': [
                {'file': rel, 'function': qual, 'renamed_to_reference_name': ren}
                for rel, qual, ren in (ctx.index.alpha_renames if ctx else []) if rel in set(ctx.files)],
            'exhaustive': False,
        },
        'assumptions': ['Amaranth semantics as documented (a later statement overrides an earlier one; FSM initial '
                        'state is the first declared unless init= is given)',
                        'guard implication is decided by conjunct containment / finite enumeration of guard atoms '
                        'treated as independent booleans (sound for "holds", may say "not shown")'],
        'wall_s': round(time.time() - t0, 3),
        'violations': len(new),
    }
    with open(path, 'w') as f:
        json.dump(ev, f, indent=1, default=str)
