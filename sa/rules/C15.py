"""C15 -- isochronous IN endpoints send exactly the requested bytes per frame.

Both isochronous IN endpoints (stream variant = the anchor, memory variant = same mechanism) are one three-state FSM over
two down-counters (bytes left in the frame, bytes left in the packet), a 2-bit PID register and the `first` flag.  The
counters are touched only through comparisons with constants and through +-1 / load, so the module is decided on a
*region abstraction*: a wide signal is represented by the region it lies in between the constants it is compared with
(every such constant is a singleton region; the set of constants is collected from the evaluation itself and refined
until stable), its value by `signal + offset`.  Small signals (<= 3 bit) are concrete.  On that domain the extracted
guarded assignments are evaluated for ONE cycle under Amaranth semantics (last assignment wins), with inputs and
registers assigned lazily: an evaluation that reads an unassigned atom is forked over all values of that atom, so every
truth table below is exhaustive over exactly the atoms the code (or the specification formula) reads.

(B) obligations are such one-cycle truth tables over ALL valuations (registers included; the data-state ones under the
assumption `both counters >= 1`); (C) obligations are an exhaustive forward fixpoint over ALL abstract states
(FSM state x region of both counters x PID x first) and ALL inputs that discharges those assumptions; (A) are structural.
Nothing is run on chosen stimuli.

Environment assumed (USB is half duplex; the tokenizer strobes new_frame when a SOF token ends and ready_for_response
an inter-packet delay after a non-SOF token): new_frame is strobed only while the endpoint waits for a token (FSM in
its initial state) and never in the cycle in which the endpoint is asked to respond.
"""
from collections import namedtuple

from ..ir import E, AnalysisError
from .. import q

TITLE = 'isochronous IN: requested bytes per frame, PID sequence, ZLP'
FLOOR = 55
DECIDES = ('For USBIsochronousStreamInEndpoint (anchor) and USBIsochronousInEndpoint (memory variant, same mechanism; all '
           'clauses except the stream ones), each for several (endpoint_number, max_packet_size): '
           '(a) frame latch [B]: while waiting, new_frame loads the remaining-bytes counter with bytes_in_frame, the '
           'packet budget with max_packet_size and the PID; without new_frame none of the three changes in the waiting or '
           'ZLP state (latched nowhere else); '
           '(b) PID table [B, all orderings of bytes_in_frame against 0/mps/2mps/3mps and every constant the code compares '
           'it with]: first PID = DATA2 iff > 2mps, DATA1 iff mps < n <= 2mps, else DATA0; PID steps DATA2->DATA1->DATA0 '
           'exactly when the last byte of a packet is accepted and is otherwise held [B]; tx_pid_toggle never leaves '
           '{DATA0,DATA1,DATA2} in any reachable abstract state [C]; index->PID byte table of the packet generator and '
           'the device wiring of tx_pid_toggle [A]; '
           '(c) packet size [B+C]: in the data state tx.valid is held, tx.last <=> remaining == 1 or budget == 1, both '
           'counters decrease by exactly one on tx.valid & tx.ready and are otherwise held, the budget is reloaded with '
           'mps when the packet ends, the state is left exactly then; fixpoint: both counters are >= 1 whenever the data '
           'state is reachable and the budget equals mps whenever a packet starts -- together: packet length = '
           'min(remaining, mps) and remaining decreases by the bytes sent; '
           '(d) response [B+C]: nothing is transmitted and the waiting state is not left unless endpoint number, IN and '
           'ready_for_response all hold; then remaining >= 1 starts a data packet (first=1), remaining == 0 a zero-length '
           'packet (next cycle valid & last with first == 0, one cycle, counters untouched); the ZLP state is reachable '
           'only with remaining == 0 and first == 0; '
           '(e) stream [B]: payload = stream.payload if stream.valid else 0; stream.valid & stream.ready <=> a data byte '
           'is accepted (tx.valid & tx.ready in the data state) -- every stream byte is sent once, in order, none is '
           'consumed while waiting / sending a ZLP (memory variant: payload = value); '
           '(f) widths [A]: bytes_in_frame and the remaining counter hold 3*mps, the budget holds mps, tx_pid_toggle is 2 bit. ')
NOT_DECIDED = ('behaviour when new_frame arrives during a transmission or together with the response strobe (excluded by the '
               'bus protocol, assumed); that the host issues enough IN tokens; the PID of a frame given more than 3*mps bytes; '
               'stream.ready while stream.valid is low (irrelevant under the valid/ready contract: the code raises it while '
               'zero-filling, which consumes nothing); address/next_address of the memory variant and tx_cnt/frame_finished/'
               'data_requested of the stream variant; the PID multiplexer of USBEndpointMultiplexer; the region abstraction '
               'treats wide combinational intermediates as unbounded integers (no truncation); max_packet_size < 8 (the packet '
               'budget would be a <= 3 bit register, which the abstraction keeps concrete: such a configuration is an ANALYSIS-ERROR).')

TX = 'self.interface.tx.'
TOK = 'self.interface.tokenizer.'
TXV, TXL, TXF, TXP, TXR = TX + 'valid', TX + 'last', TX + 'first', TX + 'payload', TX + 'ready'
NF, EPN, ISIN, RFR = TOK + 'new_frame', TOK + 'endpoint', TOK + 'is_in', TOK + 'ready_for_response'
REQ = 'self.bytes_in_frame'
PIDOUT = 'self.interface.tx_pid_toggle'
SV, SR, SP = 'self.stream.valid', 'self.stream.ready', 'self.stream.payload'
MEMV = 'self.value'
# amaranth.lib.stream.Interface(Signature(unsigned(8))) members are not given a width by the extractor
STREAM_W = {SV: 1, SR: 1, SP: 8}
SMALL = 3
CMP = ('==', '!=', '<', '<=', '>', '>=')
MIRROR = {'==': '==', '!=': '!=', '<': '>', '<=': '>=', '>': '<', '>=': '<='}
PIDNAME = {0: 'DATA0', 1: 'DATA1', 2: 'DATA2', 3: 'MDATA'}

Lin = namedtuple('Lin', 'name off')          # value = signal `name` + off, the signal lying in its assigned region


class NeedAtom(Exception):
    def __init__(self, name):
        Exception.__init__(self, name)
        self.name = name


class Refine(Exception):
    """A comparison constant that is not yet a region boundary was met: restart with the refined partition."""


def cmp_int(op, a, b):
    return {'==': a == b, '!=': a != b, '<': a < b, '<=': a <= b, '>': a > b, '>=': a >= b}[op]


# ------------------------------------------------------------------------------------------------ one-cycle model
class Model:
    def __init__(self, ctx, ir, label, thresholds):
        self.ctx, self.ir, self.label, self.T = ctx, ir, label, thresholds
        self.fsm = ctx.the_fsm(ir)
        self.drv = {}
        self.dom = {}
        for a in sorted(ir.assigns, key=lambda a: a.order):
            ctx.need(isinstance(a.lhs, E) and a.lhs.op == 'sig', 'whole-signal assignment targets in %s (%s)' % (label, q.fmt(a)))
            n = a.lhs.args[0].name
            self.drv.setdefault(n, []).append(a)
            self.dom.setdefault(n, set()).add('comb' if a.domain == 'comb' else 'sync')
        for n, d in self.dom.items():
            ctx.need(len(d) == 1, 'signal %s of %s driven from one domain only' % (n, label))
        self.comb_names = {n for n, d in self.dom.items() if d == {'comb'}}
        self.reg_names = {n for n, d in self.dom.items() if d == {'sync'}}
        sync_doms = {a.domain for n in self.reg_names for a in self.drv[n]} | {self.fsm.domain}
        ctx.need(len(sync_doms) == 1, 'one clock domain in %s (%s)' % (label, sorted(map(str, sync_doms))))
        for e in self.fsm.edges:
            ctx.need(isinstance(e.dst, str) and e.dst in self.fsm.states, 'constant m.next target in %s (%s)' % (label, e))
        self.edges = {s: sorted(self.fsm.out_edges(s), key=lambda e: e.order) for s in self.fsm.states}

    # -- signal facts
    def width(self, name):
        if name in STREAM_W:
            return STREAM_W[name]
        si = self.ir.signals.get(name)
        w = getattr(si, 'w', None)
        if not isinstance(w, int) or w <= 0:
            raise AnalysisError('width of %s in %s is not known' % (name, self.label))
        return w

    def small(self, name):
        return self.width(name) <= SMALL

    def init(self, name):
        si = self.ir.signals.get(name)
        v = getattr(si, 'init', None)
        if v is None:
            return 0
        if isinstance(v, E) and v.op == 'const':
            v = v.val
        if not isinstance(v, int):
            raise AnalysisError('reset value of %s in %s is not an integer (%r)' % (name, self.label, v))
        return v & ((1 << self.width(name)) - 1)

    def regions(self, name):
        hi = (1 << self.width(name)) - 1
        out, cur = [], 0
        for t in sorted(t for t in self.T.get(name, ()) if 0 <= t <= hi):
            if t > cur:
                out.append((cur, t - 1))
            out.append((t, t))
            cur = t + 1
        if cur <= hi:
            out.append((cur, hi))
        return out

    def domain(self, name):
        if self.small(name):
            return list(range(1 << self.width(name)))
        return self.regions(name)

    def boundary(self, name, t):
        """Make sure constant t is a region boundary of `name` (else refine the partition and restart)."""
        if 0 <= t <= (1 << self.width(name)) - 1 and t not in self.T.setdefault(name, set()):
            self.T[name].add(t)
            raise Refine(name)

    def region_of(self, name, v):
        for r in self.regions(name):
            if r[0] <= v <= r[1]:
                return r
        raise AnalysisError('%d outside %s in %s' % (v, name, self.label))

    def support(self, roots, through_regs=True):
        """Signals the roots depend on (through_regs=False: within one cycle, i.e. registers are leaves)."""
        seen, work = set(), list(roots)
        while work:
            s = work.pop()
            if s in seen:
                continue
            seen.add(s)
            if not through_regs and s in self.reg_names:
                continue
            for a in self.drv.get(s, ()):
                if isinstance(a.rhs, E):
                    work.extend(a.rhs.sigs())
                for l in a.guard:
                    if isinstance(l.e, E):
                        work.extend(l.e.sigs())
        return seen

    def edge_sigs(self):
        out = set()
        for e in self.fsm.edges:
            for l in e.guard:
                if isinstance(l.e, E):
                    out |= l.e.sigs()
        return out

    def explore(self, state, base, fn):
        """fn(Cyc) for every valuation of the atoms the evaluation reads (lazy case split).  -> [(assignment, result)]"""
        out, stack, n = [], [dict(base)], 0
        while stack:
            asg = stack.pop()
            n += 1
            if n > 400000:
                raise AnalysisError('case split explosion in %s' % self.label)
            try:
                r = fn(Cyc(self, state, asg))
            except NeedAtom as need:
                for v in self.domain(need.name):
                    a2 = dict(asg)
                    a2[need.name] = v
                    stack.append(a2)
                continue
            out.append((asg, r))
        return out


class Cyc:
    """One clock cycle in FSM state `state` under the (partial) valuation `asg` of inputs and registers."""

    def __init__(self, m, state, asg):
        self.m, self.state, self.asg = m, state, asg
        self.memo, self.win, self.busy = {}, {}, set()

    # -- atoms
    def raw(self, name):
        if name not in self.asg:
            raise NeedAtom(name)
        return self.asg[name]

    def val(self, name):
        """Value of a signal in this cycle: int (small / constant) or Lin."""
        if name in self.m.comb_names:
            return self.comb(name)
        if self.m.small(name):
            return self.raw(name)
        return Lin(name, 0)

    def region(self, name):
        return self.raw(name)

    def rep(self, lin, t):
        self.m.boundary(lin.name, t)
        return self.raw(lin.name)[0] + lin.off

    def truth(self, v):
        if isinstance(v, Lin):
            return self.rep(v, -v.off) != 0
        return v != 0

    def compare(self, op, a, b):
        if isinstance(a, Lin) and isinstance(b, Lin):
            if a.name != b.name:
                raise AnalysisError('comparison of two wide signals (%s, %s) in %s' % (a.name, b.name, self.m.label))
            return cmp_int(op, a.off, b.off)
        if isinstance(b, Lin):
            a, b, op = b, a, MIRROR[op]
        if isinstance(a, Lin):
            return cmp_int(op, self.rep(a, b - a.off), b)
        return cmp_int(op, a, b)

    # -- expressions
    def wof(self, e):
        if not isinstance(e, E):
            return None
        if e.op in CMP:
            return 1
        if e.op == 'sig':
            return self.m.width(e.args[0].name)
        if e.w:
            return e.w
        if e.op in ('&', '|', '^'):
            ws = [self.wof(a) for a in e.args]
            return None if any(w is None for w in ws) else max(ws)
        if e.op == '~':
            return self.wof(e.args[0])
        if e.op == 'const' and isinstance(e.val, int) and e.val >= 0:
            return max(1, int(e.val).bit_length())
        return None

    def ev(self, e):
        if isinstance(e, bool):
            return int(e)
        if isinstance(e, int):
            return e
        if not isinstance(e, E):
            raise AnalysisError('cannot evaluate %r in %s' % (e, self.m.label))
        op = e.op
        if op == 'const':
            if not isinstance(e.val, (int, bool)):
                raise AnalysisError('non-integer constant %s in %s' % (e.canon(), self.m.label))
            return int(e.val)
        if op == 'sig':
            return self.val(e.args[0].name)
        if op in CMP and len(e.args) == 2:
            return int(self.compare(op, self.ev(e.args[0]), self.ev(e.args[1])))
        if op == '+':
            vals = [self.ev(a) for a in e.args]
            lins = [v for v in vals if isinstance(v, Lin)]
            k = sum(v for v in vals if not isinstance(v, Lin))
            if not lins:
                return k
            if len(lins) == 1:
                return Lin(lins[0].name, lins[0].off + k)
            raise AnalysisError('sum of wide signals %s in %s' % (e.canon(), self.m.label))
        if op == '-' and len(e.args) == 2:
            a, b = self.ev(e.args[0]), self.ev(e.args[1])
            if isinstance(b, Lin):
                if isinstance(a, Lin) and a.name == b.name:
                    return a.off - b.off
                raise AnalysisError('subtraction of a wide signal %s in %s' % (e.canon(), self.m.label))
            return Lin(a.name, a.off - b) if isinstance(a, Lin) else a - b
        if op == 'neg':
            v = self.ev(e.args[0])
            if isinstance(v, Lin):
                raise AnalysisError('negated wide signal %s in %s' % (e.canon(), self.m.label))
            return -v
        if op == 'mux':
            return self.ev(e.args[1]) if self.truth(self.ev(e.args[0])) else self.ev(e.args[2])
        if op == 'call' and e.args[0] in ('bool', 'any') and len(e.args) == 2:
            return int(self.truth(self.ev(e.args[1])))
        if op in ('&', '|', '^', '~', 'slice', 'arr', '*'):
            if op == 'slice':
                vals = [self.ev(e.args[0])]
            elif op == 'arr':
                vals = [self.ev(e.args[0])]
            else:
                vals = [self.ev(a) for a in e.args]
            if any(isinstance(v, Lin) for v in vals):
                raise AnalysisError('wide signal used other than by comparison / +-const (%s) in %s' % (e.canon(), self.m.label))
            if op == '~':
                w = self.wof(e.args[0])
                if not w:
                    raise AnalysisError('~ of unknown width: %s in %s' % (e.canon(), self.m.label))
                return ~vals[0] & ((1 << w) - 1)
            if op == 'slice':
                lo, hi = e.args[1], e.args[2]
                if not isinstance(lo, int) or not isinstance(hi, int):
                    raise AnalysisError('symbolic slice %s in %s' % (e.canon(), self.m.label))
                return (vals[0] >> lo) & ((1 << (hi - lo)) - 1)
            if op == 'arr':
                els = e.args[1:]
                return self.ev(els[min(max(vals[0], 0), len(els) - 1)])
            r = vals[0]
            for v in vals[1:]:
                r = (r & v) if op == '&' else (r | v) if op == '|' else (r ^ v) if op == '^' else r * v
            return r
        raise AnalysisError('cannot evaluate %s (%s) in %s' % (e.canon(), op, self.m.label))

    def holds(self, guard):
        for l in guard:
            if l.kind == 'cfg' or not isinstance(l.e, E):
                raise AnalysisError('unresolved configuration in a guard of %s: %s' % (self.m.label, l.canon()))
            if self.truth(self.ev(l.e)) != l.pos:
                return False
        return True

    def active(self, item):
        sts = getattr(item, 'states', None) or ((item.state,) if item.state else ())
        return all(fid == self.m.fsm.id and s == self.state for fid, s in sts)

    def winner(self, name):
        """The assignment that determines `name` in this cycle (last active one whose guard holds), or None."""
        if name in self.win:
            return self.win[name]
        w = None
        for a in reversed(self.m.drv.get(name, ())):
            if self.active(a) and self.holds(a.guard):
                w = a
                break
        self.win[name] = w
        return w

    def fit(self, name, v):
        if isinstance(v, Lin):
            if self.m.small(name):
                raise AnalysisError('wide value %s+%d stored into small signal %s in %s' % (v.name, v.off, name, self.m.label))
            return v
        return v & ((1 << self.m.width(name)) - 1)

    def comb(self, name):
        if name in self.memo:
            return self.memo[name]
        if name in self.busy:
            raise AnalysisError('combinational loop through %s in %s' % (name, self.m.label))
        self.busy.add(name)
        try:
            a = self.winner(name)
            v = self.fit(name, self.ev(a.rhs)) if a is not None else self.m.init(name)
        finally:
            self.busy.discard(name)
        self.memo[name] = v
        return v

    def nxt(self, name):
        """Value of register `name` after the clock edge (int or Lin)."""
        k = ('n', name)
        if k not in self.memo:
            a = self.winner(name)
            self.memo[k] = self.fit(name, self.ev(a.rhs)) if a is not None else self.val(name)
        return self.memo[k]

    def next_state(self):
        for e in reversed(self.m.edges[self.state]):
            if self.holds(e.guard):
                self.win['$fsm'] = e
                return e.dst
        return self.state

    def pid_next(self):
        """tx_pid_toggle in the next cycle: the same combinational function on the next FSM state and register values."""
        m = self.m
        asg = {}
        for r in m.support([PIDOUT], False) & m.reg_names:
            v = self.nxt(r)
            if isinstance(v, Lin) or not m.small(r):
                raise AnalysisError('tx_pid_toggle depends on the wide register %s in %s' % (r, m.label))
            asg[r] = v
        ns = self.next_state()
        try:
            v = Cyc(m, ns, asg).val(PIDOUT)
        except NeedAtom as n:
            raise AnalysisError('tx_pid_toggle of %s is not a function of registered state (reads %s)' % (m.label, n.name))
        if isinstance(v, Lin):
            raise AnalysisError('tx_pid_toggle of %s is a wide value' % m.label)
        return v


def show(v):
    if isinstance(v, Lin):
        return v.name if not v.off else '%s%+d' % (v.name, v.off)
    if isinstance(v, tuple):
        return str(v[0]) if v[0] == v[1] else '%d..%d' % v
    return str(v)


def show_asg(asg):
    return '{' + ', '.join('%s=%s' % (k.replace('self.interface.', '').replace('self.', ''), show(v)) for k, v in sorted(asg.items())) + '}'


# ------------------------------------------------------------------------------------------------ obligations
class Rec:
    def __init__(self):
        self.d = {}
        self.order = []

    def slot(self, rule, key):
        k = (rule, key)
        if k not in self.d:
            self.d[k] = [0, None, None]
            self.order.append(k)
        return self.d[k]

    def chk(self, rule, key, ok, c=None, sig=None, msg=''):
        s = self.slot(rule, key)
        s[0] += 1
        if not ok and s[1] is None:
            a = None
            if c is not None and sig is not None:
                a = c.win.get(sig)
            where = ''
            if c is not None:
                where = ' [state %s, %s]' % (c.state, show_asg(c.asg))
            s[1] = (msg() if callable(msg) else msg) + where + (('; deciding statement: ' + q.fmt(a)[:220]) if a is not None else '')
            s[2] = a.loc if a is not None else None
        return ok


EXPECT_COMMON = [
    ('C15.width', 'request'), ('C15.width', 'remaining'), ('C15.width', 'packet-budget'), ('C15.width', 'pid'),
    ('C15.idle-silent', 'tx.valid'), ('C15.response-gate', 'fsm'), ('C15.frame-latch', 'remaining'), ('C15.frame-latch', 'packet-budget'),
    ('C15.pid-table', 'first-pid'), ('C15.latch-only-on-new-frame', 'remaining'), ('C15.latch-only-on-new-frame', 'packet-budget'),
    ('C15.latch-only-on-new-frame', 'pid'), ('C15.answer-data', 'fsm'), ('C15.answer-zlp', 'fsm'),
    ('C15.data-valid', 'tx.valid'), ('C15.packet-end', 'tx.last'), ('C15.count', 'remaining'), ('C15.packet-budget', 'packet-budget'),
    ('C15.packet-exit', 'fsm'), ('C15.pid-step', 'pid'), ('C15.payload', 'tx.payload'),
    ('C15.zlp-shape', 'tx'), ('C15.zlp-exit', 'fsm'), ('C15.zlp-neutral', 'counters'),
    ('C15.inv-nonzero', 'data-state'), ('C15.inv-full-budget', 'packet-start'), ('C15.pid-floor', 'tx_pid_toggle'), ('C15.inv-zlp', 'zlp-state'),
]
EXPECT_STREAM = [('C15.stream-handshake', 'stream.ready'), ('C15.stream-idle', 'stream.ready')]


def spec_first_pid(region, mps):
    """DATA index of the first packet of a frame of n bytes, n in region (constant on it), or None beyond 3*mps."""
    lo, hi = region
    if hi > 3 * mps:
        return None
    f = lambda n: max(1, -(-n // mps)) - 1
    if f(lo) != f(hi):
        raise AnalysisError('region %s of bytes_in_frame straddles a packet-count boundary' % (region,))
    return f(lo)


def analyse(ctx, ir, cls, ep, mps, stream, T, rec):
    label = '%s(ep%d,mps%d)' % (cls, ep, mps)
    m = Model(ctx, ir, label, T)
    fsm = m.fsm
    for s in (TXV, TXL, TXP, PIDOUT):
        ctx.need(s in m.comb_names, 'combinational driver of %s in %s' % (s, label))
    ctx.need(TXF in m.reg_names, 'registered tx.first in %s' % label)
    for s in (NF, EPN, ISIN, RFR, REQ, TXR):
        ctx.need(s in ir.signals and s not in m.drv, 'input %s of %s' % (s, label))
    if stream:
        ctx.need(SR in m.comb_names, 'combinational driver of stream.ready in %s' % label)
    roots = [TXV, TXL, TXF, TXP, PIDOUT] + ([SR] if stream else [])
    sup = m.support(roots + sorted(m.edge_sigs()))
    regs = sorted(sup & m.reg_names)
    wide = [r for r in regs if not m.small(r)]
    rem_c = [r for r in wide if any(isinstance(a.rhs, E) and REQ in a.rhs.sigs() for a in m.drv[r])]
    ctx.need(len(rem_c) == 1, 'exactly one counter loaded from bytes_in_frame in %s (found %s)' % (label, rem_c))
    REM = rem_c[0]
    # the packet budget: the wide register that is (re)loaded with the constant max_packet_size
    pk_c = sorted(r for r in m.reg_names if r != REM and not m.small(r)
                  and any(isinstance(a.rhs, E) and a.rhs.op == 'const' and a.rhs.val == mps for a in m.drv[r]))
    ctx.need(len(pk_c) == 1, 'exactly one packet-budget counter reloaded with max_packet_size in %s (found %s)' % (label, pk_c))
    PK = pk_c[0]
    if PK not in regs:
        regs = sorted(regs + [PK])
    ctx.need(set(wide) <= {REM, PK}, 'no further wide register steers the transmission in %s (%s)' % (label, wide))
    WAIT = fsm.init
    ctx.need(WAIT is not None and len(fsm.states) >= 2, 'FSM of %s' % label)
    for name, ts in ((REM, (0, 1)), (PK, (0, 1, mps)), (REQ, (0, mps, 2 * mps, 3 * mps)), (EPN, (ep,))):
        T.setdefault(name, set()).update(ts)
    MPSR = (mps, mps)

    def request(c):
        return c.region(EPN) == (ep, ep) and c.raw(ISIN) == 1 and c.raw(RFR) == 1

    def pid_now(c):
        v = c.val(PIDOUT)
        if isinstance(v, Lin):
            raise AnalysisError('tx_pid_toggle of %s is a wide value' % label)
        return v

    def stream_idle(c):
        if stream and c.raw(SV) == 1:
            rec.chk('C15.stream-idle', 'stream.ready', c.val(SR) == 0, c, SR,
                    'stream.ready & stream.valid outside the data state consumes a stream byte that is never transmitted')

    # ---- (A) widths
    wq, wr, wp, wo = m.width(REQ), m.width(REM), m.width(PK), m.width(PIDOUT)
    loc_of = lambda n: getattr(ir.signals.get(n), 'loc', None)
    rec.chk('C15.width', 'request', (1 << wq) - 1 >= 3 * mps, msg='bytes_in_frame (%d bit) cannot express 3*max_packet_size = %d' % (wq, 3 * mps))
    rec.chk('C15.width', 'remaining', (1 << wr) - 1 >= 3 * mps, msg='remaining-bytes counter %s (%d bit) cannot hold 3*max_packet_size = %d' % (REM, wr, 3 * mps))
    rec.chk('C15.width', 'packet-budget', (1 << wp) - 1 >= mps, msg='packet-budget counter %s (%d bit) cannot hold max_packet_size %d' % (PK, wp, mps))
    pidregs = sorted(m.support([PIDOUT], False) & m.reg_names)
    rec.chk('C15.width', 'pid', wo == 2 and pidregs and all(m.width(r) >= 2 for r in pidregs),
            msg='tx_pid_toggle is %d bit, driven from %s' % (wo, [(r, m.width(r)) for r in pidregs]))

    # ---- (B) waiting state
    dsts = {'data': set(), 'zlp': set()}

    def f_wait(c):
        nf = c.raw(NF)
        rq = request(c)
        if nf and rq:
            return None                                   # environment: no SOF in the response slot
        ns = c.next_state()
        if not rq:
            rec.chk('C15.idle-silent', 'tx.valid', c.val(TXV) == 0, c, TXV, 'tx.valid is raised while no IN token for this endpoint awaits a response')
            rec.chk('C15.response-gate', 'fsm', ns == WAIT, c, '$fsm',
                    lambda: 'the waiting state is left (-> %s) without endpoint-number match & is_in & ready_for_response' % ns)
        stream_idle(c)
        r2, k2, p, p2 = c.nxt(REM), c.nxt(PK), pid_now(c), c.pid_next()
        if nf:
            rec.chk('C15.frame-latch', 'remaining', r2 == Lin(REQ, 0), c, REM,
                    lambda: 'on new_frame the remaining-bytes counter becomes %s, not bytes_in_frame' % show(r2))
            rec.chk('C15.frame-latch', 'packet-budget', r2 is not None and k2 == mps, c, PK,
                    lambda: 'on new_frame the packet budget becomes %s, not max_packet_size' % show(k2))
            want = spec_first_pid(c.region(REQ), mps)
            if want is not None:
                rec.chk('C15.pid-table', 'first-pid', p2 == want, c, pidregs[0] if pidregs else None,
                        lambda: 'a frame of %s bytes (max packet size %d) must start with %s, the code selects %s' % (
                            show(c.region(REQ)), mps, PIDNAME[want], PIDNAME.get(p2, p2)))
        else:
            rec.chk('C15.latch-only-on-new-frame', 'remaining', r2 == Lin(REM, 0), c, REM,
                    lambda: 'the remaining-bytes counter changes (-> %s) while waiting without new_frame' % show(r2))
            rec.chk('C15.latch-only-on-new-frame', 'packet-budget', k2 == Lin(PK, 0), c, PK,
                    lambda: 'the packet budget changes (-> %s) while waiting without new_frame' % show(k2))
            rec.chk('C15.latch-only-on-new-frame', 'pid', p2 == p, c, pidregs[0] if pidregs else None,
                    lambda: 'the PID changes (%s -> %s) while waiting without new_frame' % (PIDNAME.get(p, p), PIDNAME.get(p2, p2)))
            if rq:
                f2 = c.nxt(TXF)
                if c.region(REM)[0] >= 1:
                    ok = ns != WAIT and f2 == 1
                    rec.chk('C15.answer-data', 'fsm', ok, c, '$fsm' if ns == WAIT else TXF,
                            lambda: 'an IN token with bytes left must start a data packet (leave the waiting state with first=1); next state %s, first=%s' % (ns, show(f2)))
                    if ns != WAIT:
                        dsts['data'].add(ns)
                else:
                    ok = ns != WAIT and f2 == 0
                    rec.chk('C15.answer-zlp', 'fsm', ok, c, '$fsm' if ns == WAIT else TXF,
                            lambda: 'an IN token with nothing left to send must be answered with a zero-length packet (leave the waiting state with first=0); next state %s, first=%s' % (ns, show(f2)))
                    if ns != WAIT:
                        dsts['zlp'].add(ns)
        return ns

    m.explore(WAIT, {}, f_wait)
    D = sorted(dsts['data'])[0] if len(dsts['data']) == 1 else None
    Z = sorted(dsts['zlp'])[0] if len(dsts['zlp']) == 1 else None
    if len(dsts['data']) > 1:
        rec.chk('C15.answer-data', 'fsm', False, msg='several data states: %s' % sorted(dsts['data']))
    if len(dsts['zlp']) > 1:
        rec.chk('C15.answer-zlp', 'fsm', False, msg='several ZLP states: %s' % sorted(dsts['zlp']))
    if D is not None and D == Z:
        rec.chk('C15.answer-zlp', 'fsm', False, msg='data and zero-length answers share state %s' % D)
        Z = None

    # ---- (B) data state, assuming both counters >= 1 (discharged by the fixpoint below)
    def f_data(c):
        rr, pr = c.region(REM), c.region(PK)
        if rr[0] < 1 or pr[0] < 1:
            return None
        txv, txl, rdy = c.val(TXV), c.val(TXL), c.raw(TXR)
        rec.chk('C15.data-valid', 'tx.valid', txv == 1, c, TXV, 'tx.valid drops inside a data packet (an isochronous packet cannot pause; missing data is zero-filled)')
        acc = bool(rdy and txv)
        last = rr == (1, 1) or pr == (1, 1)
        rec.chk('C15.packet-end', 'tx.last', bool(txl) == last, c, TXL,
                lambda: 'tx.last=%s with remaining=%s, packet budget=%s: the packet must end exactly on byte min(remaining, max_packet_size)' % (txl, show(rr), show(pr)))
        r2, k2, ns, p, p2 = c.nxt(REM), c.nxt(PK), c.next_state(), pid_now(c), c.pid_next()
        rec.chk('C15.count', 'remaining', r2 == Lin(REM, -1 if acc else 0), c, REM,
                lambda: 'remaining-bytes counter -> %s with tx.valid=%s tx.ready=%s: it must decrease by one exactly when a byte is accepted' % (show(r2), txv, rdy))
        if not acc:
            wantk, wk = Lin(PK, 0), 'be held while no byte is accepted'
        elif last:
            wantk, wk = mps, 'be reloaded with max_packet_size when the packet ends'
        else:
            wantk, wk = Lin(PK, -1), 'decrease by one per accepted byte'
        rec.chk('C15.packet-budget', 'packet-budget', k2 == wantk, c, PK, lambda: 'packet budget -> %s, it must %s' % (show(k2), wk))
        rec.chk('C15.packet-exit', 'fsm', ns == (WAIT if (acc and last) else D), c, '$fsm',
                lambda: 'data state -> %s with accepted=%s last-byte=%s: it must be left exactly when the last byte of the packet is accepted' % (ns, acc, last))
        if acc and last:
            if p in (1, 2):
                rec.chk('C15.pid-step', 'pid', p2 == p - 1, c, pidregs[0] if pidregs else None,
                        lambda: 'after a packet sent as %s the next PID is %s, expected %s' % (PIDNAME[p], PIDNAME.get(p2, p2), PIDNAME[p - 1]))
        else:
            rec.chk('C15.pid-step', 'pid', p2 == p, c, pidregs[0] if pidregs else None,
                    lambda: 'the PID changes (%s -> %s) inside a packet' % (PIDNAME.get(p, p), PIDNAME.get(p2, p2)))
        pay = c.val(TXP)
        if stream:
            sv = c.raw(SV)
            want = Lin(SP, 0) if sv else 0
            rec.chk('C15.payload', 'tx.payload', pay == want, c, TXP,
                    lambda: 'payload is %s with stream.valid=%s: it must be the stream byte when valid, else zero' % (show(pay), sv))
            if sv:
                rec.chk('C15.stream-handshake', 'stream.ready', (c.val(SR) == 1) == acc, c, SR,
                        lambda: 'stream.ready=%s while byte accepted=%s: a stream byte must be consumed exactly when it is transmitted' % (show(c.val(SR)), acc))
        else:
            rec.chk('C15.payload', 'tx.payload', pay == Lin(MEMV, 0), c, TXP, lambda: 'payload is %s, not the memory read value' % show(pay))
        return ns

    if D is not None:
        m.explore(D, {NF: 0}, f_data)

    # ---- (B) zero-length-packet state
    def f_zlp(c):
        txv, txl, ns = c.val(TXV), c.val(TXL), c.next_state()
        rec.chk('C15.zlp-shape', 'tx', txv == 1 and txl == 1, c, TXV if txv != 1 else TXL,
                lambda: 'the ZLP state drives valid=%s last=%s; a zero-length packet is requested by valid & last without first' % (show(txv), show(txl)))
        rec.chk('C15.zlp-exit', 'fsm', ns == WAIT, c, '$fsm', lambda: 'the ZLP state -> %s; it must return to waiting after one cycle' % ns)
        r2, k2, p, p2 = c.nxt(REM), c.nxt(PK), pid_now(c), c.pid_next()
        rec.chk('C15.zlp-neutral', 'counters', r2 == Lin(REM, 0) and k2 == Lin(PK, 0) and p2 in (p, max(p - 1, 0)), c, None,
                lambda: 'a zero-length packet changes remaining -> %s, budget -> %s, PID %s -> %s' % (show(r2), show(k2), p, p2))
        stream_idle(c)
        return ns

    if Z is not None:
        m.explore(Z, {NF: 0}, f_zlp)

    # ---- (C) reachable abstract states: FSM state x regions of both counters x small registers
    def abstract(name, v, c):
        """Regions / values register `name` can have after the edge, given its symbolic next value v."""
        if m.small(name):
            return [v]
        hi = (1 << m.width(name)) - 1
        if not isinstance(v, Lin):
            return [m.region_of(name, v & hi)]
        if v.name in c.asg:
            lo_, hi_ = c.asg[v.name]
        else:
            lo_, hi_ = 0, (1 << m.width(v.name)) - 1
        lo_, hi_ = lo_ + v.off, hi_ + v.off
        spans = []
        if lo_ < 0:
            spans.append((max(lo_ + hi + 1, 0), min(hi_, -1) + hi + 1))
            lo_ = 0
        if hi_ > hi:
            spans.append((max(lo_, hi + 1) - hi - 1, min(hi_ - hi - 1, hi)))
            hi_ = hi
        if lo_ <= hi_:
            spans.append((lo_, hi_))
        return [r for r in m.regions(name) if any(r[0] <= b and a <= r[1] for a, b in spans)]

    cur = [None]

    def path(a):
        out = []
        while a is not None:
            out.append('%s(%s)' % (a[0], ','.join(show(v) for _, v in a[1])))
            a = pred.get(a)
        return 'abstract path over (%s): ' % ','.join(regs) + ' <- '.join(out[:6]) + (' <- ...' if len(out) > 6 else '')

    def f_fix(c):
        st = c.state
        if st == WAIT:
            if c.raw(NF) and request(c):
                return None
        p, p2 = pid_now(c), c.pid_next()
        rec.chk('C15.pid-floor', 'tx_pid_toggle', p2 in (0, 1, 2) or p not in (0, 1, 2), c, pidregs[0] if pidregs else None,
                lambda: 'tx_pid_toggle steps %s -> %s on a reachable transition (%s): the PID must not step below DATA0 -- a further IN '
                        'token before the next new_frame (e.g. the SOF was lost) is answered with a ZLP carrying that PID' % (
                            PIDNAME.get(p, p), PIDNAME.get(p2, p2), path(cur[0])))
        if st == D:
            rec.chk('C15.inv-nonzero', 'data-state', c.region(REM)[0] >= 1 and c.region(PK)[0] >= 1, c, None,
                    lambda: 'the data state is reachable with remaining=%s, packet budget=%s: a counter at 0 wraps and the packet '
                            'does not end on byte min(remaining, max_packet_size)' % (show(c.region(REM)), show(c.region(PK))))
        if st == Z:
            rec.chk('C15.inv-zlp', 'zlp-state', c.region(REM) == (0, 0) and c.raw(TXF) == 0, c, None,
                    lambda: 'the ZLP state is reachable with remaining=%s, first=%s' % (show(c.region(REM)), c.raw(TXF)))
        ns = c.next_state()
        nxt = [(r, abstract(r, c.nxt(r), c)) for r in regs]
        if st == WAIT and ns == D:
            k2 = c.nxt(PK)
            ok = k2 == mps or (k2 == Lin(PK, 0) and c.region(PK) == MPSR)
            rec.chk('C15.inv-full-budget', 'packet-start', ok, c, None,
                    lambda: 'a packet can start with packet budget %s (in region %s) instead of max_packet_size: its length is not '
                            'min(remaining, max_packet_size)' % (show(k2), show(c.region(PK))))
        return ns, nxt

    if D is None or Z is None:
        return 0                                          # the answer obligations failed; the invariants are reported as not evaluated
    init = (WAIT, tuple((r, m.init(r) if m.small(r) else m.region_of(r, m.init(r))) for r in regs))
    p0 = Cyc(m, WAIT, dict(init[1])).val(PIDOUT)
    rec.chk('C15.pid-floor', 'tx_pid_toggle', p0 in (0, 1, 2), msg='tx_pid_toggle is %s after reset' % PIDNAME.get(p0, p0))
    seen, work, pred = {init}, [init], {init: None}
    while work:
        cur[0] = work.pop()
        st, rv = cur[0]
        if st not in (WAIT, D, Z):
            raise AnalysisError('state %s of %s is reachable but has no role (waiting / data / ZLP)' % (st, label))
        base = dict(rv)
        if st != WAIT:
            base[NF] = 0
        for asg, r in m.explore(st, base, f_fix):
            if r is None:
                continue
            ns, nxt = r
            succ = [()]
            for name, vals in nxt:
                succ = [s + ((name, v),) for s in succ for v in vals]
            for s in succ:
                a = (ns, s)
                if a not in seen:
                    seen.add(a)
                    pred[a] = cur[0]
                    work.append(a)
            if len(seen) > 20000:
                raise AnalysisError('abstract state explosion in %s' % label)
    return len(seen)


def check_class(ctx, clsname, mod, short, stream, ep, mps):
    ir = ctx.ir(clsname, mod, endpoint_number=ep, max_packet_size=mps)
    T = {}
    for _ in range(24):
        rec = Rec()
        try:
            n = analyse(ctx, ir, short, ep, mps, stream, T, rec)
            break
        except Refine:
            continue
    else:
        raise AnalysisError('region partition of %s does not stabilise' % clsname)
    tag = '[ep%d,mps%d]' % (ep, mps)
    for (rule, key) in rec.order:
        ctx.need((rule, key) in EXPECT_COMMON + EXPECT_STREAM, 'obligation %s %s is listed' % (rule, key))
    ctx.note('%s%s: %d reachable abstract states; region boundaries %s' % (short, tag, n, {k: sorted(v) for k, v in sorted(T.items())}))
    return tag, rec


def check_configs(ctx, clsname, mod, short, stream, configs):
    """One obligation per (rule, role) of the class: it must hold for every configuration (keys do not depend on the tier)."""
    results = [check_class(ctx, clsname, mod, short, stream, ep, mps) for ep, mps in configs]
    for rule, key in EXPECT_COMMON + (EXPECT_STREAM if stream else []):
        total, bad, loc = 0, [], None
        for tag, rec in results:
            cnt, fail, l = rec.d.get((rule, key), (0, None, None))
            total += cnt
            if cnt == 0:
                fail = fail or 'no instance could be evaluated (the answering / data / ZLP state was not identified, see the other violations)'
            if fail is not None:
                bad.append((tag, fail))
                loc = loc or l
        msg = 'holds on %d evaluations over %d configurations' % (total, len(results))
        if bad:
            msg = '%s %s' % (bad[0][0], bad[0][1]) + ('' if len(bad) == 1 else '  (also fails for %s)' % ' '.join(t for t, _ in bad[1:]))
        ctx.ob(rule, '%s.%s' % (short, key), not bad, loc, msg)


def check_pid_path(ctx):
    """(A) tx_pid_toggle index -> PID byte in the packet generator, and the device-level wiring."""
    g = ctx.ir('USBDataPacketGenerator', 'usb2.packet')
    # the register that takes a constant selected by data_pid: `Array(...)[data_pid]` or one constant per value (Switch)
    cand = {}
    for a in g.assigns:
        if isinstance(a.lhs, E) and a.lhs.op == 'sig' and a.domain != 'comb' and isinstance(a.rhs, E) and \
                ('self.data_pid' in a.rhs.sigs() or any('self.data_pid' in x for x, _ in q.atoms(a))):
            cand.setdefault(a.lhs.canon(), []).append(a)
    tabs = [(n, q.const_table(ds, 'self.data_pid')) for n, ds in sorted(cand.items())]
    tabs = [(n, t) for n, t in tabs if t is not None]
    ctx.need(len(tabs) >= 1, 'PID table lookup indexed by data_pid in USBDataPacketGenerator')
    for n_, t_ in tabs:
        els, a = t_[0], t_[1][0]
        ctx.need(all(isinstance(v, int) for v in els), 'constant entries of the PID table (found %s)' % els)
        ctx.ob('C15.pid-encoding', 'USBDataPacketGenerator.data_pid-table', els[:3] == [0xC3, 0x4B, 0x87], a.loc,
               'data_pid 0/1/2 must select DATA0 (0xC3) / DATA1 (0x4B) / DATA2 (0x87): table %s' % [hex(x) if isinstance(x, int) else x for x in els])
    d = ctx.ir('USBDevice', 'usb2.device', allow_opaque=True)
    w = d.drivers('transmitter.data_pid', exact=True)
    ctx.ob('C15.pid-path', 'USBDevice.transmitter.data_pid', len(w) == 1 and not w[0].guard and w[0].rhs.canon().endswith('.tx_pid_toggle'),
           w[0].loc if w else None, 'the data packet generator takes its PID index from the endpoints\' tx_pid_toggle: %s' % [q.fmt(a) for a in w])


def run(ctx):
    quick_s = [(1, 512), (3, 1024)]
    quick_m = [(1, 512)]
    if ctx.tier == 'thorough':
        quick_s += [(1, 64), (15, 512), (0, 1024), (7, 1023), (2, 8), (3, 16), (4, 9), (9, 200)]
        quick_m += [(3, 1024), (1, 64), (15, 8), (2, 16), (5, 1023)]
    check_configs(ctx, 'USBIsochronousStreamInEndpoint', 'isochronous_stream_in', 'IsoStreamIn', True, quick_s)
    check_configs(ctx, 'USBIsochronousInEndpoint', 'endpoints.isochronous', 'IsoMemIn', False, quick_m)
    check_pid_path(ctx)
