"""C26 -- stream arbiters and multiplexers forward whole bursts without loss."""
import itertools

from ..ir import E, Obj, ModuleIR, AnalysisError
from ..values import FuncRef
from .. import hdl
from .. import q

TITLE = 'Stream arbiter / multiplexer burst integrity'
FLOOR = 100
DECIDES = ('StreamArbiter and its two derived variants (HeaderQueueArbiter, SuperSpeedStreamArbiter) are lifted with '
           'N = 1..4 concrete inputs registered through their public add_stream/add_producer method (thorough: N up to 8); '
           'the extracted guarded assignments (Switch/Case arms with their priority negations, If nesting, last assignment '
           'wins, register widths) are then evaluated exhaustively over every reachable value of the clocked selection '
           'state, every valid vector and both values of the output ready, payload fields being symbolic.  Per class and '
           'N: (a) in every reachable state exactly one input is selected (the one whose valid shows on the output); '
           '(b) the output valid equals the selected input\'s valid and, while it is valid, every non-handshake field of '
           'the output record carries the same field of the selected input; (c) the selected input sees the output\'s '
           'ready while it offers a word and no other input that offers a word sees ready; (d) idle is 1 exactly when no '
           'input is valid (the idle default must lose against every candidate arm and the burst case); (e) the selection '
           'cannot change in a cycle in which the selected input is valid; (f) when the selected input is not valid and '
           'some input is, the next selection is the first-added valid input (scan order under last-wins); (g) the '
           'selection is held in a clocked register (no combinational loop through the output valid) wide enough for '
           'every index written to it.  StreamMultiplexer (N = 1..4, thorough 1..6, add_input): with at most one input valid the output '
           'carries exactly that input, ready returns to it alone, and nothing is valid when no input is. ')
NOT_DECIDED = ('the clock domain the selection register ends up in (the DomainRenamer applied to the module is not visible in '
               'the IR), the wiring of the producers at the instantiation sites, and behaviour of StreamMultiplexer when '
               'its one-talker assumption is violated.')

ARBITERS = (
    # class, module suffix, public registration method
    ('StreamArbiter', 'stream.arbiter', 'add_stream'),
    ('HeaderQueueArbiter', 'usb3.link.header', 'add_producer'),
    ('SuperSpeedStreamArbiter', 'usb.stream', 'add_stream'),
)


# ------------------------------------------------------------------------------------------ concrete extraction
def lift(ctx, clsname, mod, n, adder, out_attr):
    """ModuleIR of `clsname` with n inputs (named in0..in<n-1>, of the type of self.<out_attr>) registered through
    the public method `adder` before elaborate() is analysed.  Same procedure as sa.interp.extract, plus the calls."""
    from ..interp import Interp, _install
    key = ('C26', clsname, mod, n)
    if key in ctx._irs:
        return ctx._irs[key]
    index = ctx.index
    cls = index.find_class(clsname, mod)
    ip = Interp(index)
    _install(ip)
    ir = ModuleIR(cls.name, cls.mod.relpath)
    ip.ir = ir
    ip.curfile = cls.mod.relpath
    self_obj = Obj(cls, leaf='self')
    self_obj.named = True
    self_obj.is_record = hdl.is_record_class(ip, cls)
    ir.self_obj = self_obj
    init = index.find_method(cls, '__init__')
    ctx.need(init is not None, '%s.__init__' % clsname)
    ip.call_func(FuncRef(init[1], init[0].mod, self_obj=self_obj, cls=init[0], name='__init__'), [], {}, None)
    out = self_obj.attrs.get(out_attr)
    ctx.need(isinstance(out, Obj) and out.cls is not None and out.fields, 'output record %s.%s' % (clsname, out_attr))
    ad = index.find_method(cls, adder)
    ctx.need(ad is not None, 'registration method %s.%s' % (clsname, adder))
    ctx.need(len(ad[1].args.args) == 2, '%s.%s takes exactly the stream to add' % (clsname, adder))
    for i in range(n):
        s = ip.instantiate(out.cls, [], {}, None)
        ctx.need(isinstance(s, Obj) and s.fields == out.fields, 'input record instance for %s' % clsname)
        s.leaf, s.parent, s.named = 'in%d' % i, None, True
        ip.curfile = ad[0].mod.relpath
        ip.call_func(FuncRef(ad[1], ad[0].mod, self_obj=self_obj, cls=ad[0], name=adder), [s], {}, None)
    el = index.find_method(cls, 'elaborate')
    ctx.need(el is not None, '%s.elaborate' % clsname)
    ip.curfile = el[0].mod.relpath
    ip.callstack = []
    ir.result = ip.call_func(FuncRef(el[1], el[0].mod, self_obj=self_obj, cls=el[0], name='elaborate'), [None], {}, None)
    for si in ip._siglist:
        ir.signals.setdefault(si.name, si)
    for si in ip.interned.values():
        ir.signals.setdefault(si.name, si)
    ir.interp = ip
    if ir.opaque:
        src, loc, why = ir.opaque[0]
        raise AnalysisError('construct not understood inside %s (%s): %s -- %s' % (clsname, loc, why, src))
    if ir.cfg_forks:
        raise AnalysisError('%s with %d concrete inputs still has a symbolic loop: %s' % (clsname, n, ir.cfg_forks[0],))
    ctx._irs[key] = ir
    for c in (cls, el[0], ad[0], out.cls):
        ctx.files.add(c.mod.relpath)
    ctx.classes.add(cls.name)
    ctx.classes.add(out.cls.name)
    ctx.assign_sites += len(ir.assigns)
    ctx.helpers += ir.helpers_inlined
    ir.out_fields = list(out.fields)
    return ir


# ------------------------------------------------------------------------------------------ evaluation of the IR
class Unsupported(Exception):
    pass


class CombLoop(Exception):
    pass


class Tok(str):
    """Symbolic value of a free (undriven, not enumerated) signal: its name."""
    def __repr__(self):
        return '<%s>' % str(self)


class Net:
    """The extracted assignments as an executable netlist: concrete ints for control, tokens for payloads."""

    def __init__(self, ir):
        self.ir = ir
        self.comb = {}
        self.sync = {}
        for a in sorted(ir.assigns, key=lambda a: a.order):
            if a.state is not None or not isinstance(a.lhs, E) or a.lhs.op != 'sig' or not isinstance(a.rhs, E):
                raise Unsupported('assignment shape: %s' % q.fmt(a))
            for l in a.guard:
                if l.kind == 'cfg' or not isinstance(l.e, E):
                    raise Unsupported('guard literal %s of %s' % (l.canon(), q.fmt(a)))
            (self.comb if a.domain == 'comb' else self.sync).setdefault(a.lhs.args[0].name, []).append(a)
        self.both = sorted(set(self.comb) & set(self.sync))
        self.regs = sorted(self.sync)

    def width(self, name):
        si = self.ir.signals.get(name)
        if si is None or si.w is None:
            raise Unsupported('width of %s' % name)
        return si.w

    def init(self, name):
        si = self.ir.signals.get(name)
        v = si.init if si is not None else None
        if v is None:
            return 0
        if isinstance(v, E) and v.op == 'const':
            v = v.val
        if not isinstance(v, int):
            raise Unsupported('reset value of %s: %r' % (name, v))
        return int(v)

    # -- expressions
    def ev(self, e, env, busy):
        op = e.op
        if op == 'const':
            if not isinstance(e.val, int):
                raise Unsupported('constant %r' % (e.val,))
            return int(e.val)
        if op == 'sig':
            return self.sig(e.args[0].name, env, busy)[0]
        vals = [self.ev(a, env, busy) if isinstance(a, E) else a for a in e.args]
        if any(isinstance(v, Tok) for v in vals):
            raise Unsupported('operator %s applied to the payload %s' % (op, e.canon()))
        if op == '~':
            w = e.args[0].w
            if w is None:
                raise Unsupported('width of ' + e.canon())
            return ~vals[0] & ((1 << w) - 1)
        if op in ('&', '|', '^', '+'):
            r = vals[0]
            for v in vals[1:]:
                r = r & v if op == '&' else r | v if op == '|' else r ^ v if op == '^' else r + v
            return r
        if len(vals) == 2 and all(isinstance(v, int) for v in vals):
            a, b = vals
            if op == '==':
                return int(a == b)
            if op == '!=':
                return int(a != b)
            if op == '<':
                return int(a < b)
            if op == '<=':
                return int(a <= b)
            if op == '>':
                return int(a > b)
            if op == '>=':
                return int(a >= b)
            if op == '-' and a >= b:
                return a - b
        if op == 'slice' and isinstance(vals[0], int) and isinstance(vals[1], int) and isinstance(vals[2], int):
            return (vals[0] >> vals[1]) & ((1 << (vals[2] - vals[1])) - 1)
        if op == 'mux' and len(vals) == 3:
            return vals[1] if vals[0] else vals[2]
        if op == 'call' and e.args[0] in ('bool', 'any') and len(vals) == 2:
            return int(vals[1] != 0)
        raise Unsupported('expression %s' % e.canon())

    def holds(self, a, env, busy):
        for l in a.guard:
            v = self.ev(l.e, env, busy)
            if isinstance(v, Tok):
                raise Unsupported('payload %s used as a condition in %s' % (v, q.fmt(a)))
            if (v != 0) != l.pos:
                return False
        return True

    def sig(self, name, env, busy=()):
        """(value, winning assignment or None) of a signal in this cycle."""
        if name in env:
            return env[name], None
        memo = env.setdefault('$memo', {})
        if name in memo:
            return memo[name]
        if name in self.sync:
            raise Unsupported('clocked signal %s read but not part of the enumerated state' % name)
        ds = self.comb.get(name)
        if not ds:
            return Tok(name), None
        if name in busy:
            ex = CombLoop(' -> '.join(busy + (name,)))
            ex.loc = self.comb[name][0].loc
            raise ex
        busy = busy + (name,)
        val, win = self.init(name), None
        for a in ds:
            if self.holds(a, env, busy):
                val, win = self.ev(a.rhs, env, busy), a
        si = self.ir.signals.get(name)
        if isinstance(val, int) and si is not None and si.w is not None:
            val &= (1 << si.w) - 1
        memo[name] = (val, win)
        return val, win

    def step(self, env):
        """Next value of every clocked signal: {name: (value, winning assignment)}."""
        out = {}
        for name in self.regs:
            val, win = env[name], None
            for a in self.sync[name]:
                if self.holds(a, env, ()):
                    val, win = self.ev(a.rhs, env, ()), a
            if isinstance(val, Tok):
                raise Unsupported('payload %s stored in the selection state %s' % (val, name))
            out[name] = (val & ((1 << self.width(name)) - 1), win)
        return out


class Acc:
    """One obligation accumulated over the whole enumeration: first counterexample wins the message."""

    def __init__(self, rule, key, what):
        self.rule, self.key, self.what = rule, key, what
        self.n = 0
        self.bad = None
        self.loc = None

    def check(self, ok, where, got, win=None, loc=None):
        self.n += 1
        if not ok and self.bad is None:
            self.bad = '%s; %s' % (where, got)
            if win is not None:
                self.bad += '; decided by: ' + q.fmt(win)
                self.loc = win.loc
            elif loc is not None:
                self.loc = loc

    def emit(self, ctx, default_loc=None, vacuous_ok=False):
        ok = self.bad is None and (self.n > 0 or vacuous_ok)
        msg = self.what if self.bad is None else '%s -- violated: %s' % (self.what, self.bad)
        if self.n == 0 and not vacuous_ok:
            msg = self.what + ' -- never exercised (no reachable situation)'
        ctx.ob(self.rule, self.key, ok, self.loc or default_loc, msg)


def first_loc(net, name):
    ds = net.comb.get(name) or net.sync.get(name)
    return ds[0].loc if ds else None


def fmt_state(st):
    return ', '.join('%s=%d' % (q.base(k).split('.')[-1], v) for k, v in sorted(st.items())) or 'no state'


# ------------------------------------------------------------------------------------------ arbiter
def check_arbiter(ctx, clsname, mod, adder, n):
    tag = '%s[n=%d]' % (clsname, n)
    ir = lift(ctx, clsname, mod, n, adder, 'source')
    ctx.need(not ir.fsms, '%s has no FSM' % clsname)
    fields = ir.out_fields
    ctx.need('valid' in fields and 'ready' in fields, 'valid/ready fields of %s.source' % clsname)
    data = [f for f in fields if f not in ('valid', 'ready')]
    ctx.need(data, 'payload fields of %s.source' % clsname)
    for f in ('valid', 'ready'):
        si = ir.signals.get('self.source.' + f)
        ctx.need(si is not None and si.w == 1, '1-bit self.source.%s of %s' % (f, clsname))
    ctx.need('self.idle' in ir.signals, '%s.idle' % clsname)
    try:
        net = Net(ir)
    except Unsupported as ex:
        raise AnalysisError('%s: construct not understood: %s' % (tag, ex))
    OUT = 'self.source.'
    vin = ['in%d.valid' % i for i in range(n)]
    rin = ['in%d.ready' % i for i in range(n)]

    # (g) the selection state is clocked, and nothing is driven from both a clocked and a combinational statement
    reg_ok = bool(net.regs) and not net.both
    ctx.ob('C26.select-registered', tag + '.selection', reg_ok, first_loc(net, net.both[0]) if net.both else None,
           'the selection must be held in a clocked register (found clocked: %s; driven both ways: %s)' % (net.regs, net.both))
    for r in net.regs:
        w = net.width(r)
        consts = [a for a in net.sync[r] if a.rhs.op == 'const']
        bad = [a for a in consts if not (0 <= a.rhs.val < (1 << w))]
        ctx.ob('C26.select-range', '%s.%s' % (tag, q.base(r)), not bad, bad[0].loc if bad else ir.signals[r].loc,
               'every index written to the selection register must fit its %d bit(s) (declared range %s): %s' % (
                   w, ir.signals[r].rng, [q.fmt(a) for a in bad[:2]]))
    rloc = first_loc(net, net.regs[0]) if net.regs else None

    def mkenv(st, v, rdy):
        env = dict(st)
        for i in range(n):
            env[vin[i]] = v[i]
        env[OUT + 'ready'] = rdy
        return env

    def selected(st):
        """inputs whose lone valid shows on the output in state st"""
        out = []
        for i in range(n):
            v = tuple(int(j == i) for j in range(n))
            if net.sig(OUT + 'valid', mkenv(st, v, 0))[0] == 1:
                out.append(i)
        return out

    A = {
        'single': Acc('C26.single-selection', tag + '.source.valid',
                      'in every reachable selection state exactly one input is connected to the output'),
        'valid': Acc('C26.forward-valid', tag + '.source.valid',
                     'the output valid is the valid of the selected input and of no other'),
        'rsel': Acc('C26.ready-selected', tag + '.ready.selected',
                    'the selected input, while offering a word, sees exactly the ready of the output'),
        'roth': Acc('C26.ready-others', tag + '.ready.others',
                    'no input other than the selected one sees ready while it offers a word'),
        'idle': Acc('C26.idle', tag + '.idle', 'idle is 1 exactly when no input is valid'),
        'hold': Acc('C26.hold-during-burst', tag + '.selection.hold',
                    'the selection does not change in a cycle in which the selected input is valid'),
        'prio': Acc('C26.priority', tag + '.selection.next',
                    'when the selected input is not valid the first-added valid input is selected next'),
    }
    D = {f: Acc('C26.forward-data', '%s.source.%s' % (tag, f),
                'while the selected input is valid the output %s is that input\'s %s' % (f, f)) for f in data}

    init = {r: net.init(r) & ((1 << net.width(r)) - 1) for r in net.regs}
    seen, work = {}, [init]
    try:
        while work:
            st = work.pop()
            skey = tuple(sorted(st.items()))
            if skey in seen:
                continue
            sel = selected(st)
            seen[skey] = sel
            where0 = 'state {%s}' % fmt_state(st)
            A['single'].check(len(sel) == 1, where0, 'connected inputs: %s' % (['in%d' % i for i in sel] or 'none'),
                              loc=first_loc(net, OUT + 'valid'))
            k = sel[0] if len(sel) == 1 else None
            for v in itertools.product((0, 1), repeat=n):
                nxt = None
                for rdy in (0, 1):
                    env = mkenv(st, v, rdy)
                    where = '%s (in%s selected), valid=%s, source.ready=%d' % (where0, k, ''.join(map(str, v)), rdy)
                    ov, win = net.sig(OUT + 'valid', env)
                    idle, iwin = net.sig('self.idle', env)
                    A['idle'].check(idle == int(not any(v)), where, 'idle=%s' % idle, iwin, first_loc(net, 'self.idle'))
                    step = net.step(env)
                    nst = {r: step[r][0] for r in net.regs}
                    if nxt is None:
                        nxt = nst
                        work.append(nst)
                    elif nst != nxt:
                        work.append(nst)
                    if k is None:
                        continue
                    A['valid'].check(ov == v[k], where, 'source.valid=%s' % ov, win, first_loc(net, OUT + 'valid'))
                    if v[k]:
                        for f in data:
                            got, fw = net.sig(OUT + f, env)
                            D[f].check(got == Tok('in%d.%s' % (k, f)), where, 'source.%s=%r' % (f, got), fw,
                                       first_loc(net, OUT + f))
                        got, rw = net.sig(rin[k], env)
                        A['rsel'].check(got == rdy, where, 'in%d.ready=%r' % (k, got), rw, first_loc(net, rin[k]))
                    for i in range(n):
                        if i != k and v[i]:
                            got, rw = net.sig(rin[i], env)
                            A['roth'].check(got == 0, where, 'in%d.ready=%r' % (i, got), rw, first_loc(net, rin[i]))
                    # next selection
                    nkey = tuple(sorted(nst.items()))
                    nsel = seen[nkey] if nkey in seen else selected(nst)
                    wins = [w_ for _, w_ in step.values() if w_ is not None]
                    nwin = wins[-1] if wins else None
                    if v[k]:
                        A['hold'].check(nsel == [k], where, 'next state {%s} selects %s' % (fmt_state(nst), nsel), nwin, rloc)
                    elif any(v):
                        want = v.index(1)
                        A['prio'].check(nsel == [want], where, 'next state {%s} selects %s, expected in%d' % (
                            fmt_state(nst), nsel, want), nwin, rloc)
    except CombLoop as ex:
        # nothing below can be established: every clause of this configuration fails with the loop as the reason
        loop = 'combinational loop %s' % ex
        ctx.ob('C26.select-registered', tag + '.comb-loop', False, getattr(ex, 'loc', rloc), loop)
        for acc in list(A.values()) + list(D.values()):
            acc.n += 1
            acc.bad = acc.bad or ('not established because of a ' + loop)
        seen = {}
    except Unsupported as ex:
        raise AnalysisError('%s: construct not understood: %s' % (tag, ex))
    else:
        ctx.ob('C26.select-registered', tag + '.comb-loop', True, rloc, 'no combinational loop through the selection')
    for key in ('single', 'valid', 'rsel', 'roth', 'idle', 'hold', 'prio'):
        # with one input there is never another input nor another candidate to switch to
        A[key].emit(ctx, first_loc(net, OUT + 'valid'), vacuous_ok=(n == 1 and key in ('roth', 'prio')))
    for f in data:
        D[f].emit(ctx, first_loc(net, OUT + f) or first_loc(net, OUT + 'valid'))
    # every registered input must be selectable at all (reachability of the N selections)
    reach = sorted({s[0] for s in seen.values() if len(s) == 1})
    ctx.ob('C26.priority', tag + '.selection.reachable', reach == list(range(n)), rloc,
           'every registered input can become the selected one: reachable selections %s of %d inputs' % (reach, n))


# ------------------------------------------------------------------------------------------ multiplexer
def check_mux(ctx, n):
    clsname = 'StreamMultiplexer'
    tag = '%s[n=%d]' % (clsname, n)
    ir = lift(ctx, clsname, 'stream.arbiter', n, 'add_input', 'output')
    fields = ir.out_fields
    ctx.need('valid' in fields and 'ready' in fields, 'valid/ready fields of StreamMultiplexer.output')
    data = [f for f in fields if f not in ('valid', 'ready')]
    try:
        net = Net(ir)
    except Unsupported as ex:
        raise AnalysisError('%s: construct not understood: %s' % (tag, ex))
    ctx.ob('C26.mux-combinational', tag, not net.regs, first_loc(net, net.regs[0]) if net.regs else None,
           'the multiplexer performs no scheduling and keeps no state: %s' % net.regs)
    if net.regs:
        return
    OUT = 'self.output.'
    a_valid = Acc('C26.mux-forward', tag + '.output.valid', 'output.valid is 1 for a lone valid input and 0 when none is')
    a_data = {f: Acc('C26.mux-forward', '%s.output.%s' % (tag, f), 'a lone valid input\'s %s reaches the output' % f)
              for f in data}
    a_rdy = Acc('C26.mux-ready', tag + '.ready', 'a lone valid input sees exactly the ready of the output')
    try:
        for k in [None] + list(range(n)):
            v = tuple(int(i == k) for i in range(n))
            for rdy in (0, 1):
                env = {'in%d.valid' % i: v[i] for i in range(n)}
                env[OUT + 'ready'] = rdy
                where = 'valid=%s, output.ready=%d' % (''.join(map(str, v)), rdy)
                ov, win = net.sig(OUT + 'valid', env)
                a_valid.check(ov == int(k is not None), where, 'output.valid=%r' % (ov,), win, first_loc(net, OUT + 'valid'))
                if k is None:
                    continue
                for f in data:
                    got, fw = net.sig(OUT + f, env)
                    a_data[f].check(got == Tok('in%d.%s' % (k, f)), where, 'output.%s=%r' % (f, got), fw,
                                    first_loc(net, OUT + f))
                got, rw = net.sig('in%d.ready' % k, env)
                a_rdy.check(got == rdy, where, 'in%d.ready=%r' % (k, got), rw, first_loc(net, 'in%d.ready' % k))
    except CombLoop as ex:
        ctx.ob('C26.mux-combinational', tag + '.comb-loop', False, getattr(ex, 'loc', None), 'combinational loop: %s' % ex)
        return
    except Unsupported as ex:
        raise AnalysisError('%s: construct not understood: %s' % (tag, ex))
    vloc = first_loc(net, OUT + 'valid')
    a_valid.emit(ctx, vloc)
    for f in data:
        a_data[f].emit(ctx, first_loc(net, OUT + f) or vloc)
    a_rdy.emit(ctx, vloc)


def run(ctx):
    # the generic (symbolic-collection) lifting must understand the classes too: anchors + no opaque construct
    for clsname, mod, adder in ARBITERS:
        ctx.ir(clsname, mod)
        ctx.func(clsname, adder, mod)
    sizes = (1, 2, 3, 4)
    if ctx.tier == 'thorough':
        sizes = (1, 2, 3, 4, 5, 6, 7, 8)
    for clsname, mod, adder in ARBITERS:
        for n in sizes:
            check_arbiter(ctx, clsname, mod, adder, n)
    for n in sizes[:6]:
        check_mux(ctx, n)
