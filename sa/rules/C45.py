"""C45 -- transaction packet requests produce the requested transaction packet."""
from ..ir import E
from .. import q
from ..fsm import unreachable_states, state_outcomes

TITLE = 'transaction packet generator'
FLOOR = 20
DECIDES = ('(a) TransactionPacketGenerator has no unreachable state and every send_ack / send_stall / send_nrdy / '
           'send_erdy request leads (exact last-wins outcome with only that request raised) to a state whose packet '
           'subtype folds to the USB3 value of that request (ACK 1, NRDY 2, ERDY 3, STALL 5) with type TRANSACTION; '
           '(b) address, endpoint number, retry flag and sequence number are latched only in the state that presents '
           'interface.ready, from the interface inputs, and the sending states read only those latched copies; '
           '(c) each sending state holds header valid and leaves only on header_source.ready, to the dispatch state, '
           'raising done; (d) interface.ready is low in every state other than the dispatch state (exact evaluation of all its drivers). '
           'The latched copies are at least as wide as the header fields they fill (address 7, endpoint 4, retry 1, sequence 5 bits). ')
NOT_DECIDED = 'behaviour when several requests are raised in the same cycle (priority is by statement order); the header queue downstream.'

SPEC = {'ack': 1, 'nrdy': 2, 'erdy': 3, 'stall': 5}      # USB 3.2 table 8-12 (transaction packet subtypes)
TRANSACTION_TYPE = 4                                       # USB 3.2 table 8-2: TP = 00100b


def run(ctx):
    ir = ctx.ir('TransactionPacketGenerator', 'usb3.protocol.transaction')
    fsm = ctx.the_fsm(ir)
    reqs_ = ['self.interface.send_' + k for k in SPEC]
    # the dispatch state by role: the state whose outgoing edges test the send_* requests
    cand = {e.src for e in fsm.edges if any(q.has(e, r) for r in reqs_)}
    ctx.need(len(cand) == 1, 'the dispatch state (its edges test the send_* requests; found %s)' % sorted(map(str, cand)))
    disp = cand.pop()
    rd = q.raises(ir, 'self.interface.ready')
    ctx.need(rd, 'a driver of interface.ready')
    # "ready" promises that a request raised in this very cycle is dispatched: it may be raised only while the FSM is in
    # the dispatch state -- whatever else holds (exact evaluation of every driver in every other state)
    from ..fsm import lit_atoms, assignments, holds, eval_bool
    for st_ in fsm.states:
        if st_ == disp:
            continue
        live = []
        for a in rd:
            if a.state is not None and a.state != (fsm.id, st_):
                continue
            atoms_ = [x for l in a.guard for x in lit_atoms(l)]
            leaves = sorted(set(q.bool_leaves(a.rhs)) | set(atoms_))
            for asg in q.all_assignments(leaves):
                if holds(a.guard, asg) and (a.rhs.op == 'const' and a.rhs.val or a.rhs.op != 'const' and eval_bool(a.rhs, asg)):
                    live.append((a, {k: v for k, v in asg.items() if v}))
                    break
        ctx.ob('C45.ready-only-in-dispatch', 'TransactionPacketGenerator.ready@%s' % st_, not live, live[0][0].loc if live else fsm.state_loc[st_],
               'interface.ready must be low outside the dispatch state: a request strobed while ready is high in state %s is never '
               'dispatched; ready is raised there when %s' % (st_, live[0][1] if live else None))
    in_disp = [a for a in rd if a.state is None or a.state == (fsm.id, disp)]
    ctx.ob('C45.ready-only-in-dispatch', 'TransactionPacketGenerator.ready@dispatch', bool(in_disp), rd[0].loc,
           'interface.ready is raised in the dispatch state')
    ctx.ob('C45.dispatch-is-init', 'TransactionPacketGenerator.dispatch', disp == fsm.init, fsm.loc, 'ready state is the initial state')
    un = unreachable_states(fsm)
    ctx.ob('C45.reachable', 'TransactionPacketGenerator.states', not un, fsm.loc, 'unreachable states: %s' % un)
    reqs = ['self.interface.send_' + k for k in SPEC]
    latched = {}
    for a in ir.assigns:
        if a.domain != 'comb' and a.state and isinstance(a.rhs, E) and a.lhs.op == 'sig':
            latched.setdefault(a.lhs.canon(), []).append(a)
    want_latch = {'self.address', 'self.interface.endpoint_number', 'self.interface.retry_required',
                  'self.interface.next_sequence'}
    src_of = {}
    for reg, ds in latched.items():
        ok = all(q.state_of(d) == disp and not d.guard for d in ds) and len({d.rhs.canon() for d in ds}) == 1
        # ... and in the clock domain of the FSM whose state enables the latch: a latch clocked elsewhere samples the inputs at
        # an edge that has nothing to do with the request strobe
        ctx.ob('C45.latch-domain', 'TransactionPacketGenerator.latch<-%s.domain' % ds[0].rhs.canon(),
               all(d.domain == fsm.domain for d in ds), ds[0].loc,
               'the parameter register %s must be clocked by the domain of the FSM (%s): %s' % (reg, fsm.domain, sorted({d.domain for d in ds})))
        ctx.ob('C45.latch-only-in-dispatch', 'TransactionPacketGenerator.latch<-' + ds[0].rhs.canon(), ok, ds[0].loc,
               'parameter registers may only be written in the dispatch state: %s' % [q.fmt(d) for d in ds])
        src_of[reg] = ds[0].rhs.canon()
    ctx.ob('C45.latch-complete', 'TransactionPacketGenerator.latched-set', want_latch <= set(src_of.values()), fsm.loc,
           'address, endpoint number, retry flag and sequence number must all be latched; latched: %s' % sorted(src_of.values()))
    inv = {v: k for k, v in src_of.items()}
    # a latched copy must hold the whole header field it fills (USB 3.2 table 8-13: address 7, endpoint 4, retry 1,
    # sequence number 5 bits), otherwise the upper bits requested are lost between request and packet
    FIELD_W = {'self.address': 7, 'self.interface.endpoint_number': 4, 'self.interface.retry_required': 1,
               'self.interface.next_sequence': 5}
    for src, fw in sorted(FIELD_W.items()):
        reg = inv.get(src)
        if reg is None:
            continue
        si = ir.signals.get(reg)
        ctx.ob('C45.latch-width', 'TransactionPacketGenerator.latch<-%s.width' % src, si is not None and isinstance(si.w, int) and si.w >= fw,
               si.loc if si is not None else fsm.loc,
               'the register %s latching %s is %s bits wide, the header field it fills has %d' % (reg, src, si.w if si else None, fw))
    for kind, sub in SPEC.items():
        req = 'self.interface.send_' + kind
        asg = {r: (r == req) for r in reqs}
        outs = state_outcomes(fsm, disp, asg)
        ok = len(outs) == 1 and None not in outs
        st = list(outs)[0] if ok else None
        ctx.ob('C45.request-state', 'TransactionPacketGenerator.send_%s.dispatch' % kind, ok and st != disp, fsm.state_loc[disp],
               'send_%s alone must move to a sending state: outcomes %s' % (kind, sorted(map(str, outs))))
        if not ok or st not in fsm.states:
            continue
        here = [a for a in ir.assigns if a.state == (fsm.id, st)]
        vals = {q.base(a.lhs.canon()): a for a in here}
        def const_of(name):
            a = vals.get(name)
            return a.rhs.val if a is not None and a.rhs.op == 'const' and not a.guard else None
        ctx.ob('C45.subtype', 'TransactionPacketGenerator.send_%s.subtype' % kind, const_of('response.subtype') == sub,
               vals['response.subtype'].loc if 'response.subtype' in vals else fsm.state_loc[st],
               'request send_%s must produce subtype %d, state %s sends %r' % (kind, sub, st, const_of('response.subtype')))
        ctx.ob('C45.type', 'TransactionPacketGenerator.send_%s.type' % kind, const_of('response.type') == TRANSACTION_TYPE,
               fsm.state_loc[st], 'header type must be TRANSACTION (4)')
        ctx.ob('C45.valid', 'TransactionPacketGenerator.send_%s.valid' % kind,
               const_of('self.header_source.valid') == 1 and 'self.header_source.header' in vals and
               q.base(vals['self.header_source.header'].rhs.canon()) == 'response', fsm.state_loc[st],
               'sending state must present the response header as valid')
        fields = [('response.device_address', 'self.address'), ('response.endpoint_number', 'self.interface.endpoint_number')]
        if kind == 'ack':
            fields += [('response.retry', 'self.interface.retry_required'),
                       ('response.data_sequence', 'self.interface.next_sequence')]
        for lhs, src in fields:
            a = vals.get(lhs)
            ok2 = a is not None and not a.guard and a.rhs.canon() == inv.get(src)
            ctx.ob('C45.latched-field', 'TransactionPacketGenerator.send_%s.%s' % (kind, lhs.split('.')[1]), ok2,
                   a.loc if a is not None else fsm.state_loc[st],
                   '%s must carry the value of %s latched at request time (register %s): %s' % (
                       lhs, src, inv.get(src), q.fmt(a) if a is not None else 'missing'))
        # no live interface input is read in a sending state
        live = [a for a in here if isinstance(a.rhs, E) and (a.rhs.sigs() & want_latch)]
        ctx.ob('C45.no-live-read', 'TransactionPacketGenerator.send_%s.reads' % kind, not live, fsm.state_loc[st],
               'sending state reads live request parameters: %s' % [q.fmt(a) for a in live])
        hold = state_outcomes(fsm, st, {'self.header_source.ready': False})
        go = state_outcomes(fsm, st, {'self.header_source.ready': True})
        done = [a for a in (q.fold(ir, x) for x in here) if a.lhs.canon() == 'self.interface.done' and
                q.atoms(a) == {('self.header_source.ready', True)} and q.is_one(a.rhs)]
        ctx.ob('C45.send-until-ready', 'TransactionPacketGenerator.send_%s.exit' % kind,
               set(hold) == {None} and set(go) == {disp} and len(done) == 1, fsm.state_loc[st],
               'sending state must hold until header_source.ready, then return to dispatch raising done: hold=%s go=%s' % (
                   sorted(map(str, hold)), sorted(map(str, go))))
    # the luna enum itself agrees with the spec values
    from ..hdl import class_attr
    en = ctx.index.find_class('TransactionPacketSubtype')
    for kind, sub in SPEC.items():
        v = class_attr(ir.interp, en, kind.upper())
        ctx.ob('C45.enum', 'TransactionPacketSubtype.' + kind.upper(), v == sub, None, 'enum value %r, spec %d' % (v, sub))
