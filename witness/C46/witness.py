"""Witness for C46 / F17: SuperSpeedStreamInEndpoint sequence numbering.  Run: PYTHONPATH=/repo /venv/bin/python witness.py"""
import sys
from amaranth import *
from amaranth.sim import Simulator
from luna.gateware.usb.usb3.endpoints.stream import SuperSpeedStreamInEndpoint
from luna.gateware.usb.usb3.link.data import DataPacketTransmitter

EP, MPS = 1, 16


class Top(Elaboratable):
    """Endpoint wired to the link's DataPacketTransmitter exactly as protocol/layer.py + link/layer.py do."""
    def __init__(self):
        self.ep = SuperSpeedStreamInEndpoint(endpoint_number=EP, max_packet_size=MPS)
        self.tx = DataPacketTransmitter()

    def elaborate(self, platform):
        m = Module()
        m.submodules.ep, m.submodules.tx = self.ep, self.tx
        i, t = self.ep.interface, self.tx
        m.d.comb += [
            t.data_sink.stream_eq(i.tx), t.send_zlp.eq(i.tx_zlp), t.data_length.eq(i.tx_length),
            t.endpoint_number.eq(i.tx_endpoint_number), t.sequence_number.eq(i.tx_sequence_number),
            t.direction.eq(i.tx_direction),
            t.header_source.ready.eq(1), t.data_source.ready.eq(1),
        ]
        return m


def run(scenario):
    dut = Top()
    ep, hs = dut.ep, dut.ep.interface.handshakes_in
    headers = []

    async def monitor(ctx):
        # DataHeaderPacket.DW1_LAYOUT: data_sequence[0:5] ... direction[7] endpoint_number[8:12] ... data_length[16:32]
        async for _, _, v, dw1 in ctx.tick('ss').sample(dut.tx.header_source.valid, dut.tx.header_source.header.dw1):
            if v:
                headers.append(dict(seq=dw1 & 0x1f, ep=(dw1 >> 8) & 0xf, length=dw1 >> 16))

    async def word(ctx, payload, last=0):
        ctx.set(ep.stream.payload, payload); ctx.set(ep.stream.valid, 0b1111); ctx.set(ep.stream.last, last)
        while not ctx.get(ep.stream.ready):
            await ctx.tick('ss')
        await ctx.tick('ss')
        ctx.set(ep.stream.valid, 0); ctx.set(ep.stream.last, 0)

    async def ack(ctx, next_seq, nump, retry=0):
        ctx.set(hs.endpoint_number, EP); ctx.set(hs.next_sequence, next_seq); ctx.set(hs.number_of_packets, nump)
        ctx.set(hs.retry_required, retry); ctx.set(hs.ack_received, 1)
        await ctx.tick('ss')
        ctx.set(hs.ack_received, 0)
        await ctx.tick('ss').repeat(12)

    async def tb_a(ctx):
        # two short packets, the endpoint idle (no data) when the first is acknowledged
        await ctx.tick('ss').repeat(2)
        await word(ctx, 0x11111111)
        await word(ctx, 0x11111112, last=1)
        await ctx.tick('ss').repeat(2)
        await ack(ctx, next_seq=0, nump=1)          # IN request -> DP seq 0
        await ack(ctx, next_seq=1, nump=0)          # host ACKs seq 0, expects seq 1 next
        await word(ctx, 0x22222221)
        await word(ctx, 0x22222222, last=1)
        await ctx.tick('ss').repeat(2)
        await ack(ctx, next_seq=1, nump=1)          # IN request -> DP must carry seq 1

    async def tb_d(ctx):
        # as B, then the host asks for a retry of the ZLP and finally acknowledges it
        await tb_b(ctx)
        await ack(ctx, next_seq=2, nump=1, retry=1) # retry -> the same ZLP (seq 2) again
        await ack(ctx, next_seq=3, nump=0)          # ZLP accepted -> nothing more to send

    async def tb_c(ctx):
        # one packet of a single word (4 bytes)
        await ctx.tick('ss').repeat(2)
        await word(ctx, 0x33333333, last=1)
        await ctx.tick('ss').repeat(2)
        await ack(ctx, next_seq=0, nump=1)          # IN request -> DP seq 0, ep 1, length 4

    async def tb_b(ctx):
        # 2 x max-size packets, the stream ending exactly at the end of the second: ZLP must follow, seq 2
        await ctx.tick('ss').repeat(2)
        for k in range(8):
            if k == 4:
                await ack(ctx, next_seq=0, nump=1)  # IN request -> DP seq 0 (16 bytes)
            await word(ctx, 0x01010101 * (k + 1), last=(k == 7))
        await ack(ctx, next_seq=1, nump=1)          # ACK seq 0 + IN request -> DP seq 1 (16 bytes)
        await ack(ctx, next_seq=2, nump=1)          # ACK seq 1 + IN request -> ZLP, must be seq 2 / ep 1

    sim = Simulator(dut)
    sim.add_clock(8e-9, domain='ss')
    sim.add_testbench(monitor, background=True)
    sim.add_testbench({'a': tb_a, 'b': tb_b, 'c': tb_c, 'd': tb_d}[scenario])
    sim.run()
    return headers


a = run('a')
print('A: data-packet headers sent:', a)
print('A: expected (seq, ep, len) [(0,1,8), (1,1,8)]; got', [(h['seq'], h['ep'], h['length']) for h in a])
b = run('b')
print('B: data-packet headers sent:', b)
print('B: expected (seq, ep, len) [(0,1,16), (1,1,16), (2,1,0)]; got', [(h['seq'], h['ep'], h['length']) for h in b])
c = run('c')
print('C: expected (seq, ep, len) [(0,1,4)]; got', [(h['seq'], h['ep'], h['length']) for h in c])
d = run('d')
print('D: expected (seq, ep, len) [(0,1,16), (1,1,16), (2,1,0), (2,1,0)]; got', [(h['seq'], h['ep'], h['length']) for h in d])
