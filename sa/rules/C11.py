"""C11 -- bulk/interrupt IN endpoints deliver the stream exactly once, in order."""
from ..ir import E
from .. import q
from ..fsm import state_outcomes, reachable, lit_atoms, assignments, holds

TITLE = 'bulk IN exactly-once'
FLOOR = 20
DECIDES = ('On USBInTransferManager (states by role: wait-for-data = initial, ack-wait = the state consuming handshakes_in.ack, '
           'send = the state holding packet_stream.valid, staged = the state answering IN tokens): (a) handshakes_in.ack is read '
           'only in the ack-wait state; that state is entered only on edges on which this manager presented its own packet (last '
           'byte accepted, or the zero-length packet) and is left on any new token without ACK (retry) back to the staged state, '
           'an edge that writes neither toggle, buffer selection nor fill counts; (b) every flip of the buffer selection is '
           'paired with a flip of data_pid[0] under the same guard, and happens only when a new packet is staged: leaving '
           'wait-for-data on packet-ready or in the ack-wait state under ACK; the only other data_pid writers are the ZLP '
           'follow-up (under ACK), the discard undo and reset_sequence; wait-for-data is entered only under ACK or discard; '
           '(c) NAK is requested only in wait-for-data for an IN token to this endpoint after the gap; (d) the input stream is '
           'accepted only while the write buffer is neither full nor ended; the sent buffer\'s fill count is cleared only under ACK '
           '(or discard); (e) a staged packet is sent only for an IN token of this endpoint after the inter-packet gap: a zero-'
           'length packet iff the fill count is zero, the follow-up ZLP iff fill == max & stream ended & generate_zlps; the send '
           'state walks the buffer with first/last from position and fill count; with the ZLP owed, the acknowledged ack-wait state '
           'returns to the staged state without switching buffers or clearing stream-ended, whatever else holds (exact outcome). ')
NOT_DECIDED = 'equality of the delivered byte stream with the input stream over all histories.'
ACK = 'self.handshakes_in.ack'
NT = 'self.tokenizer.new_token'
INTOK = {('self.active', True), ('self.tokenizer.is_in', True), ('self.tokenizer.ready_for_response', True)}


def run(ctx):
    for mps in ((64,) if ctx.tier != 'thorough' else (8, 64, 512)):
        check(ctx, mps)


def _can_fire(items, assume):
    """Indices of the items (assignments / edges) whose guard holds for some valuation of the guard atoms under `assume`."""
    atoms = []
    for it in items:
        for l in it.guard:
            atoms += list(lit_atoms(l))
    out = set()
    for asg in assignments(atoms, assume):
        for i, it in enumerate(items):
            if holds(it.guard, asg):
                out.add(i)
    return out


def check(ctx, mps):
    tag = '[mps=%d]' % mps
    ir = ctx.ir('USBInTransferManager', 'usb2.transfer', max_packet_size=mps)
    fsm = ctx.the_fsm(ir)
    W = fsm.init
    ack_users = [x for x in list(fsm.edges) + ir.assigns if any(a == ACK for a, _ in q.atoms(x))]
    A = {x.state[1] if x.state else None for x in ack_users}
    ctx.ob('C11.ack-scope', 'USBInTransferManager.handshakes_in.ack' + tag, len(A) == 1 and None not in A, ack_users[0].loc if ack_users else None,
           'the host ACK may only be consulted in one state (found in %s)' % sorted(map(str, A)))
    ctx.need(len(A) == 1 and None not in A, 'ack-wait state')
    A = A.pop()
    send = {q.state_of(a) for a in q.raises(ir, 'self.packet_stream.valid') if not a.guard}
    ctx.need(len(send) == 1, 'send state (holds packet_stream.valid)')
    S = send.pop()
    staged = {e.src for e in fsm.in_edges(S)}
    ctx.need(len(staged) == 1, 'staged state (answers IN tokens)')
    R = staged.pop()
    role = {W: 'wait-for-data', A: 'ack-wait', S: 'send', R: 'staged'}
    ctx.ob('C11.states', 'USBInTransferManager.states' + tag, len(set(role)) == 4 and set(fsm.states) == set(role), fsm.loc, 'four distinct roles: %s' % role)
    # (a) entry into ack-wait only with own packet
    for e in fsm.in_edges(A):
        if e.src == S:
            ok = q.has(e, 'self.packet_stream.ready') and any(a.startswith('(1 + send_position) == ') and p for a, p in q.atoms(e))
        else:
            zl = [a for a in q.raises(ir, 'self.packet_stream.valid') if a.state == e.state and q.atoms(a) == q.atoms(e)]
            ll = [a for a in q.raises(ir, 'self.packet_stream.last') if a.state == e.state and q.atoms(a) == q.atoms(e)]
            ok = e.src == R and len(zl) == 1 and len(ll) == 1 and INTOK <= q.atoms(e)
        ctx.ob('C11.ack-wait-entry', 'USBInTransferManager.%s->ack-wait%s' % (role.get(e.src, e.src), tag), ok, e.loc,
               'the ack-wait state may only be entered when this manager just completed its own packet: %s' % q.fmt(e)[:300])
    o = state_outcomes(fsm, A, {NT: True, 'self.discard': False, ACK: False})
    ctx.ob('C11.retry-on-token', 'USBInTransferManager.ack-wait.new-token' + tag, set(o) == {R}, fsm.state_loc[A],
           'a new token without ACK means the host did not get the packet: back to the staged state: %s' % sorted(map(str, o)))
    hold = state_outcomes(fsm, A, {NT: False, 'self.discard': False, ACK: False})
    ctx.ob('C11.retry-on-token', 'USBInTransferManager.ack-wait.hold' + tag, set(hold) == {None}, fsm.state_loc[A], 'otherwise wait')
    retry_edges = [e for e in fsm.out_edges(A) if q.has(e, NT) and not q.has(e, ACK)]
    touched = [a for a in ir.assigns if a.state == (fsm.id, A) and a.domain != 'comb' and not q.has(a, ACK) and not q.has(a, 'self.discard')]
    ctx.ob('C11.retry-keeps-packet', 'USBInTransferManager.ack-wait.retry-writes' + tag, len(retry_edges) == 1 and not touched, retry_edges[0].loc if retry_edges else None,
           'the retry path must not touch toggle, buffer selection or fill counts: %s' % [q.fmt(a) for a in touched])
    # (b) toggle / buffer pairing
    bt = [a for a in ir.drivers('self.buffer_toggle', exact=True)]
    pidd = q.merged_drivers(ir, 'self.data_pid')       # both bits written separately under one guard = one whole write
    pid0 = [a for a in pidd if a.lhs.canon() == 'self.data_pid[0:1]']
    pidw = [a for a in pidd if a.lhs.canon() == 'self.data_pid']
    for i, a in enumerate(bt):
        twin = [p for p in pid0 if p.state == a.state and q.atoms(p) == q.atoms(a) and p.rhs.canon() == '~self.data_pid[0:1]']
        where = q.state_of(a)
        ok_site = (where == W and any(e.dst == R and q.atoms(e) == q.atoms(a) for e in fsm.out_edges(W))) or (where == A and q.has(a, ACK))
        ctx.ob('C11.toggle-with-buffer', 'USBInTransferManager.buffer_toggle@%s%s' % (role.get(where, where), tag), a.rhs.canon() == '~self.buffer_toggle' and len(twin) == 1 and ok_site, a.loc,
               'switching buffers stages a new packet: it must flip data_pid[0] under the same guard and happen only on packet-ready in wait-for-data or under ACK: %s' % q.fmt(a)[:250])
    ctx.ob('C11.toggle-with-buffer', 'USBInTransferManager.buffer_toggle.sites' + tag, len(bt) == 2, None, 'two staging sites')
    for p in pid0:
        where = q.state_of(p)
        paired = any(b.state == p.state and q.atoms(b) == q.atoms(p) for b in bt)
        zlp = where == A and q.has(p, ACK) and q.has(p, 'self.generate_zlps')
        undo = where == R and q.atoms(p) == {('self.discard', True)}
        ctx.ob('C11.toggle-sites', 'USBInTransferManager.data_pid[0]@%s.%s%s' % (role.get(where, where), 'paired' if paired else 'zlp' if zlp else 'undo' if undo else 'other', tag),
               p.rhs.canon() == '~self.data_pid[0:1]' and (paired or zlp or undo), p.loc,
               'data_pid[0] may flip only with a buffer switch, for the follow-up ZLP under ACK, or to undo a discarded packet: %s' % q.fmt(p)[:250])
    for p in pidw:
        ok = q.has(p, 'self.reset_sequence') and p.rhs.canon() in ('self.start_with_data1', '~self.start_with_data1')
        ctx.ob('C11.toggle-sites', 'USBInTransferManager.data_pid.reset@%s%s' % (role.get(q.state_of(p), 'any'), tag), ok, p.loc, 'whole-PID writes only for reset_sequence: %s' % q.fmt(p))
    for e in fsm.in_edges(W):
        ok = q.has(e, ACK) or q.atoms(e) == {('self.discard', True)}
        ctx.ob('C11.wait-for-data-entry', 'USBInTransferManager.%s->wait-for-data%s' % (role.get(e.src, e.src), tag), ok, e.loc, 'back to wait-for-data only after ACK or discard: %s' % q.fmt(e)[:200])
    # (c) NAK
    nk = q.raises(ir, 'self.handshakes_out.nak')
    ok = len(nk) == 1 and q.state_of(nk[0]) == W and q.is_one(nk[0].rhs) and q.atoms(nk[0]) == INTOK
    ctx.ob('C11.nak', 'USBInTransferManager.nak' + tag, ok, nk[0].loc if nk else None, 'NAK only while no packet is staged, for an IN token to this endpoint after the gap: %s' % [q.fmt(a) for a in nk])
    # (d)
    rd = ir.drivers('self.transfer_stream.ready', exact=True)
    wf = 'Array[buffer_fill_count[0], buffer_fill_count[1]][self.buffer_toggle]'
    we = 'Array[stream_ended_in_buffer0, stream_ended_in_buffer1][self.buffer_toggle]'
    rf = wf.replace('[self.buffer_toggle]', '[~self.buffer_toggle]')
    re_ = we.replace('[self.buffer_toggle]', '[~self.buffer_toggle]')
    ok = len(rd) == 1 and not rd[0].guard and q.conj(rd[0].rhs) == {('%d == %s' % (mps, wf), False), (we, False)}
    ctx.ob('C11.accept-when-room', 'USBInTransferManager.transfer_stream.ready' + tag, ok, rd[0].loc if rd else None,
           'input is accepted only while the write buffer is neither full nor ended: %s' % [a.rhs.canon() for a in rd])
    # every write that empties a buffer (through the read-side selection or addressed to one element of the pair) is under ACK
    # or is the discard; the ACK one is there, and it empties the buffer just sent
    elems = {x.strip() for x in rf[len('Array['):rf.rindex('][')].split(',')}
    clr = [a for a in ir.assigns if (a.lhs.canon() == rf or a.lhs.canon() in elems) and q.is_zero(a.rhs)]
    ok = bool(clr) and all(q.has(a, ACK) or q.atoms(a) == {('self.discard', True)} for a in clr) and \
        any(q.has(a, ACK) and a.lhs.canon() == rf for a in clr) and any(q.atoms(a) == {('self.discard', True)} for a in clr)
    ctx.ob('C11.fill-cleared-on-ack', 'USBInTransferManager.read_fill_count.clear' + tag, ok, clr[0].loc if clr else None,
           'the sent buffer is released only under ACK (or discard): %s' % [q.fmt(a)[:160] for a in clr])
    inc = [a for a in ir.assigns if a.lhs.canon() == wf and a.rhs.canon() == '1 + ' + wf]
    EN = 'Array[buffer_write_ports[0].en, buffer_write_ports[1].en][self.buffer_toggle]'
    en = [a for a in ir.assigns if a.lhs.canon() == EN]
    ok = len(inc) == 1 and q.atoms(inc[0]) == {('self.discard', False), (EN, True)} and len(en) == 1 and not en[0].guard and \
        q.conj(en[0].rhs) == {('self.transfer_stream.ready', True), ('self.transfer_stream.valid', True)}
    ctx.ob('C11.fill-count', 'USBInTransferManager.write_fill_count.inc' + tag, ok, inc[0].loc if inc else None,
           'the write fill count counts exactly the accepted bytes (valid & ready), which are the bytes written to the buffer')
    wa = [a for a in ir.assigns if a.lhs.canon() in ('buffer_write_ports[0].addr', 'buffer_write_ports[1].addr')]
    wd = [a for a in ir.assigns if a.lhs.canon() in ('buffer_write_ports[0].data', 'buffer_write_ports[1].data')]
    ok = len(wa) == 2 and all(a.rhs.canon() == wf for a in wa) and len(wd) == 2 and all(a.rhs.canon() == 'self.transfer_stream.payload' for a in wd)
    ctx.ob('C11.fill-count', 'USBInTransferManager.buffer-write' + tag, ok, None, 'bytes are stored at the fill-count position')
    ra = [a for a in ir.assigns if a.lhs.canon() == 'Array[buffer_read_ports[0].addr, buffer_read_ports[1].addr][~self.buffer_toggle]']
    ok = len(ra) == 2 and {a.rhs.canon() for a in ra} == {'send_position', '1 + send_position'}
    ctx.ob('C11.send-walk', 'USBInTransferManager.buffer-read-addr' + tag, ok, None, 'the read address follows the send position (looking one ahead when a byte is accepted)')
    # (e)
    for e in fsm.out_edges(R):
        if e.dst in (S, A):
            want_fill = (rf, e.dst == S)
            alt_fill = ('0 == ' + rf, e.dst != S)          # the same test spelled `!= 0` / `.any()`
            ok = INTOK <= q.atoms(e) and (want_fill in q.atoms(e) or alt_fill in q.atoms(e)) and ('self.discard', False) in q.atoms(e)
            ctx.ob('C11.send-on-in-token', 'USBInTransferManager.staged->%s%s' % (role[e.dst], tag), ok, e.loc,
                   'a staged packet goes out only for an IN token to this endpoint after the gap; zero-length iff the fill count is zero: %s' % q.fmt(e)[:250])
    fz = [e for e in fsm.out_edges(A) if e.dst == R and q.has(e, ACK) and q.has(e, 'self.generate_zlps')]
    ok = len(fz) == 1 and {('%d == %s' % (mps, rf), True), (re_, True)} <= q.atoms(fz[0]) and \
        not any(b.state == fz[0].state and q.atoms(b) == q.atoms(fz[0]) for b in bt)
    ctx.ob('C11.follow-up-zlp', 'USBInTransferManager.ack-wait.zlp' + tag, ok, fz[0].loc if fz else None,
           'a full-size last packet of an ended stream is followed by a ZLP from the same (now empty) buffer: %s' % [q.fmt(e)[:200] for e in fz])
    # the owed ZLP has priority over everything else that an ACK can trigger (a packet of the NEXT transfer may already
    # be waiting in the other buffer): exact evaluation of the ack-wait state with the ZLP condition true
    zl = {ACK: True, 'self.generate_zlps': True, '%d == %s' % (mps, rf): True, re_: True, 'self.discard': False}
    o = state_outcomes(fsm, A, zl)
    swap = [a for a in bt if q.state_of(a) == A] + [a for a in ir.assigns if a.state == (fsm.id, A) and a.lhs.canon() == re_]
    live = [swap[i] for i in sorted(_can_fire(swap, zl))]
    ctx.ob('C11.follow-up-zlp', 'USBInTransferManager.ack-wait.zlp-wins' + tag, set(o) == {R} and not live,
           live[0].loc if live else fsm.state_loc[A],
           'when the acknowledged packet was full-size and ended the stream (ZLP owed) the manager must go back to the staged '
           'state with the same, now empty, buffer whatever else holds -- in particular when the other buffer already holds a '
           'packet: outcomes %s; buffer-switch / stream-ended writers that can fire: %s' % (
               sorted(map(str, o)), [q.fmt(a)[:200] for a in live]))
    ls = [a for a in ir.drivers('self.packet_stream.last', exact=True) if q.state_of(a) == S]
    ok = len(ls) == 1 and ls[0].rhs.canon() == '(1 + send_position) == ' + rf
    ctx.ob('C11.send-walk', 'USBInTransferManager.send.last' + tag, ok, ls[0].loc if ls else None, 'last marks the final byte of the fill count')
    sp = [a for a in ir.drivers('send_position', exact=True)]
    ok = any(q.state_of(a) == R and q.is_zero(a.rhs) and not a.guard for a in sp) and \
        any(q.state_of(a) == S and a.rhs.canon() == '1 + send_position' and q.atoms(a) == {('self.packet_stream.ready', True)} for a in sp) and len(sp) == 2
    ctx.ob('C11.send-walk', 'USBInTransferManager.send_position' + tag, ok, None, 'the send position restarts for every (re)transmission and advances per accepted byte')
    pl = ir.drivers('self.packet_stream.payload', exact=True)
    ok = len(pl) == 1 and pl[0].rhs.canon() == 'Array[buffer_read_ports[0].data, buffer_read_ports[1].data][~self.buffer_toggle]'
    ctx.ob('C11.send-walk', 'USBInTransferManager.packet_stream.payload' + tag, ok, None, 'payload is read from the buffer that is not being written')
