from amaranth import *
from amaranth.sim import Simulator
from luna.gateware.usb.usb3.application.request import SuperSpeedSetupDecoder
dut = SuperSpeedSetupDecoder()
sim = Simulator(dut); sim.add_clock(1e-8, domain='ss')
async def tb(ctx):
    rec=0
    async def cyc(data=0, valid=0, first=0, last=0, setup=0, good=0, bad=0):
        nonlocal rec
        ctx.set(dut.sink.data,data); ctx.set(dut.sink.valid,valid); ctx.set(dut.sink.first,first); ctx.set(dut.sink.last,last)
        ctx.set(dut.header_in.setup,setup); ctx.set(dut.rx_good,good); ctx.set(dut.rx_bad,bad)
        await ctx.tick('ss'); rec+=ctx.get(dut.packet.received)
    await cyc()
    # 4-byte packet with the setup flag, good
    await cyc(0x11223344,0xf,1,1,1); await cyc(); await cyc(good=1); await cyc()
    # 4-byte ordinary data packet (no setup flag), good
    await cyc(0x55667788,0xf,1,1,0); await cyc(); await cyc(good=1); await cyc(); await cyc()
    print('4-byte setup-flagged packet + 4-byte plain packet -> requests reported:', rec)
    rec=0
    await cyc(0x01000680,0xf,1,0,1); await cyc(0x00120000,0xf,0,1,1); await cyc(); await cyc(good=1); await cyc(); await cyc()
    print('proper 8-byte setup -> requests reported:', rec)
sim.add_testbench(tb); sim.run()
