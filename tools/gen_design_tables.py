#!/venv/bin/python
"""Regenerate the tables of DESIGN.md section 8 (between <!-- BEGIN:x --> / <!-- END:x --> markers) from
known_findings.json, seeded/*/meta.json and the rule modules.  Run by hand; the output is committed."""
import glob, importlib, json, os, re, sys

V = os.path.dirname(os.path.dirname(os.path.abspath(__file__)))
sys.path.insert(0, V)


def fixes():
    k = json.load(open(os.path.join(V, 'known_findings.json')))
    by = {}
    for f in k['fixed']:
        by.setdefault((f['commit'], f['property']), []).append(f)
    out = ['| property | /repo commit | what failed (obligation keys) |', '|---|---|---|']
    for (c, p), fs in sorted(by.items(), key=lambda x: x[0][1]):
        what = fs[0]['line'].split(' ', 3)[3] if fs[0]['line'].count(' ') >= 3 else fs[0]['line']
        keys = ', '.join('`%s`' % f['key'] for f in fs)
        out.append('| %s | `%s` | %s — %s |' % (p, c, what.replace('|', '\\|'), keys))
    return '\n'.join(out)


def opens():
    k = json.load(open(os.path.join(V, 'known_findings.json')))
    by = {}
    for f in k['open']:
        by.setdefault(f['property'], []).append(f)
    out = []
    for p in sorted(by):
        out.append('* **%s** (%d keys)' % (p, len(by[p])))
        for f in by[p]:
            out.append('  * `%s` — %s' % (f['key'], f['what'].replace('\n', ' ')))
    return '\n'.join(out)


def seeds():
    out = ['| seed | property | detected by (exit 1) | first run / note |', '|---|---|---|---|']
    for d in sorted(glob.glob(os.path.join(V, 'seeded', '*'))):
        mp = os.path.join(d, 'meta.json')
        if not os.path.exists(mp):
            continue
        m = json.load(open(mp))
        out.append('| %s | %s | %s | %s |' % (m['id'], m['property'], ', '.join(m.get('detected_by') or ['— (not detected)']),
                                              (m.get('note') or '').replace('|', '\\|')))
    return '\n'.join(out)


def rules():
    out = ['| property | obligations (quick) | decided clauses (from the rule module) |', '|---|---|---|']
    for f in sorted(glob.glob(os.path.join(V, 'sa', 'rules', 'C*.py'))):
        p = os.path.basename(f)[:-3]
        mod = importlib.import_module('sa.rules.' + p)
        n = ''
        ev = os.path.join(V, 'evidence', p + '.json')
        if os.path.exists(ev):
            n = json.load(open(ev))['coverage'].get('obligations', '')
        dec = ' '.join(getattr(mod, 'DECIDES', '').split())
        out.append('| %s %s | %s | %s |' % (p, getattr(mod, 'TITLE', ''), n, dec[:600].replace('|', '\\|') + ('…' if len(dec) > 600 else '')))
    return '\n'.join(out)


def main():
    path = os.path.join(V, 'DESIGN.md')
    s = open(path).read()
    for name, fn in (('FIXES', fixes), ('OPEN', opens), ('SEEDS', seeds), ('RULES', rules)):
        pat = re.compile(r'(<!-- BEGIN:%s -->\n).*?(<!-- END:%s -->)' % (name, name), re.S)
        if not pat.search(s):
            print('marker missing:', name)
            continue
        s = pat.sub(lambda m: m.group(1) + fn() + '\n' + m.group(2), s)
    open(path, 'w').write(s)


if __name__ == '__main__':
    main()
