"""C24 -- ULPI control registers always converge to the requested UTMI settings."""
from ..ir import E
from .. import q
from ..fsm import reachable, state_outcomes

TITLE = 'ULPI control register writes'
FLOOR = 12
DECIDES = ('(a) latched-transaction rule: in every non-idle state of ULPIRegisterWindow what is put on the ULPI bus may '
           'depend only on registers captured in the idle state, never on the live request inputs (address, write_data) '
           '-- otherwise a request that changes mid-transaction writes one register\'s value to another register; the '
           'contradiction "latched in idle but never read" is reported with it; (b) write attribution: the per-register '
           'write_done of ULPIControlTranslator must be tied to the address that was actually sent, not only to which '
           'register currently has priority; (c) register contents: Function Control (0x04) = Cat(xcvr_select[2], '
           'term_select, op_mode[2], 0, ~suspend, 0), OTG Control (0x0A) = Cat(id_pullup, dp_pulldown, dm_pulldown, '
           'dischrg_vbus, chrg_vbus, 0, 0, use_external_vbus_indicator) (ULPI 1.1 tables 7, 10), write command prefix '
           '0b10, each write_value follows its composite value while a change is pending and a write is requested '
           'exactly while shadow != value; (d) cross-gating: register writes start only when the transmitter is not busy '
           'and transmissions only when the control translator is not busy; every non-idle window state returns to '
           'idle or restarts (no dead end), an interrupted write (DIR) restarts from the command byte; (e) the control translator\'s '
           'registered busy flag is 1 in the very cycle a register write is requested (exact evaluation), so that the transmitter '
           'sees the bus taken when the register window starts driving it. '
           '(f) after done is raised no path restarts the transaction before the window is idle again (done commits the shadow register). ')
NOT_DECIDED = 'eventual convergence under an arbitrary PHY NXT/DIR schedule (a liveness property over histories).'


def run(ctx):
    _busy_covers_handover(ctx)
    w = ctx.ir('ULPIRegisterWindow', 'interface.ulpi')
    fsm = ctx.the_fsm(w)
    idle = fsm.init
    live = {'self.address': 'address', 'self.write_data': 'write_data'}
    latched = {}
    for a in w.assigns:
        if q.state_of(a) == idle and a.domain != 'comb' and isinstance(a.rhs, E) and a.rhs.op == 'sig' \
                and a.rhs.args[0].name in live and not a.guard:
            latched[a.rhs.args[0].name] = a.lhs.canon()
    def chain_of(req):
        st = [e.dst for e in fsm.out_edges(idle) if q.has(e, req)]
        ctx.need(len(st) == 1, 'start state for ' + req)
        order, work = [], [st[0]]
        while work:
            s_ = work.pop(0)
            if s_ in order or s_ == idle:
                continue
            order.append(s_)
            work += [e.dst for e in sorted(fsm.out_edges(s_), key=lambda e: e.order)]
        return order
    roles = {}
    for kind, req in (('read', 'self.read_request'), ('write', 'self.write_request')):
        for i, s_ in enumerate(chain_of(req)):
            roles.setdefault(s_, '%s-chain#%d' % (kind, i))
    for sig, short in live.items():
        uses = []
        for a in w.assigns:
            if q.state_of(a) in (None, idle):
                continue
            if isinstance(a.rhs, E) and sig in a.rhs.sigs():
                uses.append(a)
        reg = latched.get(sig)
        dead = reg is not None and not w.readers(reg)
        if not uses:
            ctx.ob('C24.latched-transaction', 'ULPIRegisterWindow.live-' + short, True, None, 'no live use of ' + sig)
        for a in uses:
            ctx.ob('C24.latched-transaction', 'ULPIRegisterWindow.live-%s@%s' % (short, roles.get(q.state_of(a), '?')), False,
                   a.loc, 'a non-idle state drives the ULPI bus from the live request input %s (%s@%s)%s' % (
                       sig, a.lhs.canon(), q.state_of(a),
                       '; the copy %s latched in idle is never read' % reg if dead else ''))
    # bus output sites use the right command prefixes
    outs = [a for a in w.drivers('self.ulpi_data_out', exact=True) if isinstance(a.rhs, E) and a.rhs.op == '|']
    pref = sorted(x.val for a in outs for x in a.rhs.args if x.op == 'const')
    ctx.ob('C24.command-prefix', 'ULPIRegisterWindow.commands', pref == [0x80, 0xC0], outs[0].loc if outs else None,
           'register write command must be 0b10xxxxxx and read 0b11xxxxxx: %s' % [hex(p) for p in pref])
    for st in fsm.states:
        if st == idle:
            continue
        r = reachable(fsm, st)
        ctx.ob('C24.no-dead-end', 'ULPIRegisterWindow.state#%d' % fsm.states.index(st), idle in r, fsm.state_loc[st],
               'state %s must be able to finish (reach idle)' % st)
    # interrupted write restarts at the command byte
    wr_start = [e.dst for e in fsm.out_edges(idle) if q.has(e, 'self.write_request')]
    ctx.need(len(wr_start) == 1, 'write start state')
    ws = wr_start[0]
    chain = [s for s in reachable(fsm, ws, stop={idle}) if s not in (idle, ws)]
    for st in chain:
        o = state_outcomes(fsm, st, {'self.ulpi_dir': True})
        ctx.ob('C24.interrupt-restarts', 'ULPIRegisterWindow.write-state#%d' % fsm.states.index(st), set(o) == {ws},
               fsm.state_loc[st], 'DIR during a write must restart it from the command byte: %s' % sorted(map(str, o)))
    # every entry into the state that offers the command byte must load that byte on the same edge (so a transfer restarted
    # after a DIR interruption starts again with the command, not with whatever was last on the bus)
    for kind, req, prefix in (('write', 'self.write_request', 0x80), ('read', 'self.read_request', 0xC0)):
        ch = chain_of(req)
        ctx.need(len(ch) >= 2, kind + ' chain')
        addr_state = ch[1]
        for e in fsm.in_edges(addr_state):
            loads = [a for a in w.drivers('self.ulpi_data_out', exact=True) if a.state == e.state and q.atoms(a) == q.atoms(e)
                     and isinstance(a.rhs, E) and a.rhs.op == '|' and any(x.op == 'const' and x.val == prefix for x in a.rhs.args)]
            ctx.ob('C24.command-on-restart', 'ULPIRegisterWindow.%s.%s->command-state' % (kind, roles.get(e.src, e.src)), len(loads) == 1, e.loc,
                   'entering the command state must (re)load the register %s command byte (%#x | address) on that edge: %s' % (kind, prefix, q.fmt(e)))
    done = q.raises(w, 'self.done')
    ctx.ob('C24.done', 'ULPIRegisterWindow.done', len(done) == 2 and all(a.state for a in done), None,
           'done is raised at the end of a read and of a write only')
    # done commits the shadow register of the control translator: once it is raised the transaction must not be restarted
    # (a write that is interrupted afterwards would be repeated for a request that has been withdrawn by then)
    starts = {e.dst for e in fsm.out_edges(idle)}
    for a in done:
        if not a.state:
            continue
        st = a.state[1]
        assume = {x: p for x, p in q.atoms(a)}         # q.raises folds `done.eq(cond)` into the guard
        try:
            outs = state_outcomes(fsm, st, assume)
        except Exception:
            outs = state_outcomes(fsm, st)
        bad = []
        for dst in outs:
            nxt = st if dst is None else dst
            if nxt == idle:
                continue
            back = sorted(s for s in reachable(fsm, nxt, stop={idle}) if s in starts) + ([nxt] if nxt in starts else [])
            if back:
                bad.append('%s -> %s' % (nxt, back))
        ctx.ob('C24.done-is-final', 'ULPIRegisterWindow.done@%s' % roles.get(st, st), not bad, a.loc,
               'after done is raised (state %s, under %s) the transaction can still be restarted before the window is idle again: %s '
               '-- the control translator has committed its shadow register by then, so the repeated transfer carries whatever '
               'is requested at that time' % (st, sorted(assume.items()), bad))
    stp = q.raises(w, 'self.ulpi_stop')
    ok = len(stp) == 1 and q.has(stp[0], 'self.ulpi_next') and q.has(stp[0], 'self.ulpi_dir', False) and \
        q.state_of(stp[0]) in chain
    ctx.ob('C24.done', 'ULPIRegisterWindow.stp', ok, stp[0].loc if stp else None,
           'STP is raised once, when the PHY accepts the data byte (NXT without DIR)')
    wdone = [d for d in done if q.state_of(d) in chain]
    ok = len(wdone) == 1 and q.has(wdone[0], 'self.ulpi_dir', False) and stp and \
        any(e.dst == q.state_of(wdone[0]) and q.atoms(e) == q.atoms(stp[0]) for e in fsm.edges)
    ctx.ob('C24.done', 'ULPIRegisterWindow.write-done', bool(ok), wdone[0].loc if wdone else None,
           'write completion is reported in the state entered together with STP, unless interrupted by DIR')

    # ---- control translator
    c = ctx.ir('ULPIControlTranslator', 'interface.ulpi')
    regs = {4: ('04', 'Cat(self.xcvr_select, self.term_select, self.op_mode, 0, ~self.suspend, 0)'),
            10: ('0a', 'Cat(self.id_pullup, self.dp_pulldown, self.dm_pulldown, self.dischrg_vbus, self.chrg_vbus, 0, 0, '
                       'self.use_external_vbus_indicator)')}
    for addr, (sfx, val) in regs.items():
        wr = c.drivers('write_requested_' + sfx, exact=True)
        ok = len(wr) == 1 and wr[0].rhs.canon() == '%s != current_register_value_%s' % (val, sfx) and not wr[0].guard
        ctx.ob('C24.register-map', 'ULPIControlTranslator.reg%s.request' % sfx, ok, wr[0].loc if wr else None,
               'register 0x%s must be requested exactly while its shadow differs from %s: %s' % (sfx, val, [q.fmt(x) for x in wr]))
        wv = c.drivers('write_value_' + sfx, exact=True)
        ok = len(wv) == 1 and wv[0].rhs.canon() == val
        ctx.ob('C24.register-map', 'ULPIControlTranslator.reg%s.value' % sfx, ok, wv[0].loc if wv else None,
               'write value of 0x%s must be %s' % (sfx, val))
        ad = [a for a in c.drivers('self.register_window.address', exact=True) if q.has(a, 'write_requested_' + sfx)]
        ok = len(ad) == 1 and ad[0].rhs.is_const(addr)
        ctx.ob('C24.register-map', 'ULPIControlTranslator.reg%s.address' % sfx, ok, ad[0].loc if ad else None,
               'requests for the 0x%s composite must address register %d' % (sfx, addr))
        wd = [a for a in c.drivers('self.register_window.write_data', exact=True) if q.has(a, 'write_requested_' + sfx)]
        ok = len(wd) == 1 and wd[0].rhs.canon() == 'write_value_' + sfx and q.atoms(wd[0]) == q.atoms(ad[0])
        ctx.ob('C24.register-map', 'ULPIControlTranslator.reg%s.data' % sfx, ok, wd[0].loc if wd else None,
               'data and address must be selected by the same arm')
        sh = c.drivers('current_register_value_' + sfx, exact=True)
        ok = len(sh) == 1 and sh[0].rhs.canon() == 'write_value_' + sfx and q.atoms(sh[0]) == {('write_done_' + sfx, True)}
        ctx.ob('C24.register-map', 'ULPIControlTranslator.reg%s.shadow' % sfx, ok, sh[0].loc if sh else None,
               'shadow of 0x%s updated from its write value on its write_done' % sfx)
        # (b) attribution
        dn = c.drivers('write_done_' + sfx, exact=True)
        tied = all(any(('address' in a_ or 'current_address' in a_) for a_, p in q.atoms(d)) or
                   any('address' in s for s in d.rhs.sigs()) for d in dn)
        ctx.ob('C24.write-attribution', 'ULPIControlTranslator.write_done_' + sfx, bool(dn) and tied, dn[0].loc if dn else None,
               'write_done_%s is register_window.done gated only by the current priority arm (%s); if the other '
               'register\'s request appears or disappears while a write is in flight, the completion is credited to the '
               'wrong register and its shadow is updated with a value that was never written' % (
                   sfx, [q.fmt(d) for d in dn][:1]))
    rq = [a for a in c.drivers('self.register_window.write_request', exact=True) if not q.is_zero(a.rhs)]
    ok = rq and all('self.bus_idle' in a.rhs.canon() and '~self.register_window.done' in a.rhs.canon() for a in rq)
    ctx.ob('C24.cross-gating', 'ULPIControlTranslator.write_request', bool(ok), rq[0].loc if rq else None,
           'a register write may only be requested while the bus is idle')
    rr = c.drivers('self.register_window.read_request', exact=True)
    ctx.ob('C24.cross-gating', 'ULPIControlTranslator.read_request', len(rr) == 1 and q.is_zero(rr[0].rhs), None, 'no reads')
    t = ctx.ir('UTMITranslator', 'interface.ulpi', allow_opaque=True)
    for lhs, rhs, want in (
            ('control_translator.bus_idle', 'phy_ready & ~transmit_translator.busy',
             {('phy_ready', True), ('transmit_translator.busy', False)}),
            ('transmit_translator.bus_idle', 'phy_ready & ~control_translator.busy & ~self.ulpi.dir.i',
             {('phy_ready', True), ('control_translator.busy', False), ('self.ulpi.dir.i', False)})):
        ds = t.drivers(lhs, exact=True)
        # compared as a set of conjuncts: `~a & ~b` and `~(a | b)` are the same condition
        ok = len(ds) == 1 and isinstance(ds[0].rhs, E) and q.conj(ds[0].rhs) == want and \
            not [x for x in q.atoms(ds[0]) if not x[0].startswith('cfg:')]
        ctx.ob('C24.cross-gating', 'UTMITranslator.' + lhs, ok, ds[0].loc if ds else None,
               '%s <= %s: %s' % (lhs, rhs, [q.fmt(d) for d in ds]))


def _busy_covers_handover(ctx):
    """ULPIControlTranslator.busy is what keeps the transmitter off the bus while a register write is in progress
    (UTMITranslator: bus_idle = ~control_translator.busy & ...).  It is a register, so it must already be raised by the
    request itself: in the cycle after write_request is raised the register window drives the bus, and its own busy flag
    is one cycle further behind.  For every site that raises register_window.write_request: whenever the request
    expression is true, the busy value registered in that cycle is 1 (exact evaluation over the leaf conditions)."""
    ct = ctx.ir('ULPIControlTranslator', 'interface.ulpi')
    WR, BUSY = 'self.register_window.write_request', 'self.busy'
    bd = sorted(ct.drivers(BUSY, exact=True), key=lambda a: a.order)
    ctx.need(bd and all(a.domain != 'comb' for a in bd), 'ULPIControlTranslator.busy is a register')
    sites = [a for a in ct.drivers(WR, exact=True) if not q.is_zero(a.rhs)]
    ctx.need(sites, 'sites raising register_window.write_request')
    for i, a in enumerate(sites):
        leaves = q.bool_leaves(a.rhs, *[l.e for l in a.guard], *[x.rhs for x in bd], *[l.e for x in bd for l in x.guard])
        bad = None
        for asg in q.all_assignments(leaves):
            if not q.eval_guard(a, asg) or not q.eval_expr(a.rhs, asg):
                continue
            val = None
            asg2 = dict(asg, **{WR: True})     # the request itself is raised in this cycle: busy may be derived from it
            for x in bd:                       # last assignment wins
                if q.eval_guard(x, asg2):
                    val = q.eval_expr(x.rhs, asg2)
            if not val:
                bad = {k: v for k, v in asg.items() if v}
                break
        ctx.ob('C24.busy-covers-handover', 'ULPIControlTranslator.busy@write_request#%d' % i, bad is None, a.loc,
               'when a register write is requested the busy flag registered in that cycle must be 1, so that the transmitter sees '
               'the bus taken in the very next cycle (when the register window starts driving it); busy stays 0 when %s' % (bad,))
