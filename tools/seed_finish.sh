#!/bin/bash
# seed_finish.sh <worktree-name under /tmp/seed> <seed-id> <property> <detected-by|none> [note] : write meta.json, remove the worktree
W=$1; ID=$2; P=$3; DET=$4; NOTE=${5:-}
/venv/bin/python /verif/tools/seed_meta.py $ID $P $DET "$NOTE" && git -C /repo worktree remove --force /tmp/seed/$W && echo "finished $ID"
