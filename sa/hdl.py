"""Semantics tables for the extractor: HDL operators, Amaranth constructors, Python builtins.

Everything here is a *model* of the library the analysed code is written against; the analysed
code itself is never run."""
from __future__ import annotations
import ast
import functools
import math
import operator
import struct as _struct

from .ir import E, Obj, SigInfo, Lit, NOVAL, AnalysisError
from .values import *       # noqa

VALUE_METHODS = {'eq', 'any', 'all', 'bool', 'xor', 'matches', 'bit_select', 'word_select', 'as_unsigned',
                 'as_signed', 'rotate_left', 'rotate_right', 'shift_left', 'shift_right', 'implies',
                 'replicate', 'shape', 'as_value'}

AMARANTH_NAMES = {'Module', 'Signal', 'Const', 'C', 'Cat', 'Mux', 'Repl', 'Array', 'Record', 'Memory', 'Instance',
                  'DomainRenamer', 'ResetInserter', 'EnableInserter', 'FFSynchronizer', 'PulseSynchronizer',
                  'ResetSynchronizer', 'AsyncFIFO', 'AsyncFIFOBuffered', 'SyncFIFO', 'SyncFIFOBuffered', 'Encoder',
                  'PriorityEncoder', 'Decoder', 'ClockSignal', 'ResetSignal', 'ClockDomain', 'signed', 'unsigned',
                  'Shape', 'Elaboratable', 'Layout', 'Value', 'ValueCastable'}

BINOPS = {'Add': '+', 'Sub': '-', 'Mult': '*', 'FloorDiv': '//', 'Mod': '%', 'LShift': '<<', 'RShift': '>>',
          'BitOr': '|', 'BitXor': '^', 'BitAnd': '&', 'Div': '/', 'Pow': '**', 'MatMult': '@'}
PYOPS = {'+': operator.add, '-': operator.sub, '*': operator.mul, '//': operator.floordiv, '%': operator.mod,
         '<<': operator.lshift, '>>': operator.rshift, '|': operator.or_, '^': operator.xor, '&': operator.and_,
         '/': operator.truediv, '**': operator.pow}
CMPOPS = {'Eq': '==', 'NotEq': '!=', 'Lt': '<', 'LtE': '<=', 'Gt': '>', 'GtE': '>='}
PYCMP = {'==': operator.eq, '!=': operator.ne, '<': operator.lt, '<=': operator.le, '>': operator.gt,
         '>=': operator.ge}


def is_builtin(name):
    return name in AMARANTH_NAMES


# ------------------------------------------------------------------------------------ expressions
def obj_sig(ip, o):
    si = getattr(o, '_si', None)
    if si is None:
        si = SigInfo(None, parent=o, kind='object')
        o._si = si
    return E('sig', (si,))


def as_expr(ip, v):
    if isinstance(v, E):
        if v.op == 'sig' and getattr(v.args[0], 'alias', None) is not None:
            # a combinational local the reference tree does not have: read through it -- where its defining context holds
            sts, lits = getattr(v.args[0], 'alias_ctx', ((), ()))
            if sts or lits:
                cur_s = tuple(ip.cur_states()) if hasattr(ip, 'cur_states') else ()
                cur_l = {l.canon() for l in ip.guard()} if hasattr(ip, 'guard') else set()
                if cur_s[:len(sts)] != sts or not set(lits) <= cur_l:
                    # read outside its defining context: there the local is its definition where the context holds, 0 elsewhere
                    ll = getattr(v.args[0], 'alias_ctx_lits', ())
                    if v.args[0].w != 1 or any(l.kind != 'cond' or not isinstance(l.e, E) for l in ll):
                        raise AnalysisError('construct not understood: the combinational local %s, defined under a condition, is '
                                            'read outside that condition' % v.args[0].name)
                    parts = [E('ongoing', (f_, s_), w=1) for f_, s_ in sts]
                    parts += [l.e if l.pos else E('~', (l.e,), w=1) for l in ll]
                    parts.append(v.args[0].alias)
                    return parts[0] if len(parts) == 1 else E('&', tuple(parts), w=1)
            return v.args[0].alias
        return v
    if isinstance(v, bool):
        return E('const', val=int(v))
    if isinstance(v, EnumVal):
        return E('const', val=int(v), label=v.label)
    if isinstance(v, int):
        return E('const', val=v)
    if isinstance(v, Obj):
        return obj_sig(ip, v)
    if isinstance(v, str):
        return E('str', (v,))
    if isinstance(v, float):
        return E('const', val=v)
    if v is None:
        return E('none')
    if isinstance(v, Unknown):
        return E('unk', (v.src[:60],))
    if isinstance(v, (list, tuple)):
        return E('seq', tuple(as_expr(ip, x) for x in v))
    return E('unk', (repr(v)[:60],))


def width(e):
    return e.w if isinstance(e, E) else None


def _maxw(a, b):
    if a is None or b is None:
        return None
    return max(a, b)


def _natw(e):
    """Width of an operand; a non-negative integer constant has its natural width (Amaranth: bits_for(value))."""
    if isinstance(e, E) and e.w is None and e.op == 'const' and isinstance(e.val, int) and not isinstance(e.val, bool) and e.val >= 0:
        return max(e.val.bit_length(), 1)
    return e.w if isinstance(e, E) else None


def mk(op, args, w=None):
    return E(op, args, w=w)


def is_hdl(v):
    """Does the value denote hardware (a signal-bearing expression)?"""
    if isinstance(v, E):
        return v.op not in ('param', 'const') or False
    return isinstance(v, Obj)


def concrete(v):
    """Concrete python value of v (params/consts unwrapped), or NOVAL."""
    if isinstance(v, E):
        if v.op in ('param', 'const'):
            return v.val
        return NOVAL
    if isinstance(v, (Obj, Unknown, ClassRef, FuncRef, Builtin, ModRef, Stmt)):
        return NOVAL
    return v


def unop(ip, opname, v):
    c = concrete(v)
    if c is not NOVAL and not isinstance(c, (list, tuple, dict)):
        try:
            if opname == 'Invert':
                if isinstance(v, E) and v.op == 'const' and v.w:
                    return E('const', val=(~c) & ((1 << v.w) - 1), w=v.w)
                return ~c
            if opname == 'USub':
                return -c
            if opname == 'UAdd':
                return +c
        except Exception:
            pass
    e = as_expr(ip, v)
    if opname == 'Invert':
        return invert(e)
    if opname == 'USub':
        return E('neg', (e,), w=e.w)
    return e


_NEGCMP = {'==': '!=', '!=': '==', '<': '>=', '>=': '<', '>': '<=', '<=': '>'}


def invert(e):
    """~e in negation normal form for 1-bit operands, so that `~(a | b)` and `~a & ~b`, `~(x == 0)` and `x != 0`
    have one canonical form."""
    from .ir import _is_bool
    if e.op == '~':
        return e.args[0]
    if e.op in _NEGCMP and len(e.args) == 2:
        return norm_cmp(_NEGCMP[e.op], e.args[0], e.args[1])
    if e.op in ('&', '|') and len(e.args) >= 2 and all(isinstance(a, E) and _is_bool(a) and a.w in (1, None) and
                                                        (a.w == 1 or a.op in _NEGCMP or a.op in ('~', '&', '|', 'ongoing', 'call'))
                                                        for a in e.args):
        dual = '|' if e.op == '&' else '&'
        args = []
        for a in e.args:
            na = invert(a)
            if na.op == dual:
                args.extend(na.args)
            else:
                args.append(na)
        return E(dual, args, w=1)
    return E('~', (e,), w=e.w)


def norm_cmp(op, ea, eb):
    """Canonical comparison: constants on the left for ==/!= (sorted anyway); ordering comparisons only as
    `x >= K` / `x < K` when one side is a constant (or `e - 1`); 1-bit compared with 0/1 collapses to x / ~x."""
    def const(x):
        return x.val if isinstance(x, E) and x.op == 'const' and isinstance(x.val, int) and not isinstance(x.val, bool) else None
    ka, kb = const(ea), const(eb)
    if op in ('==', '!='):
        for x, y in ((ea, eb), (eb, ea)):
            if isinstance(x, E) and x.op == 'mux' and len(x.args) == 3 and isinstance(y, E) and y.op != 'mux':
                # v == Mux(c, a, b) is Mux(c, v == a, v == b): a comparison against a selected constant reads like the
                # per-case comparisons it stands for
                return E('mux', (x.args[0], norm_cmp(op, y, x.args[1]), norm_cmp(op, y, x.args[2])), w=1)
        for x, k in ((ea, kb), (eb, ka)):
            if k in (0, 1) and isinstance(x, E) and x.w == 1 and x.op != 'const':
                return x if (k == 1) == (op == '==') else invert(x)
            if k == 0 and isinstance(x, E) and x.op == 'cat' and len(x.args) > 1 and all(isinstance(a, E) and a.w == 1 for a in x.args):
                anyset = E('|', x.args, w=1)               # Cat(a, b, c) != 0 is a | b | c
                return anyset if op == '!=' else invert(anyset)
        return E(op, (ea, eb), w=1)
    # put the constant on the right
    if ka is not None and kb is None:
        ea, eb, ka, kb = eb, ea, kb, ka
        op = {'<': '>', '>': '<', '<=': '>=', '>=': '<='}[op]
    if kb is not None:
        if op == '>':
            op, kb, eb = '>=', kb + 1, E('const', val=kb + 1)
        elif op == '<=':
            op, kb, eb = '<', kb + 1, E('const', val=kb + 1)
        unsigned = isinstance(ea, E) and not (ea.op == 'sig' and getattr(ea.args[0], 'signed', False)) and ea.op in ('sig', 'slice')
        if kb == 1 and unsigned and isinstance(ea.w, int) and ea.w > 1:
            # for an unsigned value `x >= 1` / `x > 0` is `x != 0` and `x < 1` / `x <= 0` is `x == 0`: one form
            return E('!=' if op == '>=' else '==', (E('const', val=0), ea), w=1)
        return E(op, (ea, eb), w=1)
    # x > (e - 1)  ==  x >= e ;  x <= (e - 1) == x < e
    if isinstance(eb, E) and eb.op == '-' and len(eb.args) == 2 and const(eb.args[1]) == 1 and op in ('>', '<='):
        return E('>=' if op == '>' else '<', (ea, eb.args[0]), w=1)
    # two non-constant operands: only `>=` and `<` are kept (`a <= b` is `b >= a`, `a > b` is `b < a`), so that a
    # mirrored spelling of the same comparison has the same form
    if op == '<=':
        return E('>=', (eb, ea), w=1)
    if op == '>':
        return E('<', (eb, ea), w=1)
    return E(op, (ea, eb), w=1)


def binop(ip, opname, a, b, node=None):
    op = BINOPS.get(opname)
    if op is None:
        return Unknown('binop ' + opname)
    ca, cb = concrete(a), concrete(b)
    if ca is not NOVAL and cb is not NOVAL:
        hdl_const = (isinstance(a, E) and a.op == 'const' and a.w is not None) or \
                    (isinstance(b, E) and b.op == 'const' and b.w is not None)
        try:
            r = PYOPS[op](ca, cb)
            if hdl_const and isinstance(r, int):
                return E('const', val=r)
            return r
        except Exception:
            if isinstance(ca, str) and op == '%':
                return ca
            return Unknown('binop failed')
    if isinstance(a, Unknown) or isinstance(b, Unknown):
        if isinstance(a, (list, tuple)) or isinstance(b, (list, tuple)):
            return Unknown('seq op')
        if not (isinstance(a, (E, Obj)) or isinstance(b, (E, Obj))):
            return Unknown('binop')
    if isinstance(a, (list, tuple)) and isinstance(b, (list, tuple)) and op == '+':
        return type(a)(list(a) + list(b))
    if isinstance(a, (list, tuple)) and op == '*' and isinstance(cb, int):
        return type(a)(list(a) * cb)
    if isinstance(a, str) and op == '%':
        return a
    ea, eb = as_expr(ip, a), as_expr(ip, b)
    if op in ('&', '|', '^'):
        # identities with a Python-level constant operand (e.g. `(not self.clk_stretch) | (scl_i == 1)`)
        from .ir import _is_bool
        for x, y in ((ea, eb), (eb, ea)):
            if x.op == 'const' and x.w is None and isinstance(x.val, int):
                if x.val == 0 and op in ('|', '^'):
                    return y
                if x.val == 0 and op == '&':
                    return E('const', val=0)
                if x.val == 1 and _is_bool(y) and y.op != 'const':
                    if op == '&':
                        return y
                    if op == '|':
                        return E('const', val=1)
        # flatten associative chains for canonical text
        args = []
        for x in (ea, eb):
            if x.op == op:
                args.extend(x.args)
            else:
                args.append(x)
        return E(op, args, w=_maxw(ea.w, eb.w))
    if op == '+':
        w = _maxw(_natw(ea), _natw(eb))
        return E(op, (ea, eb), w=(w + 1) if w is not None else None)
    if op == '-':
        w = _maxw(_natw(ea), _natw(eb))
        return E(op, (ea, eb), w=(w + 1) if w is not None else None)
    if op == '<<':
        if eb.op == 'const' and ea.w is not None:
            return E(op, (ea, eb), w=ea.w + eb.val)
        return E(op, (ea, eb))
    if op == '>>':
        return E(op, (ea, eb), w=ea.w)
    return E(op, (ea, eb))


def compare(ip, opname, a, b, node=None):
    if opname in ('Is', 'IsNot'):
        r = _is(ip, a, b)
        if r is None:
            return Unknown('is')
        return r if opname == 'Is' else (not r)
    if opname in ('In', 'NotIn'):
        r = _contains(ip, b, a)
        if r is None:
            return Unknown('in')
        return r if opname == 'In' else (not r)
    op = CMPOPS[opname]
    ca, cb = concrete(a), concrete(b)
    if ca is not NOVAL and cb is not NOVAL:
        # both foldable: Python comparison (an HDL Const compared with an int stays foldable too)
        try:
            return PYCMP[op](ca, cb)
        except Exception:
            return False if op == '==' else (True if op == '!=' else Unknown('cmp'))
    if isinstance(a, (Unknown,)) or isinstance(b, (Unknown,)):
        return Unknown('cmp')
    if isinstance(a, (ClassRef, FuncRef, Builtin)) or isinstance(b, (ClassRef, FuncRef, Builtin)):
        same = (a is b) or (isinstance(a, ClassRef) and isinstance(b, ClassRef) and a.info is b.info)
        return same if op == '==' else (not same if op == '!=' else Unknown('cmp'))
    if isinstance(a, (list, tuple, dict, str)) and not isinstance(b, (E, Obj)):
        return (op == '!=')
    if a is None or b is None:
        # comparing something symbolic with None
        other = b if a is None else a
        if isinstance(other, Obj):
            return op == '!='
        return Unknown('cmp none')
    ea, eb = as_expr(ip, a), as_expr(ip, b)
    return norm_cmp(op, ea, eb)


def _is(ip, a, b):
    if a is None or b is None:
        other = b if a is None else a
        if other is None:
            return True
        if isinstance(other, E):
            if other.op == 'param':
                return (other.val is None) if other.val is not NOVAL else None
            if other.op == 'sig' and other.args[0].kind in ('param',):
                return None
            return False
        if isinstance(other, Unknown):
            return None
        return False
    if isinstance(a, bool) or isinstance(b, bool):
        ca, cb = concrete(a), concrete(b)
        if ca is NOVAL or cb is NOVAL:
            return None
        return ca is cb
    if isinstance(a, ClassRef) and isinstance(b, ClassRef):
        return a.info is b.info
    ca, cb = concrete(a), concrete(b)
    if ca is not NOVAL and cb is not NOVAL:
        return ca == cb
    if isinstance(a, E) and isinstance(b, E):
        return a == b
    return a is b


def _contains(ip, container, item):
    c = concrete(container)
    if isinstance(container, E) and c is NOVAL:
        return None
    if isinstance(container, Unknown):
        return None
    if isinstance(container, Obj):
        if isinstance(item, str):
            return item in container.attrs
        return None
    cont = c if c is not NOVAL else container
    ci = concrete(item)
    if isinstance(cont, dict):
        if ci is NOVAL:
            return None
        try:
            return ci in cont
        except TypeError:
            return False
    if isinstance(cont, (list, tuple, set, frozenset, range, str)):
        if ci is not NOVAL:
            try:
                if ci in cont:
                    return True
            except TypeError:
                pass
            if isinstance(cont, (range, str)):
                return False
            # could still be equal to an abstract member
            return any(isinstance(x, E) and concrete(x) == ci for x in cont) if not isinstance(cont, str) else False
        if isinstance(item, (E, Obj)):
            ie = as_expr(ip, item)
            return any(isinstance(x, (E, Obj)) and as_expr(ip, x) == ie for x in cont)
        return None
    return None


def bit_of(e, i):
    """Bit i of expression e, resolved through Cat / slices / reversal where possible."""
    if e.op == 'cat':
        off = 0
        for a in e.args:
            if a.w is None:
                break
            if i < off + a.w:
                return bit_of(a, i - off)
            off += a.w
        else:
            return E('slice', (e, i, i + 1), w=1)
        return E('slice', (e, i, i + 1), w=1)
    if e.op == 'slice':
        inner, lo, hi = e.args
        if isinstance(lo, int):
            return bit_of(inner, lo + i)
    if e.op == 'rev' and e.w is not None:
        return bit_of(e.args[0], e.w - 1 - i)
    if e.op == 'const' and isinstance(e.val, int):
        return E('const', val=(e.val >> i) & 1, w=1)
    if e.w == 1 and i == 0:
        return e
    return E('slice', (e, i, i + 1), w=1)


def slice_of(e, lo, hi):
    if e.op == 'slice' and isinstance(e.args[1], int):
        inner, a, b = e.args
        return slice_of(inner, a + lo, a + hi)
    if e.op == 'const' and isinstance(e.val, int):
        return E('const', val=(e.val >> lo) & ((1 << (hi - lo)) - 1), w=hi - lo)
    if e.op == 'cat' and all(a.w is not None for a in e.args):
        # slice aligned to element boundaries -> sub-cat / element
        off = 0
        parts = []
        for a in e.args:
            s, t = max(lo, off), min(hi, off + a.w)
            if s < t:
                parts.append(a if (s == off and t == off + a.w) else slice_of(a, s - off, t - off))
            off += a.w
        if len(parts) == 1:
            return parts[0]
        if parts:
            return E('cat', parts, w=hi - lo)
    if e.w is not None and lo == 0 and hi == e.w:
        return e
    if e.op in ('~', '&', '|', '^') and isinstance(e.w, int) and hi <= e.w and e.args and \
            all(isinstance(a, E) and a.w == e.w for a in e.args):
        # bitwise operators act bit by bit: (~x)[lo:hi] is ~(x[lo:hi]) when every operand has the full width
        return E(e.op, tuple(slice_of(a, lo, hi) for a in e.args), w=hi - lo)
    return E('slice', (e, lo, hi), w=hi - lo)


def subscript(ip, base, idx, node=None):
    cb = concrete(base)
    if isinstance(idx, slice):
        lo, hi, st = (concrete(x) if x is not None else None for x in (idx.start, idx.stop, idx.step))
        if NOVAL in (lo, hi, st):
            if isinstance(base, (E, Obj)):
                e = as_expr(ip, base)
                return E('slice', (e, as_expr(ip, idx.start) if idx.start is not None else 0,
                                   as_expr(ip, idx.stop) if idx.stop is not None else 'end'))
            return Unknown('slice')
        if cb is not NOVAL and not (isinstance(base, E) and base.op == 'const' and base.w is not None):
            try:
                return cb[lo:hi:st]
            except Exception:
                return Unknown('slice')
        if isinstance(base, (list, tuple)):
            return base[lo:hi:st]
        e = as_expr(ip, base)
        w = e.w
        if st == -1 and lo is None and hi is None:
            return E('rev', (e,), w=w)
        if st not in (None, 1):
            if isinstance(w, int) and isinstance(st, int) and all(x is None or isinstance(x, int) for x in (lo, hi)):
                idx = list(range(w))[slice(lo, hi, st)]
                if idx and st == -1 and idx == list(range(idx[0], idx[-1] - 1, -1)):
                    return E('rev', (slice_of(e, idx[-1], idx[0] + 1),), w=len(idx))      # x[hi:lo:-1]: the bits in reverse order
                if idx and all(isinstance(i_, int) for i_ in idx):
                    return make_cat(ip, [slice_of(e, i_, i_ + 1) for i_ in idx])
            return E('call', ('stepslice', e, as_expr(ip, lo), as_expr(ip, hi), as_expr(ip, st)))
        if lo is None:
            lo = 0
        if lo < 0 and w is not None:
            lo += w
        if hi is None:
            if w is None:
                return E('slice', (e, lo, 'end'))
            hi = w
        if hi < 0 and w is not None:
            hi += w
        if w is not None:
            hi = min(hi, w)
            lo = min(lo, hi)
        if lo < 0 or hi < 0:
            return E('slice', (e, lo, hi))
        return slice_of(e, lo, hi)
    ci = concrete(idx)
    if isinstance(base, (list, tuple)) or (cb is not NOVAL and isinstance(cb, (list, tuple, str, bytes, range))):
        seq = base if isinstance(base, (list, tuple)) else cb
        if ci is not NOVAL and isinstance(ci, int):
            try:
                return seq[ci]
            except IndexError:
                return Unknown('index out of range')
        if isinstance(idx, (E, Obj)):
            return E('arr', (as_expr(ip, idx),) + tuple(as_expr(ip, x) for x in seq))
        return Unknown('index')
    if isinstance(base, dict) or (cb is not NOVAL and isinstance(cb, dict)):
        d = base if isinstance(base, dict) else cb
        if ci is not NOVAL:
            try:
                if ci in d:
                    return d[ci]
            except TypeError:
                pass
            return Unknown('missing key %r' % (ci,))
        return Unknown('dict index')
    if isinstance(base, Obj):
        if isinstance(ci, str):
            return getattr_(ip, base, ci, node)
        if isinstance(ci, tuple) and base.is_record and base.fields is not None:
            # Record[(names...)] -> the sub-record of the fields whose name occurs in the tuple
            picked = [base.attrs[f] for f in base.fields if f in ci]
            if len(picked) == 1:
                return picked[0]
            if picked:
                return make_cat(ip, picked)
        il = getattr(base, 'items_list', None)
        if il is not None:
            if isinstance(ci, int):
                try:
                    return il[ci]
                except IndexError:
                    return Unknown('index')
            return E('arr', (as_expr(ip, idx),) + tuple(as_expr(ip, x) for x in il))
        if isinstance(ci, int) and base.is_record:
            return E('slice', (as_expr(ip, base), ci, ci + 1), w=1)
        return E('call', ('index', as_expr(ip, base), as_expr(ip, idx)))
    if isinstance(base, E):
        if isinstance(ci, str):
            return getattr_(ip, base, ci, node)
        if base.op == 'sig' and base.args[0].kind == 'collection':
            return ip.collection_elem(base)
        if isinstance(ci, int):
            i = ci
            if i < 0:
                if base.w is None:
                    return E('slice', (base, i, i + 1 if i != -1 else 'end'), w=1)
                i += base.w
            return bit_of(base, i)
        if isinstance(idx, (E, Obj)):
            return E('call', ('bit_select', base, as_expr(ip, idx), E('const', val=1)), w=1)
    if isinstance(base, ClassRef):
        return base
    if isinstance(base, Builtin):
        return base
    return Unknown('subscript')


def case_expr(ip, sw, values):
    if len(values) == 1:
        v = values[0]
        c = concrete(v)
        if isinstance(c, int) and not isinstance(c, bool) or isinstance(v, EnumVal):
            return E('==', (sw, as_expr(ip, v)), w=1)
        if isinstance(c, bool):
            return E('==', (sw, as_expr(ip, int(c))), w=1)
    return E('call', ('matches', sw) + tuple(as_expr(ip, v) for v in values), w=1)


# ------------------------------------------------------------------------------------ naming
def _unique(ip, name, parent, who):
    """Two different local objects bound to the same variable name (a helper called twice, a loop body)
    must not be confused: the second one gets a '#k' suffix."""
    if parent is not None:
        return name
    used = ip.__dict__.setdefault('names_used', {})
    k = 1
    cand = name
    while cand in used and used[cand] is not who:
        k += 1
        cand = '%s#%d' % (name, k)
    used[cand] = who
    return cand


def name_value(ip, v, name, parent):
    if isinstance(v, Obj):
        if not v.named:
            v.leaf, v.parent, v.named = _unique(ip, name, parent, v), parent, True
            il = getattr(v, 'items_list', None)
            if il is not None:
                for i, x in enumerate(il):
                    name_value(ip, x, '%s[%d]' % (name, i), parent)
    elif isinstance(v, E) and v.op == 'sig':
        si = v.args[0]
        if si.kind == 'signal' and not getattr(si, '_named', False):
            dn = getattr(si, 'decl_name', None)
            si.leaf, si.parent = _unique(ip, dn if (dn and parent is None) else name, parent, si), parent
            si._named = True
            si.var_name = name if parent is None else None          # bound to a plain local variable of this name
            si.var_file = getattr(ip, 'curfile', None)
    elif isinstance(v, (list, tuple)):
        for i, x in enumerate(v):
            name_value(ip, x, '%s[%d]' % (name, i), parent)
    elif isinstance(v, dict):
        for k, x in v.items():
            if isinstance(k, (str, int)):
                name_value(ip, x, '%s[%r]' % (name, k), parent)


def symbolic_element(ip, itv, node):
    src = ast.unparse(node) if node is not None else 'iter'
    if isinstance(itv, E) and itv.op == 'sig':
        src = itv.args[0].name
    o = Obj(None, leaf=src + '[*]')
    o.named = True
    return o


# ------------------------------------------------------------------------------------ attribute access
def class_attr(ip, cls, attr):
    """Evaluate a class-level attribute (constant tables, enum members) found through the MRO."""
    hit = ip.index.find_class_attr(cls, attr)
    if hit is None:
        return NOVAL
    owner, node = hit
    cache = owner.__dict__.setdefault('_attr_cache', {})
    if attr in cache:
        v = cache[attr]
        if v is NOVAL:
            return Unknown('recursive class attr')
        return v
    cache[attr] = NOVAL
    from .interp import Env
    env = Env(parent=ip.module_env(owner.mod), globals_mod=owner.mod)
    env.vars = _ClassScope(ip, owner)
    saved = ip.curfile
    ip.curfile = owner.mod.relpath
    try:
        v = ip.eval(node, env)
    finally:
        ip.curfile = saved
    if is_enum_class(ip, owner):
        c = concrete(v)
        if isinstance(c, tuple) and c and isinstance(c[0], int):
            c = c[0]
        if isinstance(v, Unknown) and 'auto' in v.src:
            c = list(owner.class_assigns).index(attr) + 1
        if isinstance(c, int) and not isinstance(c, bool):
            v = EnumVal(c, owner.name + '.' + attr)
            v.owner = owner
        elif isinstance(c, str):
            v = StrEnumVal(c, owner.name + '.' + attr)
    if isinstance(v, (E, Obj, list, tuple, dict)):
        name_value(ip, v, attr, None)
    cache[attr] = v
    return v


class _ClassScope(dict):
    """Lazy dict giving a class body's names to expressions evaluated in class scope."""
    def __init__(self, ip, cls):
        super().__init__()
        self.ip, self.cls = ip, cls

    def __contains__(self, k):
        return k in self.cls.class_assigns or dict.__contains__(self, k)

    def __getitem__(self, k):
        if dict.__contains__(self, k):
            return dict.__getitem__(self, k)
        v = class_attr(self.ip, self.cls, k)
        if v is NOVAL:
            raise KeyError(k)
        return v


def is_enum_class(ip, cls):
    ext = ip.index.external_bases(cls)
    return any(b in ('Enum', 'IntEnum', 'IntFlag', 'Flag') for b in ext)


def is_record_class(ip, cls):
    return 'Record' in ip.index.external_bases(cls)


def getattr_(ip, base, attr, node=None):
    if isinstance(base, ModuleVal):
        if attr == 'd':
            return ip.dproxy
        if attr == 'submodules':
            return ip.subproxy
        if attr in ('If', 'Elif', 'Else', 'Switch', 'Case', 'Default', 'FSM', 'State'):
            return Builtin('m.' + attr)
        if attr == 'domains':
            return Unknown('m.domains')
        return Unknown('m.' + attr)
    if isinstance(base, DProxy):
        return DomainProxy(attr)
    if isinstance(base, SubmodulesProxy):
        for sm in reversed(ip.ir.submodules):
            if sm.name == attr:
                return sm.obj
        return Unknown('submodule ' + attr)
    if isinstance(base, Obj):
        return obj_getattr(ip, base, attr, node)
    if isinstance(base, E):
        if base.op in ('param', 'const') and base.val is not NOVAL and base.op == 'param':
            return getattr_(ip, base.val, attr, node)
        if attr in VALUE_METHODS:
            return Builtin('E.' + attr, base)
        if attr == 'width' and base.w is not None:
            return base.w
        if base.op == 'param' and base.val is NOVAL:
            psym = ip.sym(str(base.args[0]), parent=None, kind='param')
            return ip.sym(attr, parent=psym.args[0], kind='attr')
        if base.op == 'arr':
            items = [getattr_(ip, a, attr, node) for a in base.args[1:]]
            if all(isinstance(x, (E, Obj, int)) for x in items):
                ws = {as_expr(ip, x).w for x in items}
                return E('arr', (base.args[0],) + tuple(as_expr(ip, x) for x in items),
                         w=ws.pop() if len(ws) == 1 else None)
            return Unknown('attr %s of array element' % attr)
        if base.op == 'sig':
            si = base.args[0]
            if si.kind == 'collection':
                if attr in ('values', 'keys', 'items', 'append', 'extend', 'insert', 'update', 'copy'):
                    return Builtin('coll.' + attr, base)
            if si.kind == 'object':
                return obj_getattr(ip, si.parent, attr, node)
            if attr in ('name',):
                return si.name
            if attr in ('reset', 'init') and si.kind == 'signal':
                return si.init if si.init is not None else 0
            return ip.sym(attr, parent=si, kind='attr')
        if base.op == 'pyif':
            a = getattr_(ip, base.args[1], attr, node)
            b = getattr_(ip, base.args[2], attr, node)
            if isinstance(a, (E, Obj)) and isinstance(b, (E, Obj)):
                return E('pyif', (base.args[0], as_expr(ip, a), as_expr(ip, b)))
            return a
        return Unknown('attr %s of %s' % (attr, base.canon()))
    if isinstance(base, ClassRef):
        cls = base.info
        if attr == '__name__':
            return cls.name
        v = class_attr(ip, cls, attr)
        if v is not NOVAL:
            return v
        m = ip.index.find_method(cls, attr)
        if m:
            return FuncRef(m[1], m[0].mod, closure=None, self_obj=(base if _is_classmethod(m[1]) else None),
                           cls=m[0], name=attr)
        if is_enum_class(ip, cls):
            return Unknown('enum member %s.%s' % (cls.name, attr))
        if is_record_class(ip, cls) and attr == 'like':
            return Builtin('Record.like')
        return Unknown('class attr %s.%s' % (cls.name, attr))
    if isinstance(base, ModRef):
        if base.info is not None:
            r = ip.index.resolve_name(base.info, attr)
            if r is not None:
                return ip.lookup_global(base.info, attr)
            sub = ip.index.modules.get(base.info.name + '.' + attr)
            if sub is not None:
                return ModRef(info=sub)
            return Unknown('module attr ' + attr)
        if base.ext == 'math' and hasattr(math, attr) and not callable(getattr(math, attr)):
            return getattr(math, attr)
        if base.ext == 'os' and attr == 'environ':
            return Unknown('os.environ')
        if base.ext in ('amaranth', 'usb_protocol') or (base.ext or '').startswith('amaranth'):
            m = ip.index.modules.get(base.ext + '.' + attr)
            if m is not None:
                return ModRef(info=m)
            if attr in AMARANTH_NAMES:
                return Builtin(attr)
            return ModRef(ext=base.ext + '.' + attr)
        return Builtin(base.ext + '.' + attr)
    if isinstance(base, Builtin):
        if base.name in ('Signal', 'Record') and attr == 'like':
            return Builtin(base.name + '.like')
        if base.name == 'Shape' and attr == 'cast':
            return Builtin('Shape.cast')
        if base.name == 'os.environ' or base.name.endswith('environ'):
            return Builtin('os.getenv')
        return Builtin(base.name + '.' + attr, base.self_val)
    if isinstance(base, FSMVal):
        if attr == 'ongoing':
            return Builtin('fsm.ongoing', base)
        return Unknown('fsm.' + attr)
    if isinstance(base, SuperProxy):
        o = base.obj
        if isinstance(o, Obj) and o.cls is not None:
            m = ip.index.find_method(o.cls, attr, after=base.after)
            if m:
                return FuncRef(m[1], m[0].mod, closure=None, self_obj=o, cls=m[0], name=attr)
        return Builtin('super.' + attr, o)
    if isinstance(base, EnumVal):
        if attr == 'value':
            return int(base)
        if attr == 'name':
            return base.name
        own = getattr(base, 'owner', None)
        m = ip.index.find_method(own, attr) if own is not None else None
        if m:                                  # a method the enum class defines (`USBPacketID.DATA0.byte()`)
            return FuncRef(m[1], m[0].mod, closure=None, self_obj=base, cls=m[0], name=attr)
    if isinstance(base, Unknown):
        return Unknown(base.src + '.' + attr)
    if isinstance(base, Stmt):
        return Unknown('stmt.' + attr)
    if isinstance(base, FuncRef):
        if attr == '__name__':
            return base.name
        return Unknown('func attr')
    if isinstance(base, CtxVal):
        return Unknown('ctx attr')
    # concrete python value
    if isinstance(base, (str, list, tuple, dict, set, bytes, int, float, range, frozenset, bytearray)):
        if isinstance(base, int) and attr == 'bit_length':
            return Builtin('py.bit_length', base)
        if hasattr(base, attr):
            a = getattr(base, attr)
            if callable(a):
                return Builtin('pym.' + attr, base)
            return a
    return Unknown('attr ' + attr)


def _is_classmethod(fnode):
    return any(isinstance(d, ast.Name) and d.id == 'classmethod' for d in fnode.decorator_list)


def _is_property(fnode):
    return any((isinstance(d, ast.Name) and d.id in ('property', 'cached_property')) or
               (isinstance(d, ast.Attribute) and d.attr in ('cached_property',)) for d in fnode.decorator_list)


def obj_getattr(ip, o, attr, node=None):
    if attr in o.attrs:
        return o.attrs[attr]
    if attr == '__dict__':
        return o.attrs
    if o.cls is not None:
        v = class_attr(ip, o.cls, attr)
        if v is not NOVAL:
            return v
        m = ip.index.find_method(o.cls, attr)
        if m:
            fr = FuncRef(m[1], m[0].mod, closure=None, self_obj=o, cls=m[0], name=attr)
            if _is_property(m[1]):
                return ip.call_func(fr, [], {}, node)
            return fr
        ga = ip.index.find_method(o.cls, '__getattr__')
        if ga and not attr.startswith('__'):
            fr = FuncRef(ga[1], ga[0].mod, closure=None, self_obj=o, cls=ga[0], name='__getattr__')
            guard = getattr(ip, '_ga_guard', set())
            key = (id(o), attr)
            if key not in guard:
                guard.add(key)
                ip._ga_guard = guard
                try:
                    r = ip.call_func(fr, [attr], {}, node)
                finally:
                    guard.discard(key)
                if not isinstance(r, Unknown) and r is not None:
                    return r
    if o.is_record:
        if attr in ('eq',):
            return Builtin('E.eq', obj_sig(ip, o))
        if attr in VALUE_METHODS:
            return Builtin('E.' + attr, obj_sig(ip, o))
        if attr == 'fields':
            return {f: o.attrs[f] for f in (o.fields or [])}
        if attr == 'connect':
            return Builtin('Record.connect', o)
        if attr == 'layout':
            return getattr(o, 'layout', Unknown('layout'))
    if isinstance(o, MemoryVal) or getattr(o, 'kind', None) == 'memory':
        if attr in ('read_port', 'write_port'):
            return Builtin('mem.' + attr, o)
    if attr in ('eq',) :
        return Builtin('E.eq', obj_sig(ip, o))
    if attr.startswith('__') and attr.endswith('__'):
        return Unknown('dunder ' + attr)
    # lazily created symbolic child (a port of a library object, an attribute set elsewhere, ...)
    child = ip.sym(attr, parent=o, kind='attr')
    return child


# ------------------------------------------------------------------------------------ instantiation
def instantiate(ip, cls, args, kwargs, node=None):
    if is_enum_class(ip, cls):
        # EnumClass(value) -> look the member up
        if args:
            c = concrete(args[0])
            for nm in cls.class_assigns:
                v = class_attr(ip, cls, nm)
                if isinstance(v, (EnumVal, StrEnumVal)) and c is not NOVAL and v == c:
                    return v
            return args[0]
    o = Obj(cls, leaf=ip.fresh('$' + cls.name))
    o.loc = ip.loc(node)
    o.kwargs = dict(kwargs)
    o.args = list(args)
    o.is_record = is_record_class(ip, cls)
    ext = ip.index.external_bases(cls)
    init = ip.index.find_method(cls, '__init__')
    if 'Struct' in ext or 'data.Struct' in ext:
        _struct_fields(ip, o, cls)
    if init:
        fr = FuncRef(init[1], init[0].mod, closure=None, self_obj=o, cls=init[0], name='__init__')
        ip.call_func(fr, args, kwargs, node)
    elif o.is_record:
        record_init(ip, o, args, kwargs)
    return o


def _struct_fields(ip, o, cls):
    from .interp import Env
    o.is_record = True
    o.fields = []
    off = 0
    for c in reversed(ip.index.mro(cls)):
        for st in c.node.body:
            if isinstance(st, ast.AnnAssign) and isinstance(st.target, ast.Name):
                shape = ip.eval(st.annotation, ip.module_env(c.mod))
                w, rng, signed_ = shape_of(ip, shape)
                si = SigInfo(st.target.id, parent=o, w=w, kind='signal', loc=ip.loc(st))
                si._named = True
                ip.ir_siglist().append(si)
                o.attrs[st.target.id] = E('sig', (si,), w=w)
                o.fields.append(st.target.id)


def record_init(ip, o, args, kwargs):
    layout = args[0] if args else kwargs.get('layout')
    o.is_record = True
    o.fields = []
    o.layout = layout
    fields_override = kwargs.get('fields') or {}
    if isinstance(layout, Obj) and getattr(layout, 'layout_list', None) is not None:
        layout = layout.layout_list
    if isinstance(layout, E) and layout.op == 'param' and layout.val is not NOVAL:
        layout = layout.val
    if not isinstance(layout, (list, tuple)):
        return
    for item in layout:
        if not isinstance(item, (list, tuple)) or len(item) < 2:
            continue
        fname, shape = item[0], item[1]
        if not isinstance(fname, str):
            continue
        d = item[2] if len(item) > 2 else None
        if not hasattr(o, 'field_dirs'):
            o.field_dirs = {}
        o.field_dirs[fname] = (d.name.split('.')[-1] if isinstance(d, Builtin) else
                               (str(d) if d is not None else 'DIR_NONE'))
        if isinstance(fields_override, dict) and fname in fields_override:
            o.attrs[fname] = fields_override[fname]
            o.fields.append(fname)
            continue
        if isinstance(shape, (list, tuple)) or (isinstance(shape, Obj) and getattr(shape, 'layout_list', None) is not None):
            sub = Obj(None, leaf=fname, parent=o)
            sub.named = True
            record_init(ip, sub, [shape], {})
            o.attrs[fname] = sub
        else:
            w, rng, signed_ = shape_of(ip, shape)
            si = SigInfo(fname, parent=o, w=w, rng=rng, kind='signal', loc=o.loc,
                         shape_src=repr(shape) if not isinstance(shape, E) else shape.canon())
            si._named = True
            si.signed = signed_
            ip.ir_siglist().append(si)
            o.attrs[fname] = E('sig', (si,), w=w)
        o.fields.append(fname)
    # record width
    ws = []
    for f in o.fields:
        v = o.attrs[f]
        ws.append(v.w if isinstance(v, E) else getattr(v, 'w', None))
    o.w = sum(ws) if all(x is not None for x in ws) else None


def shape_of(ip, shape):
    """(width, (lo, hi) range or None, signed) of a Signal shape argument."""
    c = concrete(shape)
    if shape is None:
        return 1, None, False
    if isinstance(c, bool):
        return 1, None, False
    if isinstance(c, int):
        return c, None, False
    if isinstance(c, range):
        if len(c) == 0:
            return 0, (c.start, c.stop), False
        lo, hi = (c[0], c[-1]) if c.step > 0 else (c[-1], c[0])
        if lo < 0:
            w = max(lo.bit_length(), hi.bit_length()) + 1
            return w, (c.start, c.stop), True
        return max(hi.bit_length(), 1) if hi > 0 else (0 if len(c) == 1 and hi == 0 else 1), (c.start, c.stop), False
    if isinstance(shape, tuple) and len(shape) == 2 and shape[0] in ('signed', 'unsigned'):
        cw = concrete(shape[1])
        return (cw if isinstance(cw, int) else None), None, shape[0] == 'signed'
    if isinstance(shape, ClassRef) and is_enum_class(ip, shape.info):
        mx = 0
        for nm in shape.info.class_assigns:
            v = class_attr(ip, shape.info, nm)
            if isinstance(v, int):
                mx = max(mx, int(v))
        return max(mx.bit_length(), 1), None, False
    if isinstance(shape, Obj) and getattr(shape, 'w', None) is not None:
        return shape.w, None, False
    if isinstance(shape, E) and shape.op == 'rangeexpr':
        return None, ('sym', shape.args), False
    return None, None, False


# ------------------------------------------------------------------------------------ builtins
def make_signal(ip, args, kwargs, node, like=None):
    shape = args[0] if args else kwargs.get('shape')
    if like is not None:
        e = as_expr(ip, like) if not isinstance(like, Obj) else None
        if isinstance(like, Obj):
            w, rng, sg = getattr(like, 'w', None), None, False
        else:
            w = e.w
            rng = e.args[0].rng if e.op == 'sig' else None
            sg = e.args[0].signed if e.op == 'sig' else False
        shape_src = 'like(%s)' % (as_expr(ip, like).canon())
    else:
        w, rng, sg = shape_of(ip, shape)
        shape_src = None
        if node is not None and isinstance(node, ast.Call):
            if node.args:
                shape_src = ast.unparse(node.args[0])
            else:
                for k in node.keywords:
                    if k.arg == 'shape':
                        shape_src = ast.unparse(k.value)
    init = kwargs.get('init', kwargs.get('reset'))
    ci = concrete(init) if init is not None else None
    si = SigInfo(ip.fresh('$sig'), parent=None, w=w, rng=rng, init=ci if ci is not NOVAL else init,
                 loc=ip.loc(node), shape_src=shape_src, kind='signal')
    si.signed = sg
    si.shape_val = shape
    si.shape_of_expr = getattr(shape, 'shape_of_expr', None)       # Signal(expr.shape()): as wide as that expression
    si.reset_less = bool(concrete(kwargs.get('reset_less', False)) is True)
    si.ctx_tokens = tuple(getattr(ip, 'ctx_tokens', ()))
    nm = kwargs.get('name')
    if isinstance(nm, str):
        si.decl_name = nm
    ip.ir_siglist().append(si)
    return E('sig', (si,), w=w)


def _flatten(v):
    out = []
    if isinstance(v, (list, tuple)):
        for x in v:
            out.extend(_flatten(x))
    else:
        out.append(v)
    return out


def make_cat(ip, args):
    parts = []
    for a in args:
        if isinstance(a, (list, tuple)):
            parts.extend(as_expr(ip, x) for x in _flatten(a))
        elif isinstance(a, E) and a.op == 'seq':
            parts.extend(a.args)
        else:
            it = None
            parts.append(as_expr(ip, a))
    flat = []
    for p in parts:
        if p.op == 'const' and p.w is None and isinstance(p.val, int):
            p = E('const', val=p.val, w=max(p.val.bit_length(), 1), label=p.label)
        if isinstance(p, E) and p.op == 'sig' and p.args[0].kind == 'object':
            ow = getattr(p.args[0].parent, 'w', None)
            if ow is not None and p.w is None:
                p = E('sig', p.args, w=ow)
        flat.append(p)
    ws = [p.w for p in flat]
    if len(flat) == 1 and flat[0].w is not None:
        return flat[0]
    if flat and all(p.op == 'const' and p.w is not None and isinstance(p.val, int) for p in flat):
        v, off = 0, 0
        for p in flat:
            v |= (p.val & ((1 << p.w) - 1)) << off
            off += p.w
        return E('const', val=v, w=off)
    return E('cat', flat, w=sum(ws) if all(x is not None for x in ws) else None)


def call_builtin(ip, fn, args, kwargs, node=None):
    name = fn.name
    sv = fn.self_val
    h = _HANDLERS.get(name)
    if h is not None:
        return h(ip, sv, args, kwargs, node)
    if name.startswith('m.'):
        return CtxVal(name[2:], tuple(args), kwargs)
    if name.startswith('E.'):
        return value_method(ip, name[2:], sv, args, kwargs, node)
    if name.startswith('pym.'):
        return py_method(ip, name[4:], sv, args, kwargs, node)
    if name.startswith('math.'):
        f = getattr(math, name[5:], None)
        return _pycall(ip, f, args, kwargs, name)
    if name.startswith('operator.'):
        opn = name[9:].strip('_')
        table = {'xor': 'BitXor', 'or': 'BitOr', 'and': 'BitAnd', 'add': 'Add', 'sub': 'Sub', 'mul': 'Mult',
                 'lshift': 'LShift', 'rshift': 'RShift', 'floordiv': 'FloorDiv', 'mod': 'Mod'}
        if opn in table and len(args) == 2:
            return binop(ip, table[opn], args[0], args[1], node)
        if opn in ('eq', 'ne', 'lt', 'le', 'gt', 'ge') and len(args) == 2:
            return compare(ip, {'eq': 'Eq', 'ne': 'NotEq', 'lt': 'Lt', 'le': 'LtE', 'gt': 'Gt', 'ge': 'GtE'}[opn],
                           args[0], args[1], node)
        if opn in ('inv', 'invert', 'not') and len(args) == 1:
            return unop(ip, 'Invert', args[0])
        if opn == 'attrgetter' and len(args) == 1 and isinstance(args[0], str) and \
                all(part.isidentifier() for part in args[0].split('.')):
            # operator.attrgetter("a.b") is `lambda x: x.a.b`
            import ast as _ast
            lam = _ast.parse('lambda _x: _x.' + args[0], mode='eval').body
            for sub in _ast.walk(lam):
                if hasattr(sub, 'lineno') or isinstance(sub, (_ast.expr, _ast.stmt)):
                    sub.lineno = getattr(node, 'lineno', ip.curline)
                    sub.col_offset = 0
            from .values import FuncRef as _FuncRef
            from .interp import Env as _Env
            return _FuncRef(lam, None, closure=_Env(), name='<attrgetter %s>' % args[0])
        if opn == 'itemgetter':
            return Unknown('itemgetter')
        return Unknown(name)
    if name.startswith('struct.'):
        f = getattr(_struct, name[7:], None)
        return _pycall(ip, f, args, kwargs, name)
    if name.startswith('super.'):
        meth = name[6:]
        if meth == '__init__':
            o = sv
            if isinstance(o, Obj) and o.cls is not None:
                ext = ip.index.external_bases(o.cls)
                if 'Record' in ext:
                    record_init(ip, o, args, kwargs)
                elif args or kwargs:
                    o.super_args = (args, kwargs)
            return None
        if meth == '__getattr__' and isinstance(sv, Obj) and args:
            a = concrete(args[0])
            if isinstance(a, str):
                if a in sv.attrs:
                    return sv.attrs[a]
                return Unknown('no attr ' + a)
        if meth == '__init_subclass__':
            return None
        return Unknown(name)
    if name.startswith('coll.'):
        meth = name[5:]
        elem = ip.collection_elem(sv)
        if meth == 'values':
            return [elem]
        if meth == 'keys':
            return [Unknown('key')]
        if meth == 'items':
            return [(E('param', ('key',), val=NOVAL), elem)]
        return None
    if name.startswith('mem.'):
        o = Obj(None, leaf=ip.fresh('$port'))
        o.kind = 'memport'
        o.memory = sv
        o.port_kind = name[4:]
        o.kwargs = dict(kwargs)
        o.loc = ip.loc(node)
        sv.ports.append(o)
        # typed data/addr
        w = getattr(sv, 'mem_width', None)
        for f, fw in (('data', w), ('addr', None), ('en', None)):
            si = SigInfo(f, parent=o, w=fw, kind='attr')
            ip.interned[(id(o), f)] = si
            o.attrs[f] = E('sig', (si,), w=fw)
        return o
    if name == 'fsm.ongoing':
        st = concrete(args[0]) if args else None
        return E('ongoing', (sv.info.id, st if isinstance(st, str) else repr(args[0])), w=1)
    if name.startswith('py.bit_length'):
        return int(sv).bit_length()
    if name.startswith('itertools.'):
        import itertools
        f = getattr(itertools, name[10:], None)
        if f is not None:
            try:
                its = [ip.iterate(a) if not isinstance(a, int) else a for a in args]
                if all(i is not None for i in its):
                    return list(f(*its, **{k: concrete(v) for k, v in kwargs.items()}))
            except Exception:
                pass
        return Unknown(name)
    if name.startswith('functools.'):
        return _functools(ip, name[10:], args, kwargs, node)
    if name.startswith('os.'):
        return Unknown(name + '(...)')
    if name in ('print', 'warn', 'warnings.warn', 'logging.debug', 'logging.info', 'logging.warning'):
        return None
    last = name.split('.')[-1]
    if last in ('debug', 'info', 'warning', 'error', 'warn'):
        return None
    # unknown constructor: a generic object with symbolic ports
    if last[:1].isupper():
        o = Obj(None, leaf=ip.fresh('$' + last))
        o.ext_class = name
        o.kwargs = dict(kwargs)
        o.args = list(args)
        o.loc = ip.loc(node)
        return o
    return Unknown('call ' + name)


def _pycall(ip, f, args, kwargs, name):
    if f is None:
        return Unknown(name)
    cargs = [concrete(a) for a in args]
    ckw = {k: concrete(v) for k, v in kwargs.items()}
    if NOVAL in cargs or NOVAL in ckw.values():
        if any(isinstance(a, (E, Obj)) for a in args):
            return E('call', (name,) + tuple(as_expr(ip, a) for a in args))
        return Unknown(name)
    try:
        return f(*cargs, **ckw)
    except Exception as ex:
        return Unknown('%s failed: %s' % (name, ex))


def _functools(ip, what, args, kwargs, node):
    if what == 'reduce':
        f = args[0]
        items = ip.iterate(args[1], node)
        if items is None:
            return Unknown('reduce over unknown')
        items = list(items)
        if len(args) > 2:
            acc = args[2]
        elif items:
            acc = items.pop(0)
        else:
            return Unknown('reduce of empty')
        for it in items:
            acc = ip.call(f, [acc, it], {}, node)
        return acc
    if what == 'partial':
        f = args[0]
        pre = list(args[1:])
        return Builtin('partial', (f, pre, dict(kwargs)))
    return Unknown('functools.' + what)


def value_method(ip, meth, sv, args, kwargs, node):
    if meth == 'eq' and isinstance(sv, E) and sv.op == 'sig' and getattr(sv.args[0], 'alias', None) is not None:
        # the target is a local that has been read through (its single definition was taken as an alias): a further
        # assignment to it cannot be represented -- never drop it silently
        raise AnalysisError('construct not understood: a second driver of %s, a combinational local that was read through' % sv.args[0].name)
    e = as_expr(ip, sv)
    if meth == 'eq':
        rhs = args[0] if args else kwargs.get('value')
        if isinstance(rhs, (list, tuple, dict)) or isinstance(rhs, (Unknown,)):
            rv = as_expr(ip, rhs)
        else:
            rv = as_expr(ip, rhs)
        return Stmt(e, rv, ip.loc(node))
    if meth in ('any', 'all', 'bool', 'xor'):
        if e.op == 'const' and isinstance(e.val, int) and meth in ('any', 'bool'):
            return E('const', val=int(e.val != 0), w=1)
        if e.w == 1 and meth in ('any', 'all', 'bool'):
            return e
        if meth in ('any', 'bool') and e.op == 'cat' and e.args and all(isinstance(a, E) and a.w == 1 for a in e.args):
            return E('|', e.args, w=1) if len(e.args) > 1 else e.args[0]      # Cat(a, b, c).any() is a | b | c
        if meth == 'all' and e.op == 'cat' and e.args and all(isinstance(a, E) and a.w == 1 for a in e.args):
            return E('&', e.args, w=1) if len(e.args) > 1 else e.args[0]
        if meth in ('any', 'bool') and (e.w is not None or e.op in ('arr', 'slice', 'sig')):
            return E('!=', (E('const', val=0), e), w=1)        # same canonical form as `x != 0`
        return E('call', (meth, e), w=1)
    if meth == 'matches':
        return E('call', ('matches', e) + tuple(as_expr(ip, a) for a in args), w=1)
    if meth in ('bit_select', 'word_select'):
        off = args[0] if args else kwargs.get('offset')
        wd = args[1] if len(args) > 1 else kwargs.get('width')
        co, cw = concrete(off), concrete(wd)
        if isinstance(co, int) and isinstance(cw, int):
            lo = co if meth == 'bit_select' else co * cw
            return slice_of(e, lo, lo + cw)
        return E('call', (meth, e, as_expr(ip, off), as_expr(ip, wd)), w=cw if isinstance(cw, int) else None)
    if meth in ('as_unsigned', 'as_signed', 'as_value'):
        return E('call', (meth, e), w=e.w) if meth != 'as_value' else e
    if meth in ('rotate_left', 'rotate_right', 'shift_left', 'shift_right'):
        return E('call', (meth, e) + tuple(as_expr(ip, a) for a in args), w=e.w if 'rotate' in meth else None)
    if meth == 'implies':
        return E('|', (E('~', (e,), w=1), as_expr(ip, args[0])), w=1)
    if meth == 'replicate':
        c = concrete(args[0])
        if isinstance(c, int):
            return make_cat(ip, [e] * c)
    if meth == 'shape':
        o = Obj(None, leaf='shape')
        o.w = e.w
        o.attrs['width'] = e.w if e.w is not None else Unknown('width')
        o.attrs['signed'] = False
        o.shape_of_expr = e.canon()
        return o
    return E('call', (meth, e) + tuple(as_expr(ip, a) for a in args))


def py_method(ip, meth, sv, args, kwargs, node):
    if isinstance(sv, (list, dict, set, bytearray)) and meth in ('append', 'extend', 'insert', 'update', 'add',
                                                                  'setdefault', 'pop', 'remove', 'clear', 'sort',
                                                                  'reverse'):
        try:
            if meth == 'extend':
                it = ip.iterate(args[0], node)
                sv.extend(it if it is not None else [Unknown('extend')])
                return None
            if meth == 'update' and isinstance(sv, dict):
                if args and isinstance(args[0], dict):
                    sv.update(args[0])
                sv.update(kwargs)
                return None
            return getattr(sv, meth)(*args, **kwargs)
        except Exception:
            return Unknown('py method %s failed' % meth)
    if isinstance(sv, dict) and meth in ('get', 'items', 'keys', 'values', 'copy'):
        try:
            if meth == 'get':
                k = concrete(args[0])
                d = args[1] if len(args) > 1 else None
                if k is NOVAL:
                    return Unknown('dict.get symbolic key')
                try:
                    return sv.get(k, d)
                except TypeError:
                    return d
            r = getattr(sv, meth)()
            return list(r) if meth != 'copy' else r
        except Exception:
            return Unknown('dict method')
    if isinstance(sv, (list, tuple)) and meth in ('index', 'count', 'copy'):
        try:
            if meth == 'copy':
                return list(sv)
            return getattr(sv, meth)(*args)
        except Exception:
            return Unknown('seq method')
    if isinstance(sv, str) and meth == 'format':
        cargs = []
        for a in args:
            c = concrete(a)
            cargs.append(c if c is not NOVAL else (a.canon() if isinstance(a, E) else repr(a)))
        try:
            return sv.format(*cargs, **{k: (concrete(v) if concrete(v) is not NOVAL else repr(v))
                                        for k, v in kwargs.items()})
        except Exception:
            return sv
    if isinstance(sv, str) and meth == 'join':
        it = ip.iterate(args[0], node)
        if it is not None:
            return sv.join(str(concrete(x)) if concrete(x) is not NOVAL else repr(x) for x in it)
    return _pycall(ip, getattr(sv, meth, None), args, kwargs, 'pym.' + meth)


# ---- handlers for named builtins ---------------------------------------------------------
def _h_module(ip, sv, args, kwargs, node):
    m = ModuleVal()
    ip.m_val = m
    return m


def _h_signal(ip, sv, args, kwargs, node):
    return make_signal(ip, args, kwargs, node)


def _h_signal_like(ip, sv, args, kwargs, node):
    other = args[0]
    if isinstance(other, Obj) and other.is_record and other.fields is not None:
        return _h_record_like(ip, sv, args, kwargs, node)
    return make_signal(ip, [], kwargs, node, like=other)


def _h_const(ip, sv, args, kwargs, node):
    v = concrete(args[0]) if args else 0
    shape = args[1] if len(args) > 1 else kwargs.get('shape')
    w, rng, sg = shape_of(ip, shape) if shape is not None else (None, None, False)
    if v is NOVAL:
        return as_expr(ip, args[0])
    if isinstance(v, int) and w is not None and v < 0:
        v &= (1 << w) - 1
    if w is None and isinstance(v, int):
        w = max(v.bit_length(), 1)
    return E('const', val=v, w=w, label=getattr(args[0], 'label', None))


def _h_cat(ip, sv, args, kwargs, node):
    return make_cat(ip, args)


def _h_mux(ip, sv, args, kwargs, node):
    c, a, b = (as_expr(ip, x) for x in args[:3])
    from .ir import _known_one_bit
    if _known_one_bit(c) and a.op == 'const' and b.op == 'const' and isinstance(a.val, int) and isinstance(b.val, int):
        if (a.val, b.val) == (1, 0):
            return c                              # Mux(flag, 1, 0) is the flag
        if (a.val, b.val) == (0, 1):
            return invert(c)                      # Mux(flag, 0, 1) is its negation
    return E('mux', (c, a, b), w=_maxw(_natw(a), _natw(b)))


def _h_repl(ip, sv, args, kwargs, node):
    n = concrete(args[1])
    if isinstance(n, int):
        return make_cat(ip, [args[0]] * n)
    return E('call', ('repl', as_expr(ip, args[0]), as_expr(ip, args[1])))


def _h_array(ip, sv, args, kwargs, node):
    items = ip.iterate(args[0], node) if args else []
    o = Obj(None, leaf=ip.fresh('$array'))
    o.items_list = items if items is not None else []
    o.kind = 'array'
    return o


def _h_record(ip, sv, args, kwargs, node):
    o = Obj(None, leaf=ip.fresh('$record'))
    o.loc = ip.loc(node)
    record_init(ip, o, args, kwargs)
    return o


def _h_record_like(ip, sv, args, kwargs, node):
    other = args[0]
    o = Obj(other.cls if isinstance(other, Obj) else None, leaf=ip.fresh('$record'))
    o.loc = ip.loc(node)
    if isinstance(other, Obj) and other.fields is not None:
        lay = []

        def lay_of(x):
            out = []
            for f in x.fields or []:
                v = x.attrs[f]
                if isinstance(v, Obj):
                    out.append((f, lay_of(v)))
                else:
                    out.append((f, v.w if v.w is not None else E('param', ('w',), val=NOVAL)))
            return out
        record_init(ip, o, [lay_of(other)], {})
        for k, v in other.attrs.items():
            if k not in o.attrs and not isinstance(v, (E, Obj)):
                o.attrs[k] = v
    return o


def _h_layout(ip, sv, args, kwargs, node):
    o = Obj(None, leaf=ip.fresh('$layout'))
    o.layout_list = args[0] if args else []
    return o


def _h_memory(ip, sv, args, kwargs, node):
    o = MemoryVal(None, leaf=ip.fresh('$memory'))
    o.kind = 'memory'
    o.kwargs = dict(kwargs)
    o.args = list(args)
    o.loc = ip.loc(node)
    o.ports = []
    shape = kwargs.get('shape', kwargs.get('width', args[0] if args else None))
    o.mem_width = shape_of(ip, shape)[0] if shape is not None else None
    o.depth = kwargs.get('depth', args[1] if len(args) > 1 else None)
    o.init_data = kwargs.get('init')
    if ip.ir is not None:
        ip.ir.memories.append(o)
    return o


def _h_instance(ip, sv, args, kwargs, node):
    o = Obj(None, leaf=ip.fresh('$instance'))
    o.kind = 'instance'
    o.args = list(args)
    o.kwargs = dict(kwargs)
    o.loc = ip.loc(node)
    # outputs of the instance are drivers: record them as opaque assignments
    for k, v in kwargs.items():
        if k.startswith('o_') and isinstance(v, (E, Obj)):
            ip.order += 1
            from .ir import Assign
            a = Assign('instance', as_expr(ip, v), E('call', ('instance:%s.%s' % (concrete(args[0]) if args else '?', k),)),
                       ip.guard(), None, ip.order, ip.loc(node))
            a.states = ip.cur_states()
            a.state = a.states[-1] if a.states else None
            ip.ir.assigns.append(a)
    return o


def _h_domain_renamer(ip, sv, args, kwargs, node):
    mapping = args[0] if args else kwargs
    c = concrete(mapping)
    if isinstance(c, str):
        c = {'sync': c}
    return Builtin('renamer', c if c is not NOVAL else {'?': mapping})


def _h_renamer_apply(ip, sv, args, kwargs, node):
    o = args[0] if args else None
    if isinstance(o, Obj):
        o.domain_map = dict(sv) if isinstance(sv, dict) else sv
    return o


def _h_inserter(kind):
    def h(ip, sv, args, kwargs, node):
        return Builtin('inserter', (kind, args[0] if args else kwargs))
    return h


def _h_inserter_apply(ip, sv, args, kwargs, node):
    o = args[0] if args else None
    if isinstance(o, Obj):
        lst = getattr(o, 'inserters', None)
        if lst is None:
            lst = o.inserters = []
        lst.append(sv)
    return o


def _h_libobj(clsname, outs=()):
    def h(ip, sv, args, kwargs, node):
        o = Obj(None, leaf=ip.fresh('$' + clsname))
        o.ext_class = clsname
        o.args = list(args)
        o.kwargs = dict(kwargs)
        o.loc = ip.loc(node)
        if clsname == 'FFSynchronizer' or clsname == 'PulseSynchronizer' or clsname == 'ResetSynchronizer':
            src = args[0] if args else kwargs.get('i')
            dst = args[1] if len(args) > 1 else kwargs.get('o')
            if dst is not None and isinstance(dst, (E, Obj)) and src is not None and clsname == 'FFSynchronizer':
                from .ir import Assign
                ip.order += 1
                dom = concrete(kwargs.get('o_domain', 'sync'))
                a = Assign('sync:%s' % (dom if dom is not NOVAL else '?'), as_expr(ip, dst),
                           E('call', ('ffsync', as_expr(ip, src)), w=as_expr(ip, src).w),
                           ip.guard(), None, ip.order, ip.loc(node))
                a.states = ip.cur_states()
                a.state = a.states[-1] if a.states else None
                a.synchronizer = True
                if ip.ir is not None:
                    ip.ir.assigns.append(a)
        return o
    return h


def _h_clocksig(kind):
    def h(ip, sv, args, kwargs, node):
        d = concrete(args[0]) if args else concrete(kwargs.get('domain', 'sync'))
        return ip.sym('%s(%s)' % (kind, d if d is not NOVAL else '?'), parent=None, w=1, kind='clock')
    return h


def _h_shape(kind):
    def h(ip, sv, args, kwargs, node):
        return (kind, args[0] if args else 1)
    return h


def _h_partial(ip, sv, args, kwargs, node):
    f, pre, kw = sv
    kw2 = dict(kw)
    kw2.update(kwargs)
    return ip.call(f, list(pre) + list(args), kw2, node)


def _h_len(ip, sv, args, kwargs, node):
    v = args[0]
    c = concrete(v)
    if c is not NOVAL and not (isinstance(v, E) and v.op == 'const'):
        try:
            return len(c)
        except Exception:
            return Unknown('len')
    if isinstance(v, (list, tuple, dict, set, str)):
        return len(v)
    if isinstance(v, E):
        if v.w is not None:
            return v.w
        if v.op == 'sig' and v.args[0].kind == 'object':
            ow = getattr(v.args[0].parent, 'w', None)
            if ow is not None:
                return ow
        return E('param', ('len(%s)' % v.canon(),), val=NOVAL)
    if isinstance(v, Obj):
        if getattr(v, 'items_list', None) is not None:
            return len(v.items_list)
        if getattr(v, 'w', None) is not None:
            return v.w
        return E('param', ('len(%s)' % v.path,), val=NOVAL)
    return Unknown('len')


def _h_range(ip, sv, args, kwargs, node):
    cs = [concrete(a) for a in args]
    if NOVAL in cs or any(not isinstance(c, int) for c in cs):
        return E('rangeexpr', tuple(as_expr(ip, a) for a in args))
    try:
        return range(*cs)
    except Exception:
        return Unknown('range')


def _h_int(ip, sv, args, kwargs, node):
    if not args:
        return 0
    return _pycall(ip, int, args, kwargs, 'int')


def _simple(f, name):
    def h(ip, sv, args, kwargs, node):
        return _pycall(ip, f, args, kwargs, name)
    return h


def _h_minmax(f, name):
    def h(ip, sv, args, kwargs, node):
        items = args
        if len(args) == 1:
            it = ip.iterate(args[0], node)
            if it is None:
                return Unknown(name)
            items = it
        cs = [concrete(a) for a in items]
        if NOVAL in cs:
            return E('call', (name,) + tuple(as_expr(ip, a) for a in items))
        try:
            if 'key' in kwargs:
                return Unknown(name + ' with key')
            if not cs and 'default' in kwargs:
                return kwargs['default']
            return f(cs)
        except Exception:
            return Unknown(name)
    return h


def _h_sum(ip, sv, args, kwargs, node):
    it = ip.iterate(args[0], node)
    if it is None:
        return Unknown('sum')
    acc = args[1] if len(args) > 1 else 0
    for x in it:
        acc = binop(ip, 'Add', acc, x, node)
    return acc


def _h_iter_builtin(kind):
    def h(ip, sv, args, kwargs, node):
        its = [ip.iterate(a, node) for a in args] if kind != 'enumerate' else [ip.iterate(args[0], node)]
        if any(i is None for i in its):
            if kind == 'enumerate':
                el = symbolic_element(ip, args[0], None)
                return [(E('param', ('index',), val=NOVAL), el)]
            if kind in ('list', 'tuple', 'sorted', 'reversed', 'set') and args and isinstance(args[0], E) \
                    and args[0].op == 'sig' and args[0].args[0].kind == 'collection':
                return [ip.collection_elem(args[0])]
            return Unknown(kind)
        if kind == 'enumerate':
            start = concrete(args[1]) if len(args) > 1 else concrete(kwargs.get('start', 0))
            return [(i + start, x) for i, x in enumerate(its[0])]
        if kind == 'zip':
            return [tuple(t) for t in zip(*its)]
        if kind == 'list':
            return list(its[0]) if its else []
        if kind == 'tuple':
            return tuple(its[0]) if its else ()
        if kind == 'reversed':
            return list(reversed(its[0]))
        if kind == 'sorted':
            try:
                if 'key' in kwargs:
                    keyf = kwargs['key']
                    return sorted(its[0], key=lambda x: concrete(ip.call(keyf, [x], {}, node)),
                                  reverse=bool(concrete(kwargs.get('reverse', False))))
                return sorted(its[0], reverse=bool(concrete(kwargs.get('reverse', False))))
            except Exception:
                return list(its[0])
        if kind == 'set':
            out = []
            for x in (its[0] if its else []):
                if x not in out:
                    out.append(x)
            try:
                return set(out)
            except TypeError:
                return out
        return Unknown(kind)
    return h


def _h_dict(ip, sv, args, kwargs, node):
    d = {}
    if args:
        a = args[0]
        if isinstance(a, dict):
            d.update(a)
        else:
            it = ip.iterate(a, node)
            for kv in it or []:
                if isinstance(kv, (tuple, list)) and len(kv) == 2:
                    try:
                        d[kv[0]] = kv[1]
                    except TypeError:
                        pass
    d.update(kwargs)
    return d


def _h_map(ip, sv, args, kwargs, node):
    f = args[0]
    its = [ip.iterate(a, node) for a in args[1:]]
    if any(i is None for i in its):
        return Unknown('map')
    return [ip.call(f, list(t), {}, node) for t in zip(*its)]


def _h_filter(ip, sv, args, kwargs, node):
    f = args[0]
    it = ip.iterate(args[1], node)
    if it is None:
        return Unknown('filter')
    out = []
    for x in it:
        t = ip.truth(ip.call(f, [x], {}, node) if f is not None else x)
        if t is not False:
            out.append(x)
    return out


def _h_anyall(kind):
    def h(ip, sv, args, kwargs, node):
        it = ip.iterate(args[0], node)
        if it is None:
            return Unknown(kind)
        unk = False
        for x in it:
            t = ip.truth(x)
            if t is None:
                unk = True
            elif kind == 'any' and t:
                return True
            elif kind == 'all' and not t:
                return False
        if unk:
            return Unknown(kind)
        return kind == 'all'
    return h


def _h_isinstance(ip, sv, args, kwargs, node):
    v, c = args[0], args[1]
    classes = c if isinstance(c, (tuple, list)) else [c]
    res = False
    unknown = False
    for k in classes:
        r = _isinst(ip, v, k)
        if r is True:
            return True
        if r is None:
            unknown = True
    return Unknown('isinstance') if unknown else False


def _isinst(ip, v, k):
    kname = k.info.name if isinstance(k, ClassRef) else (k.name.split('.')[-1] if isinstance(k, Builtin) else None)
    if kname is None:
        return None
    pytypes = {'int': int, 'str': str, 'float': float, 'list': list, 'tuple': tuple, 'dict': dict, 'bool': bool,
               'bytes': bytes, 'set': set, 'range': range, 'bytearray': bytearray}
    c = concrete(v)
    if kname in pytypes:
        if c is NOVAL:
            if isinstance(v, (E, Obj)):
                if isinstance(v, E) and v.op in ('param',):
                    return None
                if isinstance(v, E) and v.op == 'sig' and v.args[0].kind == 'param':
                    return None
                return False
            if isinstance(v, (list, tuple, dict)):
                return isinstance(v, pytypes[kname])
            return None
        return isinstance(c, pytypes[kname])
    if kname in ('Iterable', 'Sequence', 'Mapping'):
        return isinstance(v, (list, tuple, dict, set)) or (c is not NOVAL and isinstance(c, (list, tuple, dict, str)))
    if isinstance(v, Obj):
        if v.cls is not None and isinstance(k, ClassRef):
            return any(cc is k.info for cc in ip.index.mro(v.cls))
        if v.cls is not None:
            return kname in ip.index.external_bases(v.cls) or (kname in ('Value', 'ValueCastable') and v.is_record)
        if kname == 'Record':
            return v.is_record
        ext = getattr(v, 'ext_class', None)
        if ext is not None:
            return ext.split('.')[-1] == kname
        return None
    if isinstance(v, E):
        if v.op == 'param' or (v.op == 'sig' and v.args[0].kind in ('param', 'attr', 'symbolic')):
            return None
        if kname in ('Value', 'Signal', 'ValueCastable'):
            return True if kname != 'Signal' else (v.op == 'sig')
        if kname == 'Const':
            return v.op == 'const'
        return False
    if c is not NOVAL:
        if isinstance(v, EnumVal) and isinstance(k, ClassRef):
            return v.label.split('.')[0] == k.info.name
        return False
    if isinstance(v, Unknown):
        return None
    return False


def _h_hasattr(ip, sv, args, kwargs, node):
    o, n = args[0], concrete(args[1])
    if not isinstance(n, str):
        return Unknown('hasattr')
    if isinstance(o, Obj):
        if n in o.attrs:
            return True
        if o.cls is not None:
            if ip.index.find_class_attr(o.cls, n) or ip.index.find_method(o.cls, n):
                return True
            if o.leaf == 'self' and o.parent is None:
                return False
            return False
        return Unknown('hasattr on library object')
    if isinstance(o, E):
        return Unknown('hasattr(%s, %r)' % (o.canon(), n))
    if isinstance(o, Unknown):
        return Unknown('hasattr')
    c = concrete(o)
    if c is not NOVAL:
        return hasattr(c, n)
    return Unknown('hasattr')


def _h_getattr(ip, sv, args, kwargs, node):
    n = concrete(args[1])
    if not isinstance(n, str):
        return Unknown('getattr')
    if len(args) > 2:
        h = _h_hasattr(ip, None, args[:2], {}, node)
        if h is False:
            return args[2]
        if isinstance(h, Unknown):
            v = getattr_(ip, args[0], n, node)
            return v
    return getattr_(ip, args[0], n, node)


def _h_setattr(ip, sv, args, kwargs, node):
    n = concrete(args[1])
    if isinstance(n, str):
        ip.setattr(args[0], n, args[2], node)
        if isinstance(args[0], Obj):
            name_value(ip, args[2], n, args[0])
    return None


def _h_super(ip, sv, args, kwargs, node):
    # find the function being executed through the call stack kept in envs: we pass it via ip.cur_fn
    fn = ip.cur_fn_stack[-1] if ip.cur_fn_stack else None
    if fn is None:
        return Unknown('super')
    return SuperProxy(fn.self_obj, fn.cls)


def _h_type(ip, sv, args, kwargs, node):
    v = args[0]
    if isinstance(v, Obj) and v.cls is not None:
        return ClassRef(v.cls)
    return Unknown('type')


def _h_str(ip, sv, args, kwargs, node):
    if not args:
        return ''
    c = concrete(args[0])
    if c is NOVAL:
        v = args[0]
        return v.canon() if isinstance(v, E) else repr(v)
    return str(c)


def _h_bool(ip, sv, args, kwargs, node):
    if not args:
        return False
    t = ip.truth(args[0])
    return t if t is not None else Unknown('bool')


def _h_callable(ip, sv, args, kwargs, node):
    return isinstance(args[0], (FuncRef, Builtin, ClassRef))


def _h_getenv(ip, sv, args, kwargs, node):
    k = concrete(args[0]) if args else '?'
    return E('param', ('env:%s' % k,), val=NOVAL)


def _h_encoder(ip, sv, args, kwargs, node):
    o = Obj(None, leaf=ip.fresh('$Encoder'))
    o.ext_class = 'Encoder'
    o.args = list(args)
    o.kwargs = dict(kwargs)
    return o


def _h_record_connect(ip, sv, args, kwargs, node):
    out = []
    include = kwargs.get('include')
    exclude = kwargs.get('exclude')

    def rec(me, subs):
        dirs = getattr(me, 'field_dirs', {})
        for f in me.fields or []:
            if include is not None and isinstance(include, (list, tuple, set, dict)) and f not in include:
                continue
            if exclude is not None and isinstance(exclude, (list, tuple, set, dict)) and f not in exclude:
                pass
            if exclude is not None and isinstance(exclude, (list, tuple, set, dict)) and f in exclude:
                continue
            mine = me.attrs[f]
            theirs = [getattr_(ip, s_, f, node) for s_ in subs]
            if isinstance(mine, Obj) and mine.fields is not None:
                rec(mine, theirs)
                continue
            d = dirs.get(f, 'DIR_NONE')
            if d == 'DIR_FANOUT':
                for t in theirs:
                    out.append(Stmt(as_expr(ip, t), as_expr(ip, mine), ip.loc(node)))
            elif d == 'DIR_FANIN':
                acc = None
                for t in theirs:
                    acc = as_expr(ip, t) if acc is None else binop(ip, 'BitOr', acc, t, node)
                if acc is not None:
                    out.append(Stmt(as_expr(ip, mine), acc, ip.loc(node)))
            else:
                ip.opaque(node, 'Record.connect on field %s without direction' % f)
    if isinstance(sv, Obj) and sv.fields is not None:
        rec(sv, list(args))
        return out
    return Unknown('call Record.connect')


def _h_value_cast(ip, sv, args, kwargs, node):
    return as_expr(ip, args[0]) if args else Unknown('Value.cast()')


_HANDLERS = {
    'Record.connect': _h_record_connect, 'Value.cast': _h_value_cast,
    'Module': _h_module, 'Signal': _h_signal, 'Signal.like': _h_signal_like, 'Const': _h_const, 'C': _h_const,
    'Cat': _h_cat, 'Mux': _h_mux, 'Repl': _h_repl, 'Array': _h_array, 'Record': _h_record,
    'Record.like': _h_record_like, 'Layout': _h_layout, 'Memory': _h_memory, 'Instance': _h_instance,
    'DomainRenamer': _h_domain_renamer, 'renamer': _h_renamer_apply,
    'ResetInserter': _h_inserter('reset'), 'EnableInserter': _h_inserter('enable'), 'inserter': _h_inserter_apply,
    'FFSynchronizer': _h_libobj('FFSynchronizer'), 'PulseSynchronizer': _h_libobj('PulseSynchronizer'),
    'ResetSynchronizer': _h_libobj('ResetSynchronizer'), 'AsyncFIFO': _h_libobj('AsyncFIFO'),
    'AsyncFIFOBuffered': _h_libobj('AsyncFIFOBuffered'), 'SyncFIFO': _h_libobj('SyncFIFO'),
    'SyncFIFOBuffered': _h_libobj('SyncFIFOBuffered'), 'Encoder': _h_libobj('Encoder'),
    'PriorityEncoder': _h_libobj('PriorityEncoder'), 'ClockDomain': _h_libobj('ClockDomain'),
    'ClockSignal': _h_clocksig('ClockSignal'), 'ResetSignal': _h_clocksig('ResetSignal'),
    'signed': _h_shape('signed'), 'unsigned': _h_shape('unsigned'),
    'partial': _h_partial, 'len': _h_len, 'range': _h_range, 'int': _h_int, 'slice': _simple(slice, 'slice'),
    'float': _simple(float, 'float'), 'abs': _simple(abs, 'abs'), 'round': _simple(round, 'round'),
    'divmod': _simple(divmod, 'divmod'), 'pow': _simple(pow, 'pow'), 'bytes': _simple(bytes, 'bytes'),
    'bytearray': _simple(bytearray, 'bytearray'), 'chr': _simple(chr, 'chr'), 'ord': _simple(ord, 'ord'),
    'hex': _simple(hex, 'hex'), 'bin': _simple(bin, 'bin'), 'repr': _simple(repr, 'repr'),
    'format': _simple(format, 'format'), 'ceil': _simple(math.ceil, 'ceil'), 'floor': _simple(math.floor, 'floor'),
    'log2': _simple(math.log2, 'log2'),
    'min': _h_minmax(min, 'min'), 'max': _h_minmax(max, 'max'), 'sum': _h_sum,
    'enumerate': _h_iter_builtin('enumerate'), 'zip': _h_iter_builtin('zip'), 'list': _h_iter_builtin('list'),
    'tuple': _h_iter_builtin('tuple'), 'reversed': _h_iter_builtin('reversed'), 'sorted': _h_iter_builtin('sorted'),
    'set': _h_iter_builtin('set'), 'frozenset': _h_iter_builtin('set'), 'dict': _h_dict, 'map': _h_map,
    'filter': _h_filter, 'any': _h_anyall('any'), 'all': _h_anyall('all'),
    'isinstance': _h_isinstance, 'hasattr': _h_hasattr, 'getattr': _h_getattr, 'setattr': _h_setattr,
    'super': _h_super, 'type': _h_type, 'str': _h_str, 'bool': _h_bool, 'callable': _h_callable,
    'os.getenv': _h_getenv, 'getenv': _h_getenv, 'os.environ.get': _h_getenv,
}
