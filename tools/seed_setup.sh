#!/bin/bash
# seed_setup.sh <Cnn> [suffix]  -- scratch worktree /tmp/seed/<Cnn><suffix> of /repo HEAD with only PROPERTY.json added
P=$1; S=${2:-}
D=/tmp/seed/$P$S
mkdir -p /tmp/seed
git -C /repo worktree remove --force $D 2>/dev/null; rm -rf $D
git -C /repo worktree add -q --detach $D HEAD || exit 1
/venv/bin/python - $P $D <<'PY'
import json, sys
p, d = sys.argv[1:3]
for l in open('/verif/properties.jsonl'):
    r = json.loads(l)
    if r['id'] == p:
        r.pop('added_in_round', None); r.pop('source', None)
        json.dump(r, open(d + '/PROPERTY.json', 'w'), indent=1)
PY
echo $D
sed -e "s/@P@/$P$S/g" -e "s/@ID@/$P/g" -e "s/@EXTRA@/${EXTRA:-}/" /verif/tools/seed_prompt.txt > $D/SEED_TASK.md
