#!/bin/bash
# benign_swap_check.sh [--tests] -- stress variant: operands of every & | == != swapped and every ordering comparison mirrored
# (tools/swap_operands.py) in a scratch copy; every check must stay at exit 0 on it.
cd /verif
S=$(mktemp -d /tmp/sw_XXXXXX); cp -r /repo/luna $S/luna
/venv/bin/python tools/swap_operands.py $S
if [ "$1" = "--tests" ]; then cp -r /repo/tests $S/tests; (cd $S && PYTHONPATH=$S /venv/bin/python -m pytest -q -p no:cacheprovider --timeout=900 tests 2>&1 | tail -1); fi
ls sa/rules | grep '^C[0-9]' | sed 's/.py//' | xargs -P 16 -I{} sh -c "/venv/bin/python vcheck {} --repo $S > $S/{}.txt 2>&1; echo \"{} \$?\"" | sort > $S/all.txt
bad=0
while read p rc; do
  if [ "$rc" != "0" ]; then bad=1; echo "  $p exit $rc"; grep -v '^KNOWN' $S/$p.txt | grep '^  [^a]\|ANALYSIS' | cut -c1-300 | head -4; fi
done < $S/all.txt
[ $bad -eq 0 ] && echo "swapped-operands variant: all $(wc -l < $S/all.txt) checks exit 0"
rm -rf $S
git checkout -- evidence 2>/dev/null
exit $bad
