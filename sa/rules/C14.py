"""C14 -- data toggles advance only on success and reset on CLEAR_FEATURE(HALT)."""
from ..ir import E
from .. import q
from ..fsm import state_outcomes

TITLE = 'data toggles'
FLOOR = 12
DECIDES = ('(a) IN endpoints (USBInTransferManager): data_pid[0] is written only when a new packet is staged after the previous '
           'one was ACKed (paired with the buffer switch, or the ZLP follow-up under handshakes_in.ack), as the undo of a discard, '
           'or by reset_sequence; the retry path (new token without ACK) writes nothing (details: C11); reset_sequence loads '
           '~start_with_data1 when nothing is staged and start_with_data1 when a packet is staged, so the next packet is DATA0; '
           'USBSignalInEndpoint flips its toggle only under ACK in its ack-wait state; (b) OUT endpoints: expected_data_toggle has '
           'exactly two writers -- flip under (data response & accepted), clear under clear-halt (C13 decides the flip guard '
           'exactly); (c) CLEAR_FEATURE(HALT) decoding, producer and consumers agree: the request handler emits direction = '
           'wIndex[7], number = wIndex[3:0]; the endpoint multiplexer forwards the three fields to every endpoint; IN endpoints '
           'act on enable & direction & number == own, OUT endpoints on enable & ~direction & number == own; (d) the handler '
           'emits the clear only for its own request\'s completed status stage (ACK attribution). ')
NOT_DECIDED = 'the toggle sequences over whole bus histories.'
I = 'self.interface.'


def run(ctx):
    # (a) IN side summary (C11 holds the detailed obligations)
    tm = ctx.ir('USBInTransferManager', 'usb2.transfer', max_packet_size=64)
    f = ctx.the_fsm(tm)
    writers = [a for a in q.merged_drivers(tm, 'self.data_pid') if a.lhs.canon() in ('self.data_pid', 'self.data_pid[0:1]')]
    ctx.need(len(writers) >= 5, 'data_pid writers')
    ack_state = {x.state[1] for x in list(f.edges) + tm.assigns if x.state and q.has(x, 'self.handshakes_in.ack')}
    ctx.need(len(ack_state) == 1, 'ack-wait state')
    A = ack_state.pop()
    for a in writers:
        st = q.state_of(a)
        if a.lhs.canon() == 'self.data_pid':
            ok = q.has(a, 'self.reset_sequence')
            kind = 'reset'
        elif st == A:
            ok = q.has(a, 'self.handshakes_in.ack')
            kind = 'under-ack'
        elif st == f.init:
            ok = any(e.dst != f.init and q.atoms(e) == q.atoms(a) for e in f.out_edges(f.init))
            kind = 'stage'
        else:
            ok = q.atoms(a) == {('self.discard', True)}
            kind = 'discard-undo'
        ctx.ob('C14.in-toggle-writers', 'USBInTransferManager.data_pid.%s@%s' % (kind, 'ack-wait' if st == A else 'init' if st == f.init else 'any' if st is None else 'other'),
               ok, a.loc, 'an IN toggle write must be tied to staging after an ACK, a discard undo, or reset_sequence: %s' % q.fmt(a)[:220])
    rs = [a for a in writers if a.lhs.canon() == 'self.data_pid']
    vals = {(q.state_of(a) is None): a.rhs.canon() for a in rs}
    ctx.ob('C14.reset-to-data0', 'USBInTransferManager.reset_sequence', vals == {True: '~self.start_with_data1', False: 'self.start_with_data1'} and len(rs) == 2, rs[0].loc if rs else None,
           'reset_sequence makes the next packet carry the start PID (pre-inverted when nothing is staged, direct when staged): %s' % vals)
    staged = [a for a in rs if a.state]
    if staged:
        o = state_outcomes(f, staged[0].state[1], {'self.reset_sequence': True, 'self.discard': False})
        ctx.ob('C14.reset-to-data0', 'USBInTransferManager.reset_sequence.no-send', set(o) == {None}, staged[0].loc, 'no packet is started in the cycle of the reset: %s' % sorted(map(str, o)))
        # priority: with a packet staged, the direct load must be the LAST applicable writer (a later assignment wins)
        from ..fsm import holds
        asg = {'self.reset_sequence': True, 'self.discard': False}
        live = [a for a in writers if (a.state is None or a.state == staged[0].state) and holds(a.guard, asg, default=False)]
        win = max(live, key=lambda a: a.order) if live else None
        ctx.ob('C14.reset-to-data0', 'USBInTransferManager.reset_sequence.staged-load-wins', win is staged[0], (win or staged[0]).loc,
               'with a packet staged (PID already toggled for it) reset_sequence must leave the start PID itself in data_pid; the '
               'winning writer in that state is: %s' % (q.fmt(win)[:200] if win else None))
    # (c) consumers
    ine = ctx.ir('USBStreamInEndpoint', 'endpoints.stream')
    d = ine.drivers('tx_manager.reset_sequence', exact=True)
    HALT_IN = {(I + 'clear_endpoint_halt_in.enable', True), (I + 'clear_endpoint_halt_in.direction', True), ('self._endpoint_number == ' + I + 'clear_endpoint_halt_in.number', True)}
    ok = len(d) == 1 and not d[0].guard and q.conj(d[0].rhs) == HALT_IN
    ctx.ob('C14.clear-halt-decode', 'USBStreamInEndpoint.reset_sequence', ok, d[0].loc if d else None,
           'an IN endpoint resets its toggle for enable & direction(IN) & its own number only: %s' % [a.rhs.canon() for a in d])
    pt = ine.drivers(I + 'tx_pid_toggle', exact=True)
    ctx.ob('C14.pid-wiring', 'USBStreamInEndpoint.tx_pid_toggle', len(pt) == 1 and pt[0].rhs.canon() == 'tx_manager.data_pid', None, 'the transmitted PID comes from the transfer manager')
    oute = ctx.ir('USBStreamOutEndpoint', 'endpoints.stream')
    tg = oute.drivers('expected_data_toggle', exact=True)
    flip = [a for a in tg if a.rhs.canon() == '~expected_data_toggle']
    clr = [a for a in tg if q.is_zero(a.rhs)]
    HALT_OUT = {(I + 'clear_endpoint_halt_in.enable', True), (I + 'clear_endpoint_halt_in.direction', False), ('self._endpoint_number == ' + I + 'clear_endpoint_halt_in.number', True)}
    # the clear wins over the flip: either it is the later assignment, or the flip is the Elif arm of the clear
    # (its guard excludes the whole clear condition)
    from ..fsm import lit_atoms, assignments, holds
    wins = False
    if len(flip) == 1 and len(clr) == 1:
        ats = sorted({x for a in (flip[0], clr[0]) for l in a.guard for x in lit_atoms(l)})
        wins = True
        for asg in assignments(ats):
            if holds(clr[0].guard, asg) and holds(flip[0].guard, asg) and not clr[0].order > flip[0].order:
                wins = False
    ok = len(tg) == 2 and len(flip) == 1 and len(clr) == 1 and q.atoms(clr[0]) == HALT_OUT and wins
    ctx.ob('C14.clear-halt-decode', 'USBStreamOutEndpoint.expected_data_toggle', ok, clr[0].loc if clr else None,
           'an OUT endpoint has one flip and one clear; the clear fires for enable & ~direction & its own number: %s' % [q.fmt(a)[:200] for a in tg])
    if flip:
        need = {(I + 'rx_ready_for_response', True), (I + 'tokenizer.is_out', True), ('self._endpoint_number == ' + I + 'tokenizer.endpoint', True),
                ('expected_data_toggle == ' + I + 'rx_pid_toggle', True), ('overflow', False)}
        ctx.ob('C14.out-toggle-on-accept', 'USBStreamOutEndpoint.expected_data_toggle.flip', need <= q.atoms(flip[0]), flip[0].loc,
               'the OUT toggle advances only when a new-toggle packet for this endpoint is answered and was not lost')
    sig = ctx.ir('USBSignalInEndpoint', 'endpoints.status', endpoint_number=1, width=16)
    sf = ctx.the_fsm(sig)
    tw = [a for a in sig.assigns if a.lhs.canon().startswith(I + 'tx_pid_toggle')]
    ok = tw and all(q.has(a, I + 'handshakes_in.ack') and a.state for a in tw)
    ctx.ob('C14.in-toggle-writers', 'USBSignalInEndpoint.tx_pid_toggle', bool(ok), tw[0].loc if tw else None, 'the status endpoint toggle flips only under ACK: %s' % [q.fmt(a)[:160] for a in tw])
    # forwarding
    mux = ctx.ir('USBEndpointMultiplexer', 'usb2.endpoint')
    fw = mux.drivers('self._interfaces[*].clear_endpoint_halt_in', exact=True)
    ctx.ob('C14.clear-halt-forward', 'USBEndpointMultiplexer.clear_endpoint_halt_in', len(fw) == 1 and fw[0].rhs.canon() == 'self.shared.clear_endpoint_halt_out' and not fw[0].guard,
           fw[0].loc if fw else None, 'every endpoint sees the clear-halt request')
    for fld in ('enable', 'direction', 'number'):
        dd = mux.drivers('self.shared.clear_endpoint_halt_out.' + fld, exact=True)
        ok = len(dd) == 1 and dd[0].rhs.canon() == 'self._interfaces[*].clear_endpoint_halt_out.' + fld and not dd[0].guard
        ctx.ob('C14.clear-halt-forward', 'USBEndpointMultiplexer.clear_endpoint_halt_out.' + fld, ok, dd[0].loc if dd else None, 'field %s is collected from the endpoints (the control endpoint drives it)' % fld)
    ce = ctx.ir('USBControlEndpoint', 'usb2.control')
    dd = ce.drivers(I + 'clear_endpoint_halt_out', exact=True)
    ctx.ob('C14.clear-halt-forward', 'USBControlEndpoint.clear_endpoint_halt_out', len(dd) == 1 and dd[0].rhs.canon() == 'request_mux.shared.clear_endpoint_halt' and not dd[0].guard, None, 'forwarded from the request handlers')
    # producer
    h = ctx.ir('StandardRequestHandler', 'request.standard')
    HALT = q.struct_fields(h, I + 'clear_endpoint_halt', [('enable', 1), ('direction', 1), ('number', 4)])
    en = [q.fold(h, a) for a in HALT['enable'] if a.rhs is not None and not q.is_zero(a.rhs)]
    ctx.need(len(en) == 1, 'clear_endpoint_halt.enable site')
    prod = {I + 'clear_endpoint_halt.direction': I + 'setup.index[7:8]', I + 'clear_endpoint_halt.number': I + 'setup.index[0:4]'}
    for lhs, rhs in prod.items():
        dd = HALT[lhs.split('.')[-1]]
        ok = len(dd) == 1 and dd[0].rhs.canon() == rhs and q.atoms(dd[0]) == q.atoms(en[0]) and dd[0].state == en[0].state
        ctx.ob('C14.clear-halt-fields', 'StandardRequestHandler.' + lhs.split('.')[-1], ok, dd[0].loc if dd else None, '%s <= %s with the enable strobe' % (lhs, rhs))
    import ast as _ast
    ci = ctx.index.find_class('ClearEndpointHaltInterface', 'usb2.request')
    ann = {st.target.id: st.annotation.value for st in ci.node.body
           if isinstance(st, _ast.AnnAssign) and isinstance(st.target, _ast.Name) and isinstance(st.annotation, _ast.Constant)}
    ws = [ann.get(n) for n in ('enable', 'direction', 'number')]
    ctx.ob('C14.clear-halt-fields', 'ClearEndpointHaltInterface.order', list(ann) == ['enable', 'direction', 'number'], None, 'field order of the struct: %s' % list(ann))
    ctx.ob('C14.clear-halt-fields', 'ClearEndpointHaltInterface.widths', ws == [1, 1, 4], None, 'enable/direction/number widths 1/1/4: %s' % ws)
    fsm = ctx.the_fsm(h)
    S = q.state_of(en[0])
    ent = fsm.in_edges(S)
    ok = len(ent) == 1 and q.has(ent[0], '1 == ' + I + 'setup.request')
    ctx.ob('C14.clear-halt-fields', 'StandardRequestHandler.clear-feature.entry', ok, ent[0].loc if ent else None, 'the clear is emitted only while handling CLEAR_FEATURE (request 1)')
    ctx.ob('C14.clear-on-completion', 'StandardRequestHandler.clear_endpoint_halt.enable', (I + 'handshakes_in.ack', True) in q.atoms(en[0]), en[0].loc,
           'the toggle of the named endpoint may be reset only when the request completes, i.e. on the host\'s ACK of the status stage '
           '(handshakes_in.ack); the strobe is raised under %s -- a CLEAR_FEATURE whose status stage is answered but never acknowledged '
           'would still reset the toggle' % sorted(q.atoms(en[0])))
    ga = {x for x, p in q.atoms(en[0]) if p}
    own = [x for x in ga if x not in (I + 'handshakes_in.ack', '0 == ' + I + 'setup.type')]
    ok = any(all((I + 'status_requested', True) in q.atoms(a) for a in h.drivers(x, exact=True) if q.is_one(a.rhs)) and h.drivers(x, exact=True) for x in own)
    ctx.ob('C14.ack-attribution', 'StandardRequestHandler.clear_endpoint_halt', ok, en[0].loc,
           'clear_endpoint_halt.enable is raised on any handshakes_in.ack while in the CLEAR_FEATURE state (guard %s): an ACK for another '
           'endpoint\'s transaction resets the toggle before, or without, the request completing' % sorted(ga))
