"""Analyses over the FSM graphs and guards of a ModuleIR (A1, A2, A4 of DESIGN.md)."""
from __future__ import annotations
import itertools

from .ir import E, Lit, literals, AnalysisError

MAX_ATOMS = 16


def atom_of(lit):
    """(atom string, polarity) of a literal."""
    s = lit.e.canon() if isinstance(lit.e, E) else str(lit.e)
    if lit.kind == 'cfg':
        s = 'cfg:' + s
    return s, lit.pos


def guard_atoms(guard):
    return [atom_of(l) for l in guard]


def _boolish(e):
    from .ir import _is_bool
    return _is_bool(e)


def leaf_atoms(e, out=None):
    """Canonical texts of the leaves of a boolean combination (&, |, ~ over 1-bit operands)."""
    if out is None:
        out = set()
    if isinstance(e, E) and e.op in ('&', '|') and all(_boolish(a) for a in e.args):
        for a in e.args:
            leaf_atoms(a, out)
    elif isinstance(e, E) and e.op == '~' and _boolish(e.args[0]):
        leaf_atoms(e.args[0], out)
    elif isinstance(e, E) and e.op == 'const':
        pass
    elif isinstance(e, E) and e.op in _DUAL and len(e.args) == 2:
        out.add(E(_DUAL[e.op], e.args, w=1).canon())          # `a != b` is the leaf `a == b` negated, `a < K` is `a >= K` negated
    else:
        out.add(e.canon() if isinstance(e, E) else str(e))
    return out


_DUAL = {'!=': '==', '<': '>='}


def eval_bool(e, asg):
    """Truth of a boolean combination under an assignment of its leaves (None if undetermined).
    A compound expression that is itself assigned (assumed) takes that value."""
    c = e.canon() if isinstance(e, E) else str(e)
    if c in asg:
        return asg[c]
    if isinstance(e, E):
        if e.op == 'const':
            return bool(e.val)
        if e.op in _DUAL and len(e.args) == 2:
            v = asg.get(E(_DUAL[e.op], e.args, w=1).canon())
            return None if v is None else (not v)
        if e.op == '~' and _boolish(e.args[0]):
            v = eval_bool(e.args[0], asg)
            return None if v is None else (not v)
        if e.op in ('&', '|') and all(_boolish(a) for a in e.args):
            vals = [eval_bool(a, asg) for a in e.args]
            if e.op == '&':
                if any(v is False for v in vals):
                    return False
                return None if any(v is None for v in vals) else True
            if any(v is True for v in vals):
                return True
            return None if any(v is None for v in vals) else False
    return None


def lit_atoms(lit):
    if lit.kind == 'cfg':
        return {'cfg:' + (lit.e.canon() if isinstance(lit.e, E) else str(lit.e))}
    return leaf_atoms(lit.e)


def holds(guard, assignment, default=None):
    """Truth of a conjunct-set guard under a (partial) assignment atom->bool.
    Returns True / False, or `default` if some atom is unassigned and nothing is false."""
    unknown = False
    for l in guard:
        if l.kind == 'cfg':
            a, _ = atom_of(l)
            v = assignment.get(a)
        else:
            v = eval_bool(l.e, assignment) if isinstance(l.e, E) else assignment.get(str(l.e))
        if v is None:
            unknown = True
            continue
        if v != l.pos:
            return False
    return default if unknown else True


def implied(guard, assume):
    """Is every literal of `guard` contained in the assumption dict (atom->bool)?"""
    return all(a in assume and assume[a] == p for a, p in guard_atoms(guard))


def consistent(guard, assume):
    for a, p in guard_atoms(guard):
        if a == '0':
            return False
        if a in assume and assume[a] != p:
            return False
    return True


def _exclusive_groups(atoms):
    """Atoms of the form 'K == x' with different constants K on the same x cannot hold together.
    Returns list of lists of mutually exclusive atoms."""
    groups = {}
    for a in atoms:
        if ' == ' in a:
            l, r = a.split(' == ', 1)
            if l.lstrip('-').isdigit():
                groups.setdefault(r, []).append(a)
    return [g for g in groups.values() if len(g) > 1]


def _norm_assume(atoms, assume):
    """A rule may name the truth of a multi-bit value X by the atom 'X' (true = non-zero); the guards spell it
    `0 == X` negated (ir.literals).  Translate such keys, so that both spellings of an assumption mean the same."""
    if not assume:
        return assume
    atoms = set(atoms)
    out = {}
    for k, v in assume.items():
        if k not in atoms and ('0 == ' + k) in atoms and v is not None:
            out['0 == ' + k] = not v
        elif k not in atoms and k.startswith('0 == ') and k[5:] in atoms and v is not None:
            out[k[5:]] = not v
        else:
            out[k] = v
    return out


def assignments(atoms, assume=None):
    assume = _norm_assume(atoms, assume)
    atoms = sorted(set(atoms) - set(assume or {}))
    if len(atoms) > MAX_ATOMS:
        raise AnalysisError('too many guard atoms to enumerate (%d): %s' % (len(atoms), atoms[:6]))
    excl = _exclusive_groups(atoms)
    for bits in itertools.product((False, True), repeat=len(atoms)):
        asg = dict(assume or {})
        asg.update(zip(atoms, bits))
        if any(sum(1 for a in g if asg.get(a)) > 1 for g in excl):
            continue
        yield asg


def state_outcomes(fsm, state, assume=None, extra=None):
    """Exact next-state relation of one state under Amaranth semantics (the last `m.next` whose guard
    holds wins).  Returns {dst_or_None: example assignment}.  `assume` fixes some atoms."""
    edges = sorted(fsm.out_edges(state), key=lambda e: e.order)
    atoms = []
    for e in edges:
        for l in e.guard:
            atoms += list(lit_atoms(l))
    out = {}
    for asg in assignments(atoms, assume):
        dst = None
        win = None
        for e in edges:
            if holds(e.guard, asg):
                dst, win = e.dst, e
        if dst not in out:
            out[dst] = (asg, win)
    return out


def must_exit(fsm, state, assume, targets=None):
    """Under `assume`, does every evaluation of the state's body assign m.next (to one of `targets`)?
    Returns (ok, counterexample)."""
    for dst, (asg, win) in state_outcomes(fsm, state, assume).items():
        if dst is None:
            return False, ('stays in %s' % state, asg)
        if targets is not None and dst not in targets:
            return False, ('goes to %s' % dst, asg)
    return True, None


def reachable(fsm, start, edge_ok=None, stop=None):
    """States reachable from `start` (start itself included only via a cycle... it is included)."""
    seen = {start}
    work = [start]
    while work:
        s = work.pop()
        if stop is not None and s in stop and s != start:
            continue
        for e in fsm.out_edges(s):
            if edge_ok is not None and not edge_ok(e):
                continue
            if e.dst not in seen and isinstance(e.dst, str):
                seen.add(e.dst)
                work.append(e.dst)
    return seen


def reaches(fsm, src, dst, edge_ok=None, avoid=None):
    """Is there a path (>= 1 edge) from src to dst using only edges with edge_ok, not passing through `avoid`?"""
    seen = set()
    work = [src]
    while work:
        s = work.pop()
        for e in fsm.out_edges(s):
            if edge_ok is not None and not edge_ok(e):
                continue
            if e.dst == dst:
                return True
            if avoid is not None and e.dst in avoid:
                continue
            if e.dst not in seen and isinstance(e.dst, str):
                seen.add(e.dst)
                work.append(e.dst)
    return False


def find_path(fsm, src, dst, edge_ok=None, avoid=None):
    """A witness path (list of edges) from src to dst, or None."""
    prev = {}
    work = [src]
    seen = {src}
    while work:
        s = work.pop(0)
        for e in fsm.out_edges(s):
            if edge_ok is not None and not edge_ok(e):
                continue
            if e.dst == dst:
                path = [e]
                while path[0].src != src or (path[0].src in prev and False):
                    if path[0].src == src:
                        break
                    path.insert(0, prev[path[0].src])
                return path
            if avoid is not None and e.dst in avoid:
                continue
            if e.dst not in seen and isinstance(e.dst, str):
                seen.add(e.dst)
                prev[e.dst] = e
                work.append(e.dst)
    return None


def unreachable_states(fsm):
    if not fsm.states:
        return []
    r = reachable(fsm, fsm.init)
    return [s for s in fsm.states if s not in r]


def dangling_targets(fsm):
    return sorted({e.dst for e in fsm.edges if e.dst not in fsm.states}, key=str)


def guard_has(item, atom, pos=True):
    """Does the guard of an Assign/Edge contain the literal (atom string, polarity)?"""
    return any(a == atom and p == pos for a, p in guard_atoms(item.guard))


def guard_has_any(item, atoms, pos=True):
    return any(guard_has(item, a, pos) for a in atoms)


def guard_atoms_matching(item, pred):
    return [(a, p) for a, p in guard_atoms(item.guard) if pred(a)]


def fmt_guard(guard):
    return ' & '.join(l.canon() for l in guard) or '1'
