"""Witness for C06 (USBSetupDecoder): SETUP token, CRC-corrupted DATA0, then the host's retry (SETUP token + the same
DATA0 with a good CRC).  The retry must be reported and ACKed.  Run:  cd /repo && /venv/bin/python /verif/witness/C06/retry_after_corrupt.py
(documentation only -- no check depends on this file)."""
import sys, unittest
sys.path.insert(0, '.')
from luna.gateware.test import usb_domain_test_case
from tests.test_usb2_packet import USBPacketizerTest
from luna.gateware.usb.usb2 import USBSpeed
from luna.gateware.usb.usb2.request import USBSetupDecoder

TOKEN = (0b00101101, 0b00000000, 0b00010000)
DATA = (0b11000011, 0b0_10_00010, 12, 0xcd, 0xab, 0x23, 0x01, 0x78, 0x56, 0x3b, 0xa2)


class W(USBPacketizerTest):
    FRAGMENT_UNDER_TEST = USBSetupDecoder
    FRAGMENT_ARGUMENTS = {'standalone': True}

    def initialize_signals(self):
        yield self.dut.speed.eq(USBSpeed.HIGH)

    @usb_domain_test_case
    def test_retry_after_corrupted_data(self):
        dut = self.dut
        seen = []

        def packet(*octets):
            # like provide_packet, but watching the strobes in every cycle
            yield from self.start_packet()
            for b in octets:
                yield from self.provide_byte(b)
                seen.append(((yield dut.ack), (yield dut.packet.received)))
            yield from self.end_packet()
            for _ in range(3):
                seen.append(((yield dut.ack), (yield dut.packet.received)))
                yield
        yield from packet(*TOKEN)
        bad = list(DATA); bad[-1] ^= 0x40
        yield from packet(*bad)                 # corrupted: nothing may be reported
        self.assertEqual(sum(r for _, r in seen), 0)
        yield from self.advance_cycles(20)
        yield from packet(*TOKEN)               # the host retries the whole transaction
        yield from packet(*DATA)
        for _ in range(5):
            seen.append(((yield dut.ack), (yield dut.packet.received)))
            yield
        acks, recv = sum(a for a, _ in seen), sum(r for _, r in seen)
        print('acks=%d received=%d' % (acks, recv))
        self.assertEqual((acks, recv), (1, 1), 'the retried SETUP transaction was missed')


if __name__ == '__main__':
    unittest.main(argv=['w'])
