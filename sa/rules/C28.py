"""C28 -- the OUT boundary detector marks first/last bytes and delays the completion strobes."""
import ast
import itertools

from ..ir import E
from .. import q
from ..fsm import reaches

TITLE = 'OUT stream boundary detection'
FLOOR = 30
DECIDES = ('Exact one-cycle relation of every state of the USBOutStreamBoundaryDetector FSM (last assignment / last '
           'm.next wins), evaluated for every valuation of the 1-bit signals the guards and flag expressions read; '
           'states and registers are identified by what they do. (a) the idle state starts a packet exactly on '
           'valid & next; every entry into the receiving state (the state that raises `last`) captures the input '
           'payload in the one-byte buffer and sets the first-byte flag; (b) in the receiving state an accepted byte '
           '(valid & next) emits the buffered byte (payload <- buffer, next <- 1, first <- flag, last not raised), '
           'stores the incoming byte and clears the flag; a gap (valid & ~next) emits nothing and keeps buffer and '
           'flag; loss of valid emits the buffered byte with last <- 1 and first <- flag, and is the one and only '
           'condition for leaving; processed_stream.valid is 1 whenever a byte is emitted; (c) complete_out / '
           'invalid_out are raised only in the state entered by that end-of-packet edge, from registers that '
           'accumulate (reg | input) complete_in / invalid_in in every cycle of the receiving state and nowhere '
           'else; that state emits no byte and leaves unconditionally; (d) last, the strobes and the accumulating '
           'registers are cleared on every path back to the receiving state; (e) the byte buffer is as wide as '
           'the payload, all logic lives in one clock domain, and the domain parameter renames exactly that domain. ')
NOT_DECIDED = ('multi-cycle data integrity beyond the one-byte pipeline (by induction from the clauses above it holds '
               'when packets are separated by at least two idle cycles; bytes arriving in the two cycles after a '
               'packet ends are dropped by design); zero-length packets (no byte is ever output, and their completion '
               'strobe is not forwarded); strobes arriving outside the receiving state (together with the very first byte, '
               'which the idle state discards, or after the end-of-packet edge).')

CLS = 'USBOutStreamBoundaryDetector'
IV, IN, IP = 'self.unprocessed_stream.valid', 'self.unprocessed_stream.next', 'self.unprocessed_stream.payload'
OV, ON, OP = 'self.processed_stream.valid', 'self.processed_stream.next', 'self.processed_stream.payload'
FIRST, LAST = 'self.first', 'self.last'
CI, II, CO, IO = 'self.complete_in', 'self.invalid_in', 'self.complete_out', 'self.invalid_out'
HOLD = 'hold'
MAX_VARS = 14


class Model:
    """Exact one-step semantics of one FSM state under a valuation of the 1-bit signals."""

    def __init__(self, ctx, ir, fsm):
        self.ctx, self.ir, self.fsm = ctx, ir, fsm
        self.sync = [a for a in ir.assigns if a.domain != 'comb' and (a.state is None or a.state[0] == fsm.id)]
        for a in self.sync:
            ctx.need(isinstance(a.lhs, E) and a.lhs.op == 'sig' and isinstance(a.rhs, E),
                     'whole-signal registered assignment: %s' % q.fmt(a))
        self.regs = {a.lhs.canon() for a in self.sync}
        self.comb = {}
        for a in ir.assigns:
            if a.domain == 'comb':
                for t in a.lhs_sigs():
                    self.comb.setdefault(t, []).append(a)
        for name in (ON, OP, OV, FIRST, LAST, CO, IO):
            ctx.need(name in self.regs and name not in self.comb, 'registered output %s' % name)
        names = set()
        for item in self.sync + list(fsm.edges):
            for l in item.guard:
                ctx.need(l.kind != 'cfg' and isinstance(l.e, E), 'guard of %s is an HDL condition' % q.fmt(item))
                names |= self._free(l.e)
            if item.kind == 'assign' and self.width(item.lhs.canon()) == 1:
                names |= self._free(item.rhs)
        self.vars = sorted(n for n in names if self.width(n) == 1)
        ctx.need(len(self.vars) <= MAX_VARS, 'at most %d 1-bit signals to enumerate (%s)' % (MAX_VARS, self.vars))
        ctx.need(IV in self.vars and IN in self.vars, 'the guards read unprocessed_stream.valid / .next')
        self.envs = [dict(zip(self.vars, bits)) for bits in itertools.product((0, 1), repeat=len(self.vars))]
        self.evaluations = 0

    def enumerate_also(self, name):
        if name not in self.vars:
            self.vars = sorted(self.vars + [name])
            self.ctx.need(len(self.vars) <= MAX_VARS, 'at most %d 1-bit signals to enumerate' % MAX_VARS)
            self.envs = [dict(zip(self.vars, bits)) for bits in itertools.product((0, 1), repeat=len(self.vars))]

    def width(self, name):
        si = self.ir.signals.get(name)
        return si.w if si is not None else None

    def _free(self, e, depth=0):
        """signals an expression depends on, combinational locals replaced by what defines them"""
        out = set()
        for s in e.sigs():
            if s in self.comb:
                d = q.comb_def(self.ir, s)
                self.ctx.need(d is not None and depth < 4, 'single unconditional combinational definition of %s' % s)
                out |= self._free(d, depth + 1)
            else:
                out.add(s)
        return out

    def bit(self, e, env):
        """value (0/1) of a 1-bit expression, or None when it is not a boolean function of the enumerated signals"""
        if not isinstance(e, E):
            return None
        op = e.op
        if op == 'const':
            return e.val if e.val in (0, 1) else None
        if op == 'sig':
            n = e.args[0].name
            if n in self.comb:
                d = q.comb_def(self.ir, n)
                return self.bit(d, env) if d is not None and self.width(n) == 1 else None
            return env.get(n) if self.width(n) == 1 else None
        if op == 'slice' and e.args[1] == 0 and e.args[2] == 1 and isinstance(e.args[0], E) and e.args[0].w == 1:
            return self.bit(e.args[0], env)
        if op in ('~', '&', '|', '^', '==', '!='):
            vs = [self.bit(a, env) for a in e.args]
            if any(v is None for v in vs):
                return None
            if op == '~':
                return 1 - vs[0]
            if op == '&':
                return int(all(vs))
            if op == '|':
                return int(any(vs))
            if op == '^':
                return sum(vs) & 1
            if len(vs) != 2:
                return None
            return int((vs[0] == vs[1]) == (op == '=='))
        if op == 'mux' and len(e.args) == 3:
            c = self.bit(e.args[0], env)
            return None if c is None else self.bit(e.args[1] if c else e.args[2], env)
        if op == 'call' and e.args[0] in ('bool', 'any', 'all') and len(e.args) == 2:
            return self.bit(e.args[1], env)
        return None

    def holds(self, item, env):
        for l in item.guard:
            v = self.bit(l.e, env)
            self.ctx.need(v is not None, 'guard literal `%s` of %s is a boolean function of 1-bit signals' % (
                l.canon(), q.fmt(item)))
            if bool(v) != l.pos:
                return False
        return True

    def nxt(self, st, env):
        self.evaluations += 1
        dst = st
        for e in sorted(self.fsm.out_edges(st), key=lambda e: e.order):
            if self.holds(e, env):
                dst = e.dst
        return dst

    def drv(self, st, sig, env):
        win = None
        for a in self.sync:
            if a.lhs.canon() == sig and (a.state is None or a.state[1] == st) and self.holds(a, env):
                if win is None or a.order > win.order:
                    win = a
        return win

    def eff(self, st, sig, env):
        """value the register takes at the next edge: 0/1, canonical text of a wide / non-boolean rhs, the current
        value when nothing drives it (HOLD if that is not enumerated)."""
        self.evaluations += 1
        a = self.drv(st, sig, env)
        if a is None:
            return env.get(sig, HOLD)
        if self.width(sig) == 1:
            v = self.bit(a.rhs, env)
            if v is not None:
                return v
        return a.rhs.canon()

    def cex(self, st, when, pred):
        """first valuation with when(env) and not pred(env), rendered; None if the clause holds for all"""
        for env in self.envs:
            if when(env) and not pred(env):
                return self.show(env)
        return None

    def show(self, env):
        return '{' + ', '.join('%s=%d' % (k.replace('self.', '').replace('unprocessed_stream', 'in'), v)
                               for k, v in sorted(env.items())) + '}'

    def site(self, st, sig):
        ds = [a for a in self.sync if a.lhs.canon() == sig and a.state and a.state[1] == st]
        return ds[-1].loc if ds else self.fsm.state_loc.get(st)


def _renamed_domains(ctx):
    """keys of the literal dict given to DomainRenamer in elaborate(), or None if there is no such call"""
    _, fn = ctx.func(CLS, 'elaborate', 'usb.stream')
    keys = None
    for n in ast.walk(fn):
        if isinstance(n, ast.Call) and isinstance(n.func, ast.Name) and n.func.id == 'DomainRenamer' and n.args:
            d = n.args[0]
            if isinstance(d, ast.Dict):
                keys = (keys or set()) | {k.value for k in d.keys if isinstance(k, ast.Constant)}
            elif isinstance(d, ast.Constant):
                keys = (keys or set()) | {'sync'}
    return keys


def check(ctx, tag, **kw):
    ir = ctx.ir(CLS, 'usb.stream', **kw)
    fsm = ctx.the_fsm(ir)
    M = Model(ctx, ir, fsm)
    K = lambda role: '%s.%s%s' % (CLS, role, tag)
    for n in (IV, IN, IP, OV, ON, OP, FIRST, LAST, CI, II, CO, IO):
        ctx.need(n in ir.signals, 'port %s' % n)

    # ---- roles ------------------------------------------------------------------------------------------------
    W = fsm.init
    rs = {q.state_of(a) for a in q.raises(ir, LAST)}
    ctx.need(len(rs) == 1 and None not in rs, 'exactly one state raises `last` (found %s)' % sorted(map(str, rs)))
    R = rs.pop()
    ctx.need(R != W, 'the receiving state is not the initial state')
    ends = {M.nxt(R, env) for env in M.envs if not env[IV]} - {R}
    if len(ends) != 1:
        ends = {q.state_of(a) for a in q.raises(ir, CO)} - {None, R}
    ctx.need(len(ends) == 1, 'the state that follows the end of a packet (found %s)' % sorted(map(str, ends)))
    S = ends.pop()
    ctx.need(S in fsm.states and len({W, R, S}) == 3, 'idle, receiving and strobe states are distinct')
    role = {W: 'idle', R: 'receive', S: 'strobe'}
    RN = lambda s: '%s(%s)' % (role.get(s, 'other'), s)

    def registers(names, width1):
        return sorted(n for n in names if n in M.regs and n not in (OV, ON, OP, FIRST, LAST, CO, IO)
                      and (M.width(n) == 1) == width1)

    def reads_in(st, sig, nonzero=False):
        out = set()
        for a in M.sync:
            if a.lhs.canon() == sig and a.state and a.state[1] == st and not (nonzero and q.is_zero(a.rhs)):
                out |= a.rhs.sigs()
        return out
    start = [env for env in M.envs if env[IV] and env[IN]]
    # the one-byte buffer: what the output payload is fed from while receiving (else: what captures the input payload)
    cand = registers(reads_in(R, OP), False)
    if len(cand) != 1:
        cand = registers({a.lhs.canon() for a in M.sync if a.rhs.canon() == IP and a.state and a.state[1] in (W, R)}, False)
    ctx.need(len(cand) == 1, 'the one-byte buffer register (candidates %s)' % cand)
    B = cand[0]
    # the first-byte flag: what `first` is fed from while receiving (else: the flag set when the first byte arrives)
    cand = registers(reads_in(R, FIRST, nonzero=True), True)
    if len(cand) != 1:
        cand = [n for n in registers(M.regs, True) if all(M.eff(W, n, env) == 1 for env in start)
                and all(M.eff(W, n, env) != 1 for env in M.envs if not (env[IV] and env[IN]))]
    ctx.need(len(cand) == 1, 'the first-byte flag register (candidates %s)' % cand)
    F = cand[0]
    M.enumerate_also(F)

    def accumulator(out, inp):
        c = registers(reads_in(S, out, nonzero=True), True)
        if len(c) != 1:
            c = registers({a.lhs.canon() for a in M.sync if inp in a.rhs.sigs() and a.state and a.state[1] == R}, True)
        return c[0] if len(c) == 1 else None
    BC, BI = accumulator(CO, CI), accumulator(IO, II)
    for n in (BC, BI):
        if n is not None:
            M.enumerate_also(n)

    def ob(rule, key, st, sig, when, pred, msg):
        c = M.cex(st, when, pred)
        ctx.ob(rule, K(key), c is None, M.site(st, sig) if sig else fsm.state_loc.get(st),
               msg + ('' if c is None else ' -- fails for %s in state %s' % (c, st)))

    byte = lambda env: env[IV] and env[IN]
    gap = lambda env: env[IV] and not env[IN]
    end = lambda env: not env[IV]
    always = lambda env: True

    # ---- (a) start of a packet ---------------------------------------------------------------------------------
    ob('C28.start-on-first-byte', 'idle.exit', W, None, always,
       lambda env: M.nxt(W, env) == (R if byte(env) else W),
       'the idle state must move to the receiving state exactly when a byte arrives (valid & next)')
    for st in fsm.states:
        if st == R or not any(e.dst == R for e in fsm.out_edges(st)):
            continue
        enters = lambda env, st=st: M.nxt(st, env) == R
        ob('C28.entry-captures-first-byte', '%s->receive.buffer' % role.get(st, 'other'), st, B, enters,
           lambda env, st=st: byte(env) and M.eff(st, B, env) == IP,
           'every entry into the receiving state must store the arriving byte (%s <- input payload)' % B)
        ob('C28.entry-captures-first-byte', '%s->receive.first-flag' % role.get(st, 'other'), st, F, enters,
           lambda env, st=st: M.eff(st, F, env) == 1,
           'every entry into the receiving state must mark the stored byte as the first one (%s <- 1)' % F)
    ctx.need(any(e.src != R for e in fsm.in_edges(R)), 'an edge into the receiving state')

    # ---- (b) the receiving state -------------------------------------------------------------------------------
    ob('C28.end-of-packet', 'receive.exit', R, None, always,
       lambda env: M.nxt(R, env) == (S if end(env) else R),
       'the receiving state must be left exactly when the input stream is no longer valid, to the strobe state %s' % S)
    for name, when, what in (('byte', byte, 'an accepted byte (valid & next)'), ('end', end, 'the end of the packet (~valid)')):
        ob('C28.emit-buffered-byte', 'receive.%s.payload' % name, R, OP, when, lambda env: M.eff(R, OP, env) == B,
           'on %s the buffered byte must be output (processed payload <- %s)' % (what, B))
        ob('C28.emit-buffered-byte', 'receive.%s.next' % name, R, ON, when, lambda env: M.eff(R, ON, env) == 1,
           'on %s exactly one byte is output (processed next <- 1 must win)' % what)
        ob('C28.first-from-flag', 'receive.%s.first' % name, R, FIRST, when, lambda env: M.eff(R, FIRST, env) == env[F],
           'on %s `first` must take the value of the first-byte flag %s' % (what, F))
    ob('C28.last-only-at-end', 'receive.end.last', R, LAST, end, lambda env: M.eff(R, LAST, env) == 1,
       'the byte output when the input stream stops being valid is the last one (last <- 1 must win)')
    ob('C28.last-only-at-end', 'receive.byte.last', R, LAST, lambda env: env[IV], lambda env: M.eff(R, LAST, env) in (0, HOLD),
       '`last` must not be raised while the input packet is still active')
    ob('C28.buffer-advance', 'receive.byte.buffer', R, B, byte, lambda env: M.eff(R, B, env) == IP,
       'an accepted byte must replace the buffered one (%s <- input payload)' % B)
    ob('C28.buffer-advance', 'receive.byte.first-flag', R, F, byte, lambda env: M.eff(R, F, env) == 0,
       'after the first byte has been output the first-byte flag %s must be cleared' % F)
    ob('C28.gap-emits-nothing', 'receive.gap.next', R, ON, gap, lambda env: M.eff(R, ON, env) == 0,
       'without a new byte nothing may be output (processed next <- 0 must win)')
    ob('C28.gap-emits-nothing', 'receive.gap.buffer', R, B, gap, lambda env: M.eff(R, B, env) in (HOLD, B),
       'without a new byte the buffered byte %s must be kept' % B)
    ob('C28.gap-emits-nothing', 'receive.gap.first-flag', R, F, gap, lambda env: M.eff(R, F, env) == env[F],
       'without a new byte the first-byte flag %s must be kept' % F)
    ob('C28.valid-with-byte', 'receive.valid', R, OV, always, lambda env: M.eff(R, OV, env) == 1,
       'processed_stream.valid must be 1 in every cycle in which a byte can be output')

    # ---- (c) delayed strobes -----------------------------------------------------------------------------------
    ob('C28.strobe-state', 'strobe.exit', S, None, always, lambda env: M.nxt(S, env) != S,
       'the strobe state must be left unconditionally (one report per packet)')
    ob('C28.strobe-state', 'strobe.next', S, ON, always, lambda env: M.eff(S, ON, env) == 0,
       'the last byte must be output once: the state after the end of the packet clears processed next')
    for out, inp, acc, nm in ((CO, CI, BC, 'complete'), (IO, II, BI, 'invalid')):
        rz = q.raises(ir, out)
        where = sorted({str(q.state_of(a)) for a in rz})
        ctx.ob('C28.strobe-after-last-byte', K('%s_out.site' % nm), bool(rz) and where == [S], rz[0].loc if rz else None,
               '%s_out may only be driven non-zero in the state entered after the last byte was output (%s): driven in %s' % (
                   nm, S, where))
        if acc is None:
            ctx.ob('C28.strobe-from-latch', K('%s_out.value' % nm), False, M.site(S, out),
                   '%s_out must report a register that accumulated %s_in during the packet; it reads %s' % (
                       nm, nm, sorted(reads_in(S, out, nonzero=True))))
            ctx.ob('C28.strobe-latch', K('%s.accumulate' % nm), False, M.site(S, out), 'no accumulating register for %s_in' % nm)
            continue
        f_latched = lambda env: M.eff(S, out, env) == env[acc]
        f_or_live = lambda env: M.eff(S, out, env) == (env[acc] | env.get(inp, 0))
        c1, c2 = M.cex(S, always, f_latched), M.cex(S, always, f_or_live)
        ctx.ob('C28.strobe-from-latch', K('%s_out.value' % nm), c1 is None or c2 is None, M.site(S, out),
               '%s_out must take the value of the register %s that accumulated %s_in%s' % (
                   nm, acc, nm, '' if c1 is None or c2 is None else ' -- fails for %s' % c1))
        ob('C28.strobe-latch', '%s.accumulate' % nm, R, acc, always,
           lambda env, acc=acc, inp=inp: inp in env and M.eff(R, acc, env) == (env[acc] | env[inp]),
           'the register reported on %s_out (%s) must accumulate %s_in in every cycle of the receiving state, the '
           'end-of-packet cycle included: %s <- %s | %s_in must win' % (nm, acc, nm, acc, acc, nm))
        rz = [a for a in q.raises(ir, acc) if q.state_of(a) != R]
        ctx.ob('C28.strobe-latch', K('%s.raise-site' % nm), not rz, rz[0].loc if rz else M.site(R, acc),
               'the accumulating register %s may only be raised in the receiving state: %s' % (acc, [q.fmt(a) for a in rz]))
    ctx.ob('C28.strobe-latch', K('distinct-latches'), BC is not None and BI is not None and BC != BI, M.site(R, BC or BI or B),
           'complete and invalid need separate accumulating registers (%s / %s)' % (BC, BI))

    # ---- (d) cleared between packets ---------------------------------------------------------------------------
    def cleared_between(sig, after_only):
        clearing = {s for s in fsm.states if s != R and (s != S or not after_only)
                    and all(M.eff(s, sig, env) == 0 for env in M.envs)}
        ok = (S in clearing) or not reaches(fsm, S, R, avoid=clearing)
        return ok, clearing
    for sig, after_only, nm in ((LAST, False, 'last'), (CO, True, 'complete_out'), (IO, True, 'invalid_out'),
                                (BC, False, 'complete-latch'), (BI, False, 'invalid-latch')):
        if sig is None:
            ctx.ob('C28.cleared-between-packets', K(nm), False, None, 'no register found for %s' % nm)
            continue
        ok, clearing = cleared_between(sig, after_only)
        ctx.ob('C28.cleared-between-packets', K(nm), ok, M.site(W, sig),
               '%s must be cleared unconditionally on every path from the strobe state back to the receiving state, or it '
               'leaks into the next packet; states clearing it: %s' % (sig, sorted(map(RN, clearing))))

    # ---- (e) widths and domains --------------------------------------------------------------------------------
    wi, wb, wo = M.width(IP), M.width(B), M.width(OP)
    ctx.ob('C28.buffer-width', K('buffer'), None not in (wi, wb, wo) and wb >= wi and wo >= wi, ir.signals[B].loc,
           'buffer (%s bits) and processed payload (%s bits) must hold the %s-bit input payload' % (wb, wo, wi))
    doms = {a.domain for a in M.sync} | {fsm.domain}
    ctx.ob('C28.single-domain', K('domains'), len(doms) == 1, fsm.loc,
           'FSM and every registered assignment must use the same clock domain: %s' % sorted(map(str, doms)))
    want = kw.get('domain')
    if want is not None:
        ren = _renamed_domains(ctx)
        ok = doms == {want} or (ren is not None and doms <= ren)
        ctx.ob('C28.domain-parameter', K('rename'), ok, fsm.loc,
               'with domain=%r the logic must end up in that domain: elaborate() uses %s and renames %s' % (
                   want, sorted(map(str, doms)), sorted(ren) if ren is not None else 'nothing'))
    return M


def run(ctx):
    M = check(ctx, '')
    n = M.evaluations
    M2 = check(ctx, '[domain=sync]', domain='sync')
    n += M2.evaluations
    if ctx.tier == 'thorough':
        for d in ('usb', 'fast'):
            n += check(ctx, '[domain=%s]' % d, domain=d).evaluations
    ctx.note('%d one-step evaluations over %d valuations of %s' % (n, len(M.envs), M.vars))
