# Witness for C09 / F16: GetDescriptorHandlerDistributed (+ ConstantStreamGenerator) at continuation offset == descriptor length.
# run:  cd /repo && PYTHONPATH=/repo /venv/bin/python /tmp/w_C09/witness.py   (PYTHONPATH selects the tree under test)
import sys
from amaranth import *
from amaranth.sim import Simulator
from luna.gateware.usb.usb2.descriptor import GetDescriptorHandlerDistributed, GetDescriptorHandlerBlock

def run(cls, desc_len, mps, wlength, start_position):
    data = bytes(range(0x10, 0x10 + desc_len))
    coll = [(2, 0, data)]
    dut = cls(coll, max_packet_length=mps)
    m = Module()
    m.submodules.dut = dut
    m.domains.usb = ClockDomain()
    out = []
    stalled = []
    async def bench(ctx):
        ctx.set(dut.value, 0x0200)
        ctx.set(dut.length, wlength)
        ctx.set(dut.start_position, start_position)
        ctx.set(dut.tx.ready, 1)
        for _ in range(4):
            await ctx.tick('usb')
        ctx.set(dut.start, 1)
        if ctx.get(dut.stall): stalled.append(1)
        await ctx.tick('usb')
        ctx.set(dut.start, 0)
        for _ in range(3 * mps + 12):
            if ctx.get(dut.stall): stalled.append(1)
            if ctx.get(dut.tx.valid):
                out.append((ctx.get(dut.tx.payload), ctx.get(dut.tx.first), ctx.get(dut.tx.last)))
            await ctx.tick('usb')
    sim = Simulator(m)
    sim.add_clock(1 / 60e6, domain='usb')
    sim.add_testbench(bench)
    sim.run()
    return data, out, stalled

for cls in (GetDescriptorHandlerBlock, GetDescriptorHandlerDistributed):
    for desc_len, mps in ((8, 8), (24, 8), (64, 64)):
        data, out, st = run(cls, desc_len, mps, 255, desc_len)
        zlp = (len(out) == 1 and out[0][1] == 0 and out[0][2] == 1)
        print('%-32s len=%2d mps=%2d wLength=255 start_position=%2d -> %s%s' % (
            cls.__name__, desc_len, mps, desc_len,
            'ZLP (valid, last, not first)  OK' if zlp else
            'NO ZLP: %d data byte(s) %s' % (len(out), ' '.join('%02x' % p for p, f, l in out[:10]) + (' ...' if len(out) > 10 else '')),
            ' stall' if st else ''))
