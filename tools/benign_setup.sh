#!/bin/bash
# benign_setup.sh <Bn> <file> [file ...] -- scratch worktree /tmp/benign/<Bn> of /repo HEAD with BENIGN_TASK.md
B=$1; shift
D=/tmp/benign/$B
mkdir -p /tmp/benign
git -C /repo worktree remove --force $D 2>/dev/null; rm -rf $D
git -C /repo worktree add -q --detach $D HEAD || exit 1
FILES=$(for f in "$@"; do echo "  - $f"; done)
/venv/bin/python - "$B" "$FILES" <<'PY'
import sys
b, files = sys.argv[1:3]
import os
t = open('/verif/tools/benign_prompt.txt').read().replace('@P@', b).replace('@FILES@', files)
if os.environ.get('BENIGN_EXTRA'):
    t += '\n\n' + os.environ['BENIGN_EXTRA'] + '\n'
open('/tmp/benign/%s/BENIGN_TASK.md' % b, 'w').write(t)
PY
echo $D
