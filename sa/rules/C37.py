"""C37 -- received header packets are accepted, acknowledged and buffered exactly."""
import itertools

from ..ir import E, _wrap, _is_bool
from .. import q

TITLE = 'header packet reception: accept / LGOOD / LBAD / buffers / LCRD'
FLOOR = 80
DECIDES = ('All guards are compared with their specification by exhaustive evaluation of the extracted expressions over their '
           'leaf conditions and small counter values (formulation independent); signals are found by role. '
           '(a) RawHeaderPacketReceiver: the header is framed by SHP SHP SHP EPF under sink.valid; each of the four words is '
           'captured, the CRC-16 advanced (first three words only, cleared between packets) and the word state left under '
           'sink.valid only; the DW3 link control fields sit at their spec positions; in the decision state new_packet is '
           'raised iff CRC-5, CRC-16 and sequence number all match (compared against the pipelined CRC-5, the CRC-16 unit '
           'and expected_sequence), bad_packet iff one of the CRCs fails, the validated packet is latched to the output with '
           'the strobe, the state is always left and new_packet is a one-cycle strobe. '
           '(b) HeaderPacketReceiver: the raw receiver sees the sink and the live expected sequence number; a header is '
           'stored, the write pointer and expected sequence advanced, a buffer reserved and an LGOOD queued exactly under '
           'new_packet & ~ignore; LBAD and the ignore flag are set exactly under bad_packet & ~ignore; the ignore flag is '
           'cleared by retry_received and otherwise only in the re-advertisement block; recovery is never requested while '
           'ignoring; the three up/down task counters change by (enqueue - dequeue) for all four combinations and hold the '
           'buffer count; queue.valid iff a buffer is filled; queue.header reads the same buffer array, in the same order, '
           'by the read pointer; release, read pointer advance and credit enqueue happen exactly under valid & ready; '
           'pointers and the credit index wrap at the buffer count; sequence numbers are 3 bit. '
           '(c) link command FSM: the LGOOD state sends subtype <- the ack sequence register, which advances together with '
           'the ack dequeue exactly per completed command, and is left exactly when the last queued ack is done; the same '
           'for LCRD with the credit index; the LBAD state clears the pending flag and leaves exactly on done; LGOOD / LCRD '
           '/ LBAD are dispatched only with a non-empty ack queue / credit queue / pending LBAD; every state that raises '
           'generate drives the command unconditionally (the default command is LGOOD) with the spec command codes; initial '
           'values: ack register + initial acks == expected sequence (mod 8), credits + filled <= buffer count. '
           '(d) LinkCommandGenerator puts the requested subtype into bits 0..3 and reports done only when the command word '
           'is taken; PacketTransmitter raises retry_received exactly for a received LRTY; USB3LinkLayer wires retry_received '
           'and the header queue. ')
NOT_DECIDED = ('the counting invariant over histories (buffered + advertised <= buffer count as an inductive invariant), the '
               'relative timing of LRTY and the retried header, the CRC equations (C30), the re-advertisement block and the '
               'dispatch priority (C38).')

MOD = 'usb3.link.receiver'
V = 'self.sink.valid'
PAY = 'self.sink.payload'
# USB 3.2 section 7.2.1.1.3 (link control word = DW3[16:32]) and DW3[0:16] = CRC-16
DW3_FIELDS = {'crc16': (0, 16), 'sequence_number': (16, 19), 'hub_depth': (22, 25), 'delayed': (25, 26), 'deferred': (26, 27),
              'crc5': (27, 32)}
# what the protocol layer consumes of a buffered header
OFFERED_FIELDS = ('dw0', 'dw1', 'dw2', 'hub_depth', 'delayed', 'deferred')
HPSTART_WORD = 0xF7FBFBFB       # SHP SHP SHP EPF = K27.7 K27.7 K27.7 K23.7, first symbol in the low byte
# USB 3.2 table 7-4: class (bits 10:9) / type (bits 8:7) of the link command word
SPEC_CMD = {'LGOOD': 0, 'LCRD': 1, 'LRTY': 2, 'LBAD': 3}


# ------------------------------------------------------------------------------------------------ evaluation
class NotUnderstood(Exception):
    pass


def eq_key(a, b):
    return ' == '.join(sorted([a, b]))


def _cmp_key(e):
    return ' == '.join(sorted(_wrap(a) for a in e.args))


def _symbolic_cmp(e):
    return isinstance(e, E) and e.op in ('==', '!=') and not any(isinstance(a, E) and a.op == 'const' for a in e.args)


def collect(e, cmps, sigs):
    """Leaves of an expression: comparisons between two non-constants (kept symbolic) and signals."""
    if not isinstance(e, E):
        return
    if _symbolic_cmp(e):
        cmps.add(_cmp_key(e))
        return
    if e.op in ('<', '<=', '>', '>=') and not any(isinstance(a, E) and a.op == 'const' for a in e.args):
        cmps.add(e.canon())         # an order comparison of two signals: a free condition of its own
        return
    if e.op == 'sig':
        sigs.add(e.args[0].name)
        return
    for a in e.args:
        collect(a, cmps, sigs)


def ieval(e, env):
    """Integer value of an expression under env (signal name -> int, symbolic comparison key -> bool)."""
    if not isinstance(e, E):
        raise NotUnderstood(repr(e))
    op = e.op
    if op == 'const':
        return int(e.val)
    if op == 'sig':
        n = e.args[0].name
        if n not in env:
            raise NotUnderstood('unbound signal %s' % n)
        return int(env[n])
    if op in ('==', '!='):
        k = _cmp_key(e)
        if k in env:
            v = bool(env[k])
        else:
            v = ieval(e.args[0], env) == ieval(e.args[1], env)
        return int(v if op == '==' else not v)
    if op in ('<', '<=', '>', '>='):
        if e.canon() in env:
            return int(bool(env[e.canon()]))
        a, b = ieval(e.args[0], env), ieval(e.args[1], env)
        return int({'<': a < b, '<=': a <= b, '>': a > b, '>=': a >= b}[op])
    if op == '~':
        v = ieval(e.args[0], env)
        if _is_bool(e.args[0]):
            return 0 if v else 1
        w = e.args[0].w
        if w is None:
            raise NotUnderstood('~ of unknown width: %s' % e.canon())
        return ~v & ((1 << w) - 1)
    if op in ('&', '|', '^', '+', '-'):
        vals = [ieval(a, env) for a in e.args]
        r = vals[0]
        for v in vals[1:]:
            r = {'&': r & v, '|': r | v, '^': r ^ v, '+': r + v, '-': r - v}[op]
        return r
    if op == 'slice':
        x, lo, hi = e.args
        return (ieval(x, env) >> lo) & ((1 << (hi - lo)) - 1)
    if op == 'call' and e.args[0] == 'bool' and len(e.args) == 2:
        return int(bool(ieval(e.args[1], env)))
    raise NotUnderstood('expression %s' % e.canon())


def gval(item, env):
    for l in item.guard:
        if l.kind == 'cfg':
            raise NotUnderstood('configuration dependent guard %s' % l.canon())
        if bool(ieval(l.e, env)) != l.pos:
            return False
    return True


def envs(ir, items, known, extra_exprs=()):
    """All environments over the leaves of the guards of `items`: `known` (name -> list of values) plus every other
    1-bit signal / symbolic comparison as a free boolean."""
    cmps, sigs = set(), set()
    for it in items:
        for l in it.guard:
            collect(l.e, cmps, sigs)
    for e in extra_exprs:
        collect(e, cmps, sigs)
    dom = {k: list(v) for k, v in known.items()}
    for c in cmps:
        dom.setdefault(c, [False, True])
    for s in sigs:
        if s in dom:
            continue
        si = ir.signals.get(s)
        if si is None or si.w not in (1, None):
            raise NotUnderstood('multi-bit signal %s in a condition' % s)
        dom[s] = [0, 1]
    names = sorted(dom)
    if len(names) > 16:
        raise NotUnderstood('too many leaves: %s' % names)
    for vals in itertools.product(*[dom[n] for n in names]):
        yield dict(zip(names, vals))


def differs(ir, items, spec, known):
    """First environment in which `any guard of items holds` differs from spec(env); None if equivalent."""
    for env in envs(ir, items, known):
        if any(gval(it, env) for it in items) != bool(spec(env)):
            return _short(env)
    return None


def step(fsm, state, env):
    dst = None
    for e in sorted(fsm.out_edges(state), key=lambda e: e.order):
        if gval(e, env):
            dst = e.dst
    return dst


def outcomes(ir, fsm, state, known):
    """{next state or None: example environment} of one state, over all environments of its edge guards
    (a != b is read as the negation of a == b)."""
    out = {}
    for env in envs(ir, fsm.out_edges(state), known):
        out.setdefault(step(fsm, state, env), _short(env))
    return out


def _short(env):
    return {k: v for k, v in env.items() if v} if env is not None else None


def one_bit(ir, name):
    si = ir.signals.get(name)
    return si is not None and si.w == 1


def sub_prefix(ctx, ir, clsname):
    subs = [s for s in ir.submodules if s.obj.clsname == clsname]
    ctx.need(len(subs) == 1, 'the %s submodule of %s' % (clsname, ir.clsname))
    return subs[0].obj.path


def vote(*groups):
    """The candidate named by most of the (independent) role descriptions; None without a majority of two."""
    tally = {}
    for g in groups:
        for n in set(g):
            tally[n] = tally.get(n, 0) + 1
    if not tally:
        return None
    best = sorted(tally.items(), key=lambda kv: (-kv[1], kv[0]))
    if best[0][1] < 2 or (len(best) > 1 and best[1][1] == best[0][1]):
        return None
    return best[0][0]


def guarded(ctx, fn, what):
    try:
        return fn()
    except NotUnderstood as ex:
        ctx.need(False, '%s (%s)' % (what, ex))


# ------------------------------------------------------------------------------------------------ (a) raw receiver
def check_raw(ctx):
    C = 'RawHeaderPacketReceiver'
    ir = ctx.ir(C, MOD)
    fsm = ctx.the_fsm(ir)
    init = fsm.init
    acc = q.raises(ir, 'self.new_packet')
    ctx.need(len(acc) == 1 and acc[0].state is not None, 'the single new_packet raise site inside the FSM')
    acc = acc[0]
    cs = q.state_of(acc)
    crc = sub_prefix(ctx, ir, 'HeaderPacketCRC')
    # the in-progress packet record: what is copied to self.packet
    outs = ir.drivers('self.packet')
    ctx.need(outs, 'drivers of the output packet')
    P = None
    for a in outs:
        l, r = a.lhs.canon(), q.rhs_canon(a)
        if l == 'self.packet' and isinstance(a.rhs, E) and a.rhs.op == 'sig':
            P = r
        elif l.startswith('self.packet.') and r.endswith(l[len('self.packet'):]):
            P = r[:-len(l[len('self.packet'):])]
    ctx.need(P is not None and (P + '.dw0') in ir.signals, 'the in-progress packet record copied to self.packet')
    # word chain: init -> w0 -> w1 -> w2 -> w3 -> decision state
    starts = {e.dst for e in fsm.out_edges(init)}
    ctx.need(len(starts) == 1, 'the single successor of the initial state')
    chain = [starts.pop()]
    while chain[-1] != cs and len(chain) < 8:
        nx = {e.dst for e in fsm.out_edges(chain[-1])}
        ctx.need(len(nx) == 1, 'linear word chain between HPSTART and the decision state')
        chain.append(nx.pop())
    ctx.need(chain[-1] == cs and len(chain) == 5, 'four word states before the decision state (found %s)' % chain)
    words = chain[:4]
    # framing
    want = {(V, True), ('%d == %s' % (HPSTART_WORD, PAY), True), ('15 == self.sink.ctrl', True)}
    for i, e in enumerate(fsm.out_edges(init)):
        ctx.ob('C37.raw-hpstart', '%s.hpstart-edge#%d' % (C, i), q.atoms(e) == want, e.loc,
               'a header starts with the valid word SHP SHP SHP EPF (0x%08X, ctrl 1111): %s' % (HPSTART_WORD, sorted(q.atoms(e))))
    # words
    for k, st in enumerate(words):
        lo = guarded(ctx, lambda: outcomes(ir, fsm, st, {V: [0]}), 'transitions of word state')
        hi = guarded(ctx, lambda: outcomes(ir, fsm, st, {V: [1]}), 'transitions of word state')
        ctx.ob('C37.raw-word-advance', '%s.word%d.advance' % (C, k), set(lo) == {None} and set(hi) == {chain[k + 1]},
               fsm.state_loc[st], 'word state %s must wait without sink.valid and move on with it: %s / %s' % (
                   st, sorted(map(str, lo)), sorted(map(str, hi))))
        here = [a for a in ir.assigns if q.state_of(a) == st]
        if k < 3:
            cap = [a for a in here if a.lhs.canon() == '%s.dw%d' % (P, k)]
            ok = len(cap) == 1 and q.rhs_canon(cap[0]) == PAY and q.atoms(cap[0]) == {(V, True)}
            ctx.ob('C37.raw-word-capture', '%s.word%d.capture' % (C, k), ok, cap[0].loc if cap else fsm.state_loc[st],
                   'word %d must be captured into dw%d from the sink under sink.valid: %s' % (k, k, [q.fmt(a) for a in cap]))
            adv = [a for a in q.raises(ir, crc + '.advance_crc') if q.state_of(a) == st]
            ok = len(adv) == 1 and q.atoms(adv[0]) == {(V, True)}
            ctx.ob('C37.raw-crc16-advance', '%s.word%d.crc16' % (C, k), ok, adv[0].loc if adv else fsm.state_loc[st],
                   'the CRC-16 must advance over word %d exactly when it is valid: %s' % (k, [q.fmt(a) for a in adv]))
        else:
            for f, (a0, a1) in sorted(DW3_FIELDS.items()):
                cap = [a for a in here if a.lhs.canon() == '%s.%s' % (P, f)]
                ok = len(cap) == 1 and q.rhs_canon(cap[0]) == '%s[%d:%d]' % (PAY, a0, a1) and q.atoms(cap[0]) == {(V, True)}
                ctx.ob('C37.raw-dw3-field', '%s.dw3.%s' % (C, f), ok, cap[0].loc if cap else fsm.state_loc[st],
                       'DW3 field %s is bits %d..%d of the valid word: %s' % (f, a0, a1 - 1, [q.fmt(a) for a in cap]))
    stray = [a for a in q.raises(ir, crc + '.advance_crc') if q.state_of(a) not in words[:3]]
    ctx.ob('C37.raw-crc16-advance', C + '.crc16.only-data-words', not stray, stray[0].loc if stray else None,
           'the CRC-16 covers DW0..DW2 only: %s' % [q.fmt(a) for a in stray])
    clr = q.raises(ir, crc + '.clear')
    ok = any(q.state_of(a) in (init, cs) and not a.guard for a in clr) and not any(q.state_of(a) in words or a.state is None
                                                                                 for a in clr)
    ctx.ob('C37.raw-crc16-clear', C + '.crc16.clear', ok, clr[0].loc if clr else None,
           'the CRC-16 must be cleared between packets and never while one is received: %s' % [q.fmt(a) for a in clr])
    di = ir.drivers(crc + '.data_input', exact=True)
    ctx.ob('C37.raw-crc16-input', C + '.crc16.data_input', len(di) == 1 and not di[0].guard and di[0].state is None and
           q.rhs_canon(di[0]) == PAY, di[0].loc if di else None, 'the CRC-16 consumes the sink word')
    # the pipelined CRC-5: the register loaded from a 5-bit XOR network in the last word state
    e5 = [a.lhs.canon() for a in ir.assigns if q.state_of(a) == words[3] and isinstance(a.rhs, E) and a.rhs.op == 'cat' and
          len(a.rhs.args) == 5 and a.lhs.op == 'sig']
    ctx.need(len(e5) == 1, 'the pipelined expected CRC-5 register')
    c5 = eq_key(e5[0], P + '.crc5')
    c16 = eq_key(crc + '.crc', P + '.crc16')
    sq = eq_key(P + '.sequence_number', 'self.expected_sequence')
    known = {c5: [False, True], c16: [False, True], sq: [False, True]}
    w = guarded(ctx, lambda: differs(ir, [acc], lambda v: v[c5] and v[c16] and v[sq], known), 'acceptance condition')
    ctx.ob('C37.raw-accept-iff', C + '.new_packet', w is None, acc.loc,
           'new_packet must be raised iff (%s) & (%s) & (%s); differs when %s -- guard: %s' % (c5, c16, sq, w, q.fmt(acc)))
    bad = q.raises(ir, 'self.bad_packet')
    ctx.need(bad, 'bad_packet raise site')
    in_cs = all(q.state_of(a) == cs for a in bad)
    w = guarded(ctx, lambda: differs(ir, bad, lambda v: not (v[c5] and v[c16]), known), 'bad packet condition')
    ctx.ob('C37.raw-bad-iff-crc', C + '.bad_packet', in_cs and w is None, bad[0].loc,
           'bad_packet must be raised in the decision state iff CRC-5 or CRC-16 mismatches (whatever the sequence number); '
           'differs when %s -- %s' % (w, [q.fmt(a) for a in bad]))
    # the validated packet is latched with the strobe
    cover = set()
    fields = [n[len('self.packet.'):] for n in ir.signals if n.startswith('self.packet.')]
    for a in outs:
        if a.state != acc.state or not (q.atoms(a) <= q.atoms(acc)):
            continue
        if a.lhs.canon() == 'self.packet' and q.rhs_canon(a) == P:
            cover |= set(fields)
        elif a.lhs.canon().startswith('self.packet.') and q.rhs_canon(a) == P + a.lhs.canon()[len('self.packet'):]:
            cover.add(a.lhs.canon()[len('self.packet.'):])
    missing = sorted(set(OFFERED_FIELDS) - cover)
    ctx.ob('C37.raw-packet-latch', C + '.packet', set(OFFERED_FIELDS) <= set(fields) and not missing, acc.loc,
           'the validated packet must be copied to the output together with new_packet; fields not copied: %s' % missing)
    outs_cs = guarded(ctx, lambda: outcomes(ir, fsm, cs, known), 'transitions of the decision state')
    ctx.ob('C37.raw-decision-leaves', C + '.decision.exit', None not in outs_cs and cs not in outs_cs, fsm.state_loc[cs],
           'the decision state must be left on every path (good, bad CRC, bad sequence); stays when %s' % (
               outs_cs.get(None, outs_cs.get(cs)),))
    nxt = {d for d in outs_cs if d is not None}
    clears = [a for a in q.clears(ir, 'self.new_packet') if not a.guard and
              ((a.state is None and a.order < acc.order) or (q.state_of(a) in nxt and len(nxt) == 1))]
    ctx.ob('C37.raw-strobe', C + '.new_packet.pulse', bool(clears) and q.state_of(acc) == cs, acc.loc,
           'new_packet must fall back to 0 in the cycle after the decision (a header is buffered once)')
    return ir


# ------------------------------------------------------------------------------------------------ (b), (c) receiver
def updown_counters(ir):
    inc, dec = {}, {}
    for a in ir.assigns:
        if a.state is not None or a.domain == 'comb' or a.lhs.op != 'sig' or not isinstance(a.rhs, E):
            continue
        n = a.lhs.canon()
        if a.rhs.canon() == '1 + ' + n:
            inc.setdefault(n, []).append(a)
        elif a.rhs.canon() == n + ' - 1':
            dec.setdefault(n, []).append(a)
    out = {}
    for n in inc:
        if n in dec:
            ups = {x for a in inc[n] for x, p in q.atoms(a) if p and one_bit(ir, x)}
            dns = {x for a in dec[n] for x, p in q.atoms(a) if p and one_bit(ir, x)}
            if len(ups) == 1 and len(dns) == 1:
                out[n] = (ups.pop(), dns.pop())
    return out


def check_receiver(ctx, N):
    C = 'HeaderPacketReceiver'
    T = '[n=%d]' % N
    ir = ctx.ir(C, MOD, buffer_count=N)
    fsm = ctx.the_fsm(ir)
    RX = sub_prefix(ctx, ir, 'RawHeaderPacketReceiver')
    LC = sub_prefix(ctx, ir, 'LinkCommandGenerator')
    NEW, BAD, BSEQ, DONE = RX + '.new_packet', RX + '.bad_packet', RX + '.bad_sequence', LC + '.done'
    QV, QR, RETRY = 'self.queue.valid', 'self.queue.ready', 'self.retry_received'

    def ob(rule, key, ok, loc, msg):
        return ctx.ob('C37.' + rule, '%s.%s%s' % (C, key, T), ok, loc, msg)

    def equiv(items, spec, known=None):
        return guarded(ctx, lambda: differs(ir, items, spec, known or {}), 'conditions of %s' % [q.fmt(i) for i in items][:2])

    def strobe(sig, spec, known):
        """First (environment, state) in which the combinational strobe `sig` (last applicable assignment wins, default 0)
        differs from spec(env, state); None if it equals the specification in every state."""
        ds = sorted(ir.drivers(sig, exact=True), key=lambda a: a.order)
        ds = [x for a in ds for x in q.flag_arms(ir, a)]       # `strobe.eq(cond)` as its two constant arms, in order

        def table():
            if not ds or any(a.domain != 'comb' or not isinstance(a.rhs, E) or a.rhs.op != 'const' for a in ds):
                raise NotUnderstood('%s is not a combinational strobe with constant values' % sig)
            for st in fsm.states:
                app = [a for a in ds if a.state is None or q.state_of(a) == st]
                for env in envs(ir, app, known):
                    val = 0
                    for a in app:
                        if gval(a, env):
                            val = a.rhs.val
                    if bool(val) != bool(spec(env, st)):
                        return _short(env), st
            return None
        return guarded(ctx, table, 'drivers of ' + sig), (ds[0].loc if ds else None)

    # ---- command states by the command they drive
    cmd_state = {}
    cmd_drv = {}
    for a in ir.drivers(LC + '.command', exact=True):
        ctx.need(a.state is not None and isinstance(a.rhs, E) and a.rhs.op == 'const', 'constant link command per state: ' + q.fmt(a))
        name = (a.rhs.label or '').split('.')[-1] or {v: k for k, v in SPEC_CMD.items()}.get(a.rhs.val, 'cmd%s' % a.rhs.val)
        cmd_state.setdefault(name, set()).add(q.state_of(a))
        cmd_drv.setdefault(q.state_of(a), []).append(a)
    gen = q.raises(ir, LC + '.generate')
    ctx.need(gen, 'generate raise sites')
    missing = [n for n in ('LGOOD', 'LCRD', 'LBAD') if not cmd_state.get(n)]
    bare = sorted({q.state_of(a) for a in gen if a.state is not None} - set(cmd_drv))
    if len(missing) == 1 and len(bare) == 1:
        # a sending state lost its command: keep its role (it is reported by generate-has-command below)
        cmd_state[missing[0]] = {bare[0]}
    for name in ('LGOOD', 'LCRD', 'LBAD'):
        ctx.need(len(cmd_state.get(name, ())) == 1, 'exactly one state sending %s' % name)
    SG, SC, SB = (next(iter(cmd_state[n])) for n in ('LGOOD', 'LCRD', 'LBAD'))
    srcs = {e.src for e in fsm.in_edges(SG) if e.src != SG}
    ctx.need(len(srcs) == 1, 'the dispatch state (single predecessor of the LGOOD state)')
    D = srcs.pop()
    for name, val in sorted(SPEC_CMD.items()):
        for st in sorted(cmd_state.get(name, ())):
            if st not in cmd_drv:
                continue
            a = cmd_drv[st][0]
            ob('command-code', 'command.' + name, a.rhs.val == val, a.loc, '%s is link command class/type %d (found %s)' % (name, val, a.rhs.val))
    for st in sorted({q.state_of(a) for a in gen}, key=str):
        names = [n for n, ss in cmd_state.items() if st in ss]
        ok = st is not None and len(cmd_drv.get(st, [])) == 1 and not cmd_drv[st][0].guard
        ob('generate-has-command', 'generate@%s' % (names[0] if names else 'state#%s' % (fsm.states.index(st) if st in fsm.states else '?')),
           ok, [a for a in gen if q.state_of(a) == st][0].loc,
           'a state that raises generate must drive the command unconditionally (the default command 0 is LGOOD): state %s' % st)

    # ---- counters by role
    ctr = updown_counters(ir)
    raised_in = lambda sig: {q.state_of(a) for a in q.raises(ir, sig)}
    KA = [n for n, (u, d) in ctr.items() if raised_in(d) == {SG}]
    KC = [n for n, (u, d) in ctr.items() if raised_in(d) == {SC}]
    qv = ir.drivers(QV, exact=True)
    ctx.need(len(qv) == 1 and isinstance(qv[0].rhs, E), 'the single driver of queue.valid')
    KF = [n for n in ctr if n in qv[0].rhs.sigs()]
    ctx.need(len(KA) == 1 and len(KC) == 1 and len(KF) == 1 and len({KA[0], KC[0], KF[0]}) == 3,
             'the three up/down task counters (acks: %s, credits: %s, filled: %s of %s)' % (KA, KC, KF, sorted(ctr)))
    KA, KC, KF = KA[0], KC[0], KF[0]
    ENQ_A, DEQ_A = ctr[KA]
    ENQ_C, DEQ_C = ctr[KC]
    RESERVE, RELEASE = ctr[KF]
    # the re-advertisement block (decided by C38): exempt from the "only writer" clauses
    blk = [a for a in ir.drivers(KA, exact=True) if isinstance(a.rhs, E) and a.rhs.op == 'const']
    blk = blk[0] if blk else None

    def in_block(a):
        return blk is not None and a.state == blk.state and q.atoms(blk) <= q.atoms(a)

    for role, K, up, dn in (('acks', KA, ENQ_A, DEQ_A), ('credits', KC, ENQ_C, DEQ_C), ('filled', KF, RESERVE, RELEASE)):
        ds = sorted([a for a in ir.drivers(K, exact=True) if not in_block(a)], key=lambda a: a.order)
        ctx.need(all(a.state is None for a in ds), 'writers of the %s counter outside the re-advertisement block are stateless' % role)

        def table():
            for env in envs(ir, ds, {up: [0, 1], dn: [0, 1]}):
                win = None
                for a in ds:
                    if gval(a, env):
                        win = a
                e2 = dict(env)
                e2[K] = 2
                delta = (ieval(win.rhs, e2) - 2) if win is not None else 0
                if delta != env[up] - env[dn]:
                    return _short(env), delta
            return None
        bad = guarded(ctx, table, 'update of the %s counter' % role)
        ob('counter-net-effect', 'counter.' + role, bad is None, ds[0].loc if ds else None,
           'the %s counter must change by (%s - %s) in every cycle, in particular stay when both occur: %s' % (role, up, dn, bad))
        si = ir.signals[K]
        ob('counter-range', 'counter.%s.range' % role, si.w is not None and (1 << si.w) > N, si.loc,
           'the %s counter must be able to hold the buffer count %d (width %s)' % (role, N, si.w))

    # ---- acceptance block
    store = [a for a in ir.assigns if a.lhs.op == 'arr']
    ctx.need(len(store) == 1 and store[0].state is None and store[0].domain != 'comb', 'the single buffer store')
    store = store[0]
    WP = store.lhs.args[0]
    ctx.need(WP.op == 'sig', 'write pointer register')
    WP = WP.canon()
    elems = [x.canon() for x in store.lhs.args[1:]]
    ob('store', 'buffers.store', len(elems) == N and len(set(elems)) == N and q.rhs_canon(store) == RX + '.packet', store.loc,
       'the accepted packet of the raw receiver is stored in one of %d distinct buffers selected by the write pointer: %s' % (N, q.fmt(store)))
    flags_bad = {a.lhs.canon() for a in ir.assigns if a.state is None and a.domain != 'comb' and q.is_one(a.rhs) and
                 a.lhs.op == 'sig' and BAD in {x for x, p in q.atoms(a)}}
    cleared_in_sb = {a.lhs.canon() for a in ir.assigns if q.state_of(a) == SB and q.is_zero(a.rhs) and a.lhs.op == 'sig'}
    cleared_by_retry = {a.lhs.canon() for a in ir.assigns if a.state is None and q.is_zero(a.rhs) and a.lhs.op == 'sig' and
                        RETRY in {x for x, p in q.atoms(a)}}
    rec = ir.drivers('self.recovery_required', exact=True)
    ctx.need(len(rec) >= 1, 'recovery_required driver')
    in_store = {x for x, p in q.atoms(store) if not p and one_bit(ir, x)}
    in_rec = {s for a in rec if isinstance(a.rhs, E) for s in a.rhs.sigs() if s != BSEQ and one_bit(ir, s)}
    IGN = vote(in_store, flags_bad - cleared_in_sb, cleared_by_retry, in_rec)
    ctx.need(IGN is not None, 'the ignore-until-retry flag (store guard: %s, set on bad packet: %s, cleared by retry: %s)' % (
        sorted(in_store), sorted(flags_bad), sorted(cleared_by_retry)))
    d_to_sb = {x for e in fsm.out_edges(D) if e.dst == SB for x, p in q.atoms(e) if p and one_bit(ir, x) and x != 'self.enable'}
    LBADP = vote(flags_bad - {IGN}, cleared_in_sb, d_to_sb)
    ctx.need(LBADP is not None and LBADP != IGN, 'the LBAD pending flag')
    accept = lambda v: v[NEW] and not v[IGN]
    kn = {NEW: [0, 1], IGN: [0, 1]}
    w = equiv([store], accept, kn)
    ob('accept-guard', 'accept.store', w is None, store.loc,
       'a header is buffered exactly under %s & ~%s; differs when %s' % (NEW, IGN, w))

    def only_inc(reg, role, spec, known, text, wrap=None):
        ds = [a for a in ir.drivers(reg, exact=True) if not in_block(a)]
        incs = [a for a in ds if q.rhs_canon(a) == '1 + ' + reg]
        ok = len(ds) == 1 and len(incs) == 1 and incs[0].state is None
        w = equiv(incs, spec, known) if incs else 'no increment'
        ob('advance', role, ok and w is None, ds[0].loc if ds else None,
           '%s must advance by one exactly %s and be written nowhere else (outside the re-advertisement block); differs when %s; '
           'writers: %s' % (reg, text, w, [q.fmt(a) for a in ds]))
        if wrap is not None:
            si = ir.signals[reg]
            ob('wrap', role + '.wrap', si.w is not None and (1 << si.w) == wrap, si.loc,
               '%s must wrap at %d (width %s wraps at %s)' % (reg, wrap, si.w, (1 << si.w) if si.w else '?'))

    only_inc(WP, 'accept.write_pointer', accept, kn, 'per accepted header', wrap=N)
    es = ir.drivers(RX + '.expected_sequence', exact=True)
    ctx.need(len(es) == 1, 'driver of the raw receiver expected_sequence')
    ob('rx-wiring', 'rx.expected_sequence', not es[0].guard and es[0].state is None and es[0].rhs.op == 'sig', es[0].loc,
       'the raw receiver must always see the live expected sequence register: %s' % q.fmt(es[0]))
    ctx.need(es[0].rhs.op == 'sig', 'expected sequence register')
    ES = es[0].rhs.canon()
    only_inc(ES, 'accept.expected_sequence', accept, kn, 'per accepted header', wrap=8)
    for port in ('valid', 'payload', 'ctrl'):
        ds = ir.drivers('%s.sink.%s' % (RX, port), exact=True)
        ob('rx-wiring', 'rx.sink.' + port, len(ds) == 1 and not ds[0].guard and ds[0].state is None and
           q.rhs_canon(ds[0]) == 'self.sink.' + port, ds[0].loc if ds else None, 'the raw receiver monitors the sink stream (%s)' % port)
    for role, sig in (('accept.reserve_buffer', RESERVE), ('accept.enqueue_ack', ENQ_A)):
        w, loc = strobe(sig, lambda v, st: accept(v), kn)
        ob('accept-guard', role, w is None, loc,
           '%s must be raised exactly under %s & ~%s, in every state of the command FSM; differs when %s' % (sig, NEW, IGN, w))

    # ---- bad packets, ignore until retry
    badspec = lambda v: v[BAD] and not v[IGN]
    kb = {BAD: [0, 1], IGN: [0, 1]}
    for role, reg in (('bad.lbad_pending', LBADP), ('bad.ignore', IGN)):
        sets = [a for a in q.raises(ir, reg) if not in_block(a)]
        w = equiv(sets, badspec, kb) if sets else 'never set'
        ob('bad-guard', role + '.set', w is None and all(a.state is None and q.is_one(a.rhs) for a in sets), sets[0].loc if sets else None,
           '%s must be set exactly under %s & ~%s (a bad header while ignoring is ignored too); differs when %s' % (reg, BAD, IGN, w))
    clr = [a for a in q.clears(ir, IGN) if not in_block(a)]
    by_retry = [a for a in clr if a.state is None]
    w = equiv(by_retry, lambda v: v[RETRY], {RETRY: [0, 1]}) if by_retry else 'never cleared'
    ob('ignore-until-retry', 'ignore.clear', w is None and len(by_retry) == len(clr), clr[0].loc if clr else None,
       'the ignore flag must be cleared exactly by %s (and the re-advertisement block); differs when %s; clear sites: %s' % (
           RETRY, w, [q.fmt(a) for a in clr]))

    def rec_table():
        exprs = [a.rhs for a in rec]
        for env in envs(ir, rec, {BSEQ: [0, 1], IGN: [0, 1]}, extra_exprs=exprs):
            val = 0
            for a in sorted(rec, key=lambda a: a.order):
                if gval(a, env):
                    val = ieval(a.rhs, env)
            if val and (env[IGN] or not env[BSEQ]):
                return _short(env)
        return None
    bad_rec = guarded(ctx, rec_table, 'recovery_required expression')
    ob('ignore-until-retry', 'ignore.masks-recovery', bad_rec is None, rec[0].loc,
       'while ignoring, a header with an unexpected sequence number must not request recovery; requested when %s' % (bad_rec,))
    for reg, nm in ((IGN, 'ignore'), (LBADP, 'lbad_pending')):
        si = ir.signals[reg]
        ob('init', nm + '.init', not si.init, si.loc, '%s must start at 0' % reg)

    # ---- delivery
    ok = not qv[0].guard and qv[0].state is None
    wv = guarded(ctx, lambda: [f for f in range(N + 1) if bool(ieval(qv[0].rhs, {KF: f})) != (f > 0)], 'queue.valid expression')
    ob('deliver', 'queue.valid', ok and not wv, qv[0].loc,
       'queue.valid must hold iff at least one buffer is filled; wrong for fill levels %s: %s' % (wv, q.fmt(qv[0])))
    qh = [a for a in ir.drivers('self.queue.header') if isinstance(a.rhs, E)]
    ctx.need(len(qh) == 1 and qh[0].rhs.op == 'arr' and qh[0].rhs.args[0].op == 'sig', 'queue.header <= buffers[read pointer]')
    RP = qh[0].rhs.args[0].canon()
    ob('deliver', 'queue.header', [x.canon() for x in qh[0].rhs.args[1:]] == elems and not qh[0].guard and qh[0].state is None and
       RP != WP and qh[0].lhs.canon() == 'self.queue.header', qh[0].loc,
       'the oldest header is offered: same buffers in the same order, indexed by the read pointer: %s' % q.fmt(qh[0]))
    taken = lambda v: v[QV] and v[QR]
    kq = {QV: [0, 1], QR: [0, 1]}
    only_inc(RP, 'deliver.read_pointer', taken, kq, 'per header taken (queue.valid & queue.ready)', wrap=N)
    for role, sig in (('deliver.release_buffer', RELEASE), ('deliver.enqueue_credit', ENQ_C)):
        w, loc = strobe(sig, lambda v, st: taken(v), kq)
        ob('release-guard', role, w is None, loc,
           '%s must be raised exactly when a valid header is taken (a credit only for a buffer that became free), in every state '
           'of the command FSM; differs when %s' % (sig, w))

    # ---- LGOOD / LCRD states
    def sender(st, name, K, deq, wrap):
        here = [a for a in ir.assigns if q.state_of(a) == st]
        g = [a for a in here if a.lhs.canon() == LC + '.generate' and q.is_one(a.rhs) and not a.guard]
        ob('send', name + '.generate', len(g) == 1, g[0].loc if g else fsm.state_loc[st], 'the %s state requests a link command' % name)
        sub = [a for a in ir.drivers(LC + '.subtype', exact=True) if q.state_of(a) == st]
        ok = len(sub) == 1 and not sub[0].guard and isinstance(sub[0].rhs, E) and sub[0].rhs.op == 'sig' and \
            any(a.domain != 'comb' for a in ir.drivers(sub[0].rhs.canon(), exact=True))
        ob('send', name + '.subtype', ok, sub[0].loc if sub else fsm.state_loc[st],
           'the %s subtype must be the running %s register: %s' % (name, 'sequence number' if name == 'LGOOD' else 'credit index',
                                                                    [q.fmt(a) for a in sub]))
        if ok:
            R = sub[0].rhs.canon()
            ds = [a for a in ir.drivers(R, exact=True) if not in_block(a)]
            incs = [a for a in ds if q.rhs_canon(a) == '1 + ' + R and q.state_of(a) == st]
            w = equiv(incs, lambda v: v[DONE], {DONE: [0, 1]}) if incs else 'no increment'
            ob('send', name + '.number-advance', len(ds) == 1 and len(incs) == 1 and w is None, ds[0].loc if ds else sub[0].loc,
               '%s must advance exactly once per completed %s and be written nowhere else; differs when %s; writers: %s' % (
                   R, name, w, [q.fmt(a) for a in ds]))
            si = ir.signals[R]
            ob('wrap', name + '.number-wrap', si.w is not None and (1 << si.w) == wrap, si.loc,
               '%s must wrap at %d (width %s)' % (R, wrap, si.w))
        w, loc = strobe(deq, lambda v, s_: s_ == st and v[DONE], {DONE: [0, 1]})
        ob('send', name + '.dequeue', w is None, loc,
           '%s must be raised exactly per completed %s (done in the %s state); differs when %s' % (deq, name, name, w))

        def exits():
            for env in envs(ir, fsm.out_edges(st), {DONE: [0, 1], K: list(range(1, N + 1))}):
                dst = step(fsm, st, env)
                want = D if (env[DONE] and env[K] == 1) else None
                if dst != want:
                    return _short(env), dst
            return None
        bad = guarded(ctx, exits, 'exit condition of the %s state' % name)
        ob('send', name + '.exit', bad is None, fsm.state_loc[st],
           'the %s state must return to dispatch exactly when the last queued one completes (done & %s == 1): %s' % (name, K, bad))
        return sub[0].rhs.canon() if ok else None

    NHA = sender(SG, 'LGOOD', KA, DEQ_A, 8)
    sender(SC, 'LCRD', KC, DEQ_C, N)

    # ---- LBAD state
    here = [a for a in ir.assigns if q.state_of(a) == SB]
    g = [a for a in here if a.lhs.canon() == LC + '.generate' and q.is_one(a.rhs) and not a.guard]
    ob('send', 'LBAD.generate', len(g) == 1, g[0].loc if g else fsm.state_loc[SB], 'the LBAD state requests a link command')
    clr = [a for a in q.clears(ir, LBADP) if not in_block(a)]
    w = equiv(clr, lambda v: v[DONE], {DONE: [0, 1]}) if clr else 'never cleared'
    ob('send', 'LBAD.clear-pending', w is None and all(q.state_of(a) == SB for a in clr), clr[0].loc if clr else fsm.state_loc[SB],
       'the pending LBAD must be cleared exactly when the LBAD completes (one LBAD per bad header); differs when %s: %s' % (
           w, [q.fmt(a) for a in clr]))

    def lbad_exit():
        for env in envs(ir, fsm.out_edges(SB), {DONE: [0, 1]}):
            dst = step(fsm, SB, env)
            if dst != (D if env[DONE] else None):
                return _short(env), dst
        return None
    bad = guarded(ctx, lbad_exit, 'exit of the LBAD state')
    ob('send', 'LBAD.exit', bad is None, fsm.state_loc[SB], 'the LBAD state returns to dispatch exactly on done: %s' % (bad,))

    # ---- dispatch needs something to send
    def dispatch():
        small = [0, 1, 2]
        for env in envs(ir, fsm.out_edges(D), {KA: small, KC: small, LBADP: [0, 1]}):
            dst = step(fsm, D, env)
            if (dst == SG and not env[KA]) or (dst == SC and not env[KC]) or (dst == SB and not env[LBADP]):
                return _short(env), dst
        return None
    bad = guarded(ctx, dispatch, 'dispatch conditions')
    ob('dispatch-needs-work', 'dispatch', bad is None, fsm.state_loc[D],
       'LGOOD / LCRD / LBAD may only be dispatched with a queued ack / a queued credit / a pending LBAD: %s' % (bad,))

    # ---- initial values and widths
    iv = lambda n: (ir.signals[n].init or 0)
    if NHA is not None:
        ok = (iv(NHA) + iv(KA)) % 8 == iv(ES) % 8
        ob('init', 'sequence.init', ok, ir.signals[NHA].loc,
           'after the initial %d LGOOD(s) the ack number (%d) must equal the expected sequence number (%d) mod 8' % (iv(KA), iv(NHA), iv(ES)))
    ob('init', 'credits.init', 0 < iv(KC) + iv(KF) <= N and iv(KF) == 0, ir.signals[KC].loc,
       'initially advertised credits (%d) plus filled buffers (%d) must not exceed %d' % (iv(KC), iv(KF), N))
    st = ir.signals.get(LC + '.subtype')
    ob('width', 'subtype.width', st is not None and st.w is not None and st.w >= 3 and (1 << st.w) >= N, st.loc if st else None,
       'the link command subtype must hold a 3-bit sequence number and the credit index')


# ------------------------------------------------------------------------------------------------ (d) surroundings
def check_generator(ctx):
    C = 'LinkCommandGenerator'
    ir = ctx.ir(C, 'usb3.link.command')
    fsm = ctx.the_fsm(ir)
    # what drives bits 0..15 of the output word, and bits 0..3 of that -- whether written slice by slice or through Cat()
    lob = [(a, ex) for a, ex in q.bits_drivers(ir, 'self.source.payload', 0, 16) if ex is not None and ex.op != 'const']
    ctx.need(len(lob) == 1 and lob[0][0].state is not None, 'the link command word driver')
    lo = [lob[0][0]]
    st = q.state_of(lo[0])
    if lob[0][1].op == 'sig':
        W = lob[0][1].canon()                      # a named command word, assembled separately
        subb = [(a, ex) for a, ex in q.bits_drivers(ir, W, 0, 4) if ex is not None]
    else:                                          # the word is assembled in place
        subb = [(a, ex) for a, ex in q.bits_drivers(ir, 'self.source.payload', 0, 4) if ex is not None and a is lo[0]]
    sub = [a for a, _ in subb]
    ok = len(subb) == 1 and not sub[0].guard and subb[0][1].op == 'sig'
    src = subb[0][1].canon() if ok else None
    if ok and src != 'self.subtype':
        ds = ir.drivers(src, exact=True)
        ok = bool(ds) and all(q.rhs_canon(a) == 'self.subtype' and q.has(a, 'self.generate') for a in ds)
    ctx.ob('C37.generator', C + '.subtype-path', ok, sub[0].loc if sub else lo[0].loc,
           'bits 0..3 of the link command word carry the requested subtype (latched under generate): %s' % [q.fmt(a) for a in sub])
    done = q.raises(ir, 'self.done')
    ctx.need(done, 'done raise site')
    val = [a for a in q.raises(ir, 'self.source.valid') if q.state_of(a) == st and not a.guard]
    ok = all(q.state_of(a) == st and q.atoms(a) == {('self.source.ready', True)} for a in done) and len(val) == 1
    ctx.ob('C37.generator', C + '.done', ok, done[0].loc,
           'done only in the cycle in which the command word is taken by the link (valid & ready): %s' % [q.fmt(a) for a in done])
    hi = guarded(ctx, lambda: outcomes(ir, fsm, st, {'self.source.ready': [1]}), 'transitions of the command word state')
    lo_ = guarded(ctx, lambda: outcomes(ir, fsm, st, {'self.source.ready': [0]}), 'transitions of the command word state')
    ctx.ob('C37.generator', C + '.done-leaves', set(hi) == {fsm.init} and set(lo_) == {None}, fsm.state_loc[st],
           'the command word state returns to idle exactly with done: %s / %s' % (sorted(map(str, hi)), sorted(map(str, lo_))))


def check_surroundings(ctx):
    tx = ctx.ir('PacketTransmitter', 'usb3.link.transmitter')
    det = sub_prefix(ctx, tx, 'LinkCommandDetector')
    rr = q.raises(tx, 'self.retry_received')
    ctx.need(rr, 'retry_received raise site')
    ok = all(q.has(a, det + '.new_command') and q.guard_consts(a, det + '.command').get(SPEC_CMD['LRTY']) is True for a in rr) and \
        (all(a.domain == 'comb' for a in rr) or any(not a.guard and a.state is None for a in q.clears(tx, 'self.retry_received')))
    ctx.ob('C37.retry-source', 'PacketTransmitter.retry_received', ok, rr[0].loc,
           'retry_received is the strobe for a newly received LRTY link command: %s' % [q.fmt(a) for a in rr])
    ll = ctx.ir('USB3LinkLayer', 'usb3.link.layer', allow_opaque=True)
    hrx = sub_prefix(ctx, ll, 'HeaderPacketReceiver')
    ptx = sub_prefix(ctx, ll, 'PacketTransmitter')
    for lhs, rhs in ((hrx + '.retry_received', ptx + '.retry_received'), ('self.header_source.valid', hrx + '.queue.valid'),
                     ('self.header_source.header', hrx + '.queue.header'), (hrx + '.queue.ready', 'self.header_source.ready')):
        ds = [a for a in ll.drivers(lhs) if a.lhs.canon() == lhs]
        ok = len(ds) == 1 and not ds[0].guard and ds[0].state is None and q.rhs_canon(ds[0]) == rhs
        ctx.ob('C37.wiring', 'USB3LinkLayer.' + lhs, ok, ds[0].loc if ds else None, '%s <= %s: %s' % (lhs, rhs, [q.fmt(a) for a in ds]))


def run(ctx):
    check_raw(ctx)
    check_receiver(ctx, 4)
    check_generator(ctx)
    check_surroundings(ctx)
    if ctx.tier == 'thorough':
        for n in (2, 8):
            check_receiver(ctx, n)
