"""C13 -- bulk OUT endpoints ACK exactly the data they deliver."""
from ..ir import E
from .. import q

TITLE = 'bulk OUT acknowledgement'
FLOOR = 14
DECIDES = ('On USBStreamOutEndpoint, by exhaustive evaluation of the extracted boolean expressions over their leaf conditions '
           '(formulation independent): (a) ack is raised exactly for (data response & new toggle & nothing lost & no overflow), '
           '(data response & repeated toggle), or (PING response & space for a whole packet); nak exactly for the remaining '
           'data/PING responses; never both; neither without a response request for this endpoint; (b) the expected toggle '
           'flips exactly under the first ack term and is cleared by CLEAR_FEATURE(HALT) for this OUT endpoint; (c) bytes are '
           'written only for this endpoint/OUT/expected toggle and never into a full FIFO; the packet is committed only on the '
           'delayed complete strobe without overflow, discarded on invalid or complete-with-overflow; a lost byte sets overflow, '
           'commit/discard clears it; (d) last = boundary last & ~full-packet, first = boundary first & ~transfer_active, the '
           'transfer-active flag is updated on the last byte of each packet; output stream is read from the FIFO. ')
NOT_DECIDED = ('delivery histories -- in particular the relative timing of the overflow flag being cleared (at commit/discard) and '
               'the response strobe (after the inter-packet delay).')
I = 'self.interface.'
EPM = 'self._endpoint_number == self.interface.tokenizer.endpoint'
OUT, PING = I + 'tokenizer.is_out', I + 'tokenizer.is_ping'
RFR, TRFR = I + 'rx_ready_for_response', I + 'tokenizer.ready_for_response'
MATCH = 'expected_data_toggle == self.interface.rx_pid_toggle'
NEXT, VALID = 'boundary_detector.processed_stream.next', 'boundary_detector.processed_stream.valid'
FULL, OVF = 'fifo.full', 'overflow'
SPACE = 'fifo.space_available >= self._max_packet_size'


def one(ctx, ir, sig):
    ds = ir.drivers(sig, exact=True)
    ctx.need(len(ds) == 1 and not ds[0].guard, 'single unconditional driver of ' + sig)
    return ds[0]


def run(ctx):
    ir = ctx.ir('USBStreamOutEndpoint', 'endpoints.stream')
    ack, nak = one(ctx, ir, I + 'handshakes_out.ack'), one(ctx, ir, I + 'handshakes_out.nak')
    tg = [a for a in ir.drivers('expected_data_toggle', exact=True)]
    flip = [a for a in tg if a.rhs.canon() == '~expected_data_toggle']
    clr = [a for a in tg if q.is_zero(a.rhs)]
    ctx.need(len(flip) == 1 and len(clr) == 1 and len(tg) == 2, 'expected_data_toggle has exactly a flip and a clear writer')
    leaves = q.bool_leaves(ack.rhs, nak.rhs, *[l.e for l in flip[0].guard])
    # the toggle guard may name the handshake outputs themselves: they are combinational, their value is the value of
    # their defining expression (computed per valuation below), not a free condition
    ACKN, NAKN = I + 'handshakes_out.ack', I + 'handshakes_out.nak'
    leaves = [l for l in leaves if l not in (ACKN, NAKN)]
    known = {EPM, OUT, PING, RFR, TRFR, MATCH, NEXT, VALID, FULL, OVF, SPACE}
    # the flip may be written as the Elif arm of the CLEAR_FEATURE clear (then its guard excludes the clear condition):
    # those three conditions are held at "no clear pending" for the toggle table and judged by C13.toggle-clear below
    HALTA = (I + 'clear_endpoint_halt_in.enable', I + 'clear_endpoint_halt_in.direction', 'self._endpoint_number == ' + I + 'clear_endpoint_halt_in.number')
    flip_only = set(q.bool_leaves(*[l.e for l in flip[0].guard])) - set(q.bool_leaves(ack.rhs, nak.rhs))
    leaves = [l for l in leaves if not (l in HALTA and l in flip_only)]
    ctx.need(set(leaves) <= known, 'conditions of the ack/nak expressions are the known ones (unexpected: %s)' % sorted(set(leaves) - known))
    leaves = sorted(known)          # enumerate every condition of the specification, present in the code or not
    bad_ack = bad_nak = both = bad_flip = None
    n = 0
    for asg in q.all_assignments(leaves):
        if asg.get(OUT) and asg.get(PING):
            continue          # a token is either OUT or PING
        n += 1
        g = lambda k: asg.get(k, False)
        data_resp = g(EPM) and g(OUT) and g(RFR)
        ping_resp = g(EPM) and g(PING) and g(TRFR)
        lost = g(EPM) and g(OUT) and g(MATCH) and g(NEXT) and g(VALID) and g(FULL)
        accepted = g(EPM) and g(OUT) and g(MATCH) and not lost and not g(OVF)
        skip = g(EPM) and g(OUT) and not g(MATCH)
        want_ack = (data_resp and accepted) or (data_resp and skip) or (ping_resp and g(SPACE))
        want_nak = (data_resp and not accepted and not skip) or (ping_resp and not g(SPACE))
        a, k = q.eval_expr(ack.rhs, asg), q.eval_expr(nak.rhs, asg)
        f = q.eval_guard(flip[0], dict(asg, **{ACKN: bool(a), NAKN: bool(k), HALTA[0]: False, HALTA[1]: False, HALTA[2]: False}))
        if a != want_ack and bad_ack is None:
            bad_ack = (asg, a, want_ack)
        if k != want_nak and bad_nak is None:
            bad_nak = (asg, k, want_nak)
        if a and k and both is None:
            both = asg
        if f != bool(data_resp and accepted) and bad_flip is None:
            bad_flip = (asg, f)
    ctx.need(n > 100, 'enumerated assignments')
    tr = lambda x: {k.replace('self.interface.', '').replace('boundary_detector.processed_stream.', 'rx.'): v for k, v in x.items() if v} if x else None
    ctx.ob('C13.ack-exact', 'USBStreamOutEndpoint.handshakes_out.ack', bad_ack is None, ack.loc,
           'ack must be raised exactly for delivered data, a repeated toggle, or a PING with room for a packet; differs when %s' % (tr(bad_ack[0]) if bad_ack else None,))
    ctx.ob('C13.nak-exact', 'USBStreamOutEndpoint.handshakes_out.nak', bad_nak is None, nak.loc,
           'nak must be raised exactly for data that was not taken and a PING without room; differs when %s' % (tr(bad_nak[0]) if bad_nak else None,))
    ctx.ob('C13.ack-nak-exclusive', 'USBStreamOutEndpoint.ack-vs-nak', both is None, ack.loc, 'ack and nak both raised when %s' % (tr(both),))
    ctx.ob('C13.toggle-on-accept', 'USBStreamOutEndpoint.expected_data_toggle.flip', bad_flip is None, flip[0].loc,
           'the expected toggle must advance exactly when a new packet is ACKed; differs when %s' % (tr(bad_flip[0]) if bad_flip else None,))
    HALT = {(I + 'clear_endpoint_halt_in.enable', True), (I + 'clear_endpoint_halt_in.direction', False),
            ('self._endpoint_number == ' + I + 'clear_endpoint_halt_in.number', True)}
    from ..fsm import lit_atoms, assignments, holds
    wins = True
    for asg_ in assignments(sorted({x for a_ in (flip[0], clr[0]) for l in a_.guard for x in lit_atoms(l)})):
        if holds(clr[0].guard, asg_) and holds(flip[0].guard, asg_) and not clr[0].order > flip[0].order:
            wins = False
    ctx.ob('C13.toggle-clear', 'USBStreamOutEndpoint.expected_data_toggle.clear', q.atoms(clr[0]) == HALT and wins, clr[0].loc,
           'CLEAR_FEATURE(HALT) for this OUT endpoint resets the toggle to DATA0 (and wins): %s' % sorted(q.atoms(clr[0])))
    # (c) FIFO control, again by truth table
    we, wc, wd = one(ctx, ir, 'fifo.write_en'), one(ctx, ir, 'fifo.write_commit'), one(ctx, ir, 'fifo.write_discard')
    C, INV = 'boundary_detector.complete_out', 'boundary_detector.invalid_out'
    lv = q.bool_leaves(we.rhs, wc.rhs, wd.rhs)
    ctx.need(set(lv) <= known | {C, INV}, 'FIFO control conditions are the known ones: %s' % sorted(set(lv) - known - {C, INV}))
    lv = sorted(known | {C, INV})
    bad = {}
    for asg in q.all_assignments(lv):
        g = lambda k: asg.get(k, False)
        tgt = g(EPM) and g(OUT)
        exp = {'write_en': tgt and g(MATCH) and g(NEXT) and g(VALID) and not g(FULL),
               'write_commit': tgt and g(C) and not g(OVF),
               'write_discard': tgt and (g(INV) or (g(C) and g(OVF)))}
        for nm, a_ in (('write_en', we), ('write_commit', wc), ('write_discard', wd)):
            if q.eval_expr(a_.rhs, asg) != exp[nm] and nm not in bad:
                bad[nm] = tr(asg)
    for nm, a_ in (('write_en', we), ('write_commit', wc), ('write_discard', wd)):
        ctx.ob('C13.fifo-control', 'USBStreamOutEndpoint.fifo.' + nm, nm not in bad, a_.loc,
               'fifo.%s differs from its specification when %s' % (nm, bad.get(nm)))
    ov = ir.drivers('overflow', exact=True)
    sets = [a for a in ov if q.is_one(a.rhs)]
    clrs = [a for a in ov if q.is_zero(a.rhs)]
    ok = len(sets) == 1 and len(clrs) == 1 and {(EPM, True), (OUT, True), (MATCH, True), (NEXT, True), (VALID, True), (FULL, True)} == q.atoms(sets[0]) and \
        ('fifo.write_commit | fifo.write_discard', True) in q.atoms(clrs[0])
    ctx.ob('C13.overflow-flag', 'USBStreamOutEndpoint.overflow', ok, ov[0].loc if ov else None,
           'a byte refused by a full FIFO sets overflow; commit/discard clears it: %s' % [q.fmt(a) for a in ov])
    # (d) framing bits
    wdat = {}
    for key, (lo, hi) in (('fifo.write_data[0:8]', (0, 8)), ('fifo.write_data[8:9]', (8, 9)), ('fifo.write_data[9:10]', (9, 10))):
        bd = q.bits_drivers(ir, 'fifo.write_data', lo, hi)
        if len(bd) == 1 and bd[0][1] is not None and not bd[0][0].guard:
            wdat[key] = bd[0][1]
    FULLPKT = '(self._max_packet_size - 1) == rx_cnt'
    want = {'fifo.write_data[0:8]': {('boundary_detector.processed_stream.payload', True)},
            'fifo.write_data[8:9]': {('boundary_detector.last', True), (FULLPKT, False)},
            'fifo.write_data[9:10]': {('boundary_detector.first', True), ('transfer_active', False)}}
    for k_, v_ in want.items():
        got = q.conj(wdat[k_]) if k_ in wdat else None
        ctx.ob('C13.framing', 'USBStreamOutEndpoint.' + k_, got == v_, None, '%s <= AND of %s (found %s)' % (k_, sorted(v_), got and sorted(got)))
    ta = ir.drivers('transfer_active', exact=True)
    ok = len(ta) == 1 and ta[0].rhs.canon() == '(self._max_packet_size - 1) == rx_cnt' and q.atoms(ta[0]) == {('fifo.write_en', True), ('boundary_detector.last', True)}
    ctx.ob('C13.framing', 'USBStreamOutEndpoint.transfer_active', ok, ta[0].loc if ta else None, 'a transfer stays active exactly after a full-size packet: %s' % [q.fmt(a) for a in ta])
    rc = ir.drivers('rx_cnt', exact=True)
    ok = len(rc) == 2 and any(a.rhs.canon() == '1 + rx_cnt' and q.atoms(a) == {('fifo.write_en', True)} for a in rc) and \
        any(q.is_zero(a.rhs) and ('fifo.write_commit | fifo.write_discard', True) in q.atoms(a) for a in rc)
    ctx.ob('C13.framing', 'USBStreamOutEndpoint.rx_cnt', ok, None, 'rx_cnt counts stored bytes per packet')
    outs = {'self.stream.valid': '~fifo.empty', 'self.stream.payload': 'fifo.read_data[0:8]', 'self.stream.last': 'fifo.read_data[8:9]',
            'self.stream.first': 'fifo.read_data[9:10]', 'fifo.read_en': 'self.stream.ready', 'fifo.read_commit': '1'}
    for lhs, rhs in outs.items():
        a = one(ctx, ir, lhs)
        ctx.ob('C13.output', 'USBStreamOutEndpoint.' + lhs, a.rhs.canon() == rhs, a.loc, '%s <= %s (found %s)' % (lhs, rhs, a.rhs.canon()))
    for lhs, rhs in (('boundary_detector.complete_in', I + 'rx_complete'), ('boundary_detector.invalid_in', I + 'rx_invalid'),
                     ('boundary_detector.unprocessed_stream.payload', I + 'rx.payload'), ('boundary_detector.unprocessed_stream.next', I + 'rx.next'),
                     ('boundary_detector.unprocessed_stream.valid', I + 'rx.valid')):
        a = one(ctx, ir, lhs)
        ctx.ob('C13.input', 'USBStreamOutEndpoint.' + lhs, a.rhs.canon() == rhs, a.loc, '%s <= %s' % (lhs, rhs))
