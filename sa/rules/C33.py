"""C33 -- transmit CTC inserts SKPs only in place of idle and often enough."""
from ..ir import E, AnalysisError
from .. import q

TITLE = 'transmit CTC SKP insertion'
FLOOR = 28
DECIDES = ('(a) CTCSkipInserter, by concrete evaluation of the extracted guarded assignments (last assignment wins) over '
           'the whole control state -- pending-SKP counter 0..4 x byte counter x {sink.valid, sink.ready, source.ready, '
           'can_send_skip} (boundary byte counts in the quick tier, all 354 in the thorough tier) against the one-step '
           'specification: a SKP word (K28.1 in every lane, all ctrl bits, valid) is registered exactly when '
           'can_send_skip & pending >= words-worth (2 ordered sets per 32-bit word), otherwise source <- sink unchanged; '
           'sending_skip is raised combinationally in exactly those cycles; pending\' = pending + scheduled - 2*sending; '
           'bytes\' = (bytes + bytes_per_word) mod 354 on every accepted word with a SKP scheduled exactly on the wrap '
           '(remainder kept); sink.ready follows source.ready in the pass-through arm and is left alone while a SKP is '
           'inserted; counter widths hold 4 resp. 353; (b) Scrambler: the LFSR never advances while hold is set, and '
           'hold/advance are combinational; (c) USB3PhysicalLayer: tx_ctc is a CTCSkipInserter fed from the scrambler '
           'output, can_send_skip <- can_send_skp, scrambler.hold <- tx_ctc.sending_skip (same cycle), PHY tx_data/tx_datak '
           '<- tx_ctc.source data/ctrl under one guard and tx_ctc.source.ready is 1 whenever they are forwarded; '
           '(d) USB3LinkLayer, by truth table over the leaf conditions of the transmit mux guards: can_send_skp is raised '
           '(combinationally) only while the stream arbiter\'s idle flag is set; in every such cycle the word that wins on the '
           'physical layer sink is the logical idle word (data 0, ctrl 0, valid 1) and not the arbiter stream; whenever the '
           'arbiter is not idle its stream is forwarded. ')
NOT_DECIDED = ('the rate guarantee over histories (whether idle time is actually available, maximum backlog), the behaviour '
               'under back-pressure (source.ready low while transmitting), the definition of the arbiter idle flag itself.')

SKP_SYMBOL = 0x3C          # K28.1
SKP_SYMBOLS_PER_SET = 2    # a SKP ordered set is two SKP symbols
SKIP_BYTE_LIMIT = 354      # [USB3.0r1: 6.4.3] one SKP ordered set per 354 symbols
MAX_PENDING = 4            # largest backlog: DPH + DPP + SKPs = 1062 = 3 * 354 bytes, plus one left over from pair-wise sending
CMP = {'==': lambda a, b: a == b, '!=': lambda a, b: a != b, '<': lambda a, b: a < b, '<=': lambda a, b: a <= b,
       '>': lambda a, b: a > b, '>=': lambda a, b: a >= b}


# ------------------------------------------------------------------------------------------ concrete evaluation
def num(e, env):
    """Integer value of an extracted expression under env (signal name -> int).  Unknown construct -> AnalysisError."""
    if not isinstance(e, E):
        if isinstance(e, (int, bool)):
            return int(e)
        raise AnalysisError('C33: cannot evaluate %r' % (e,))
    op = e.op
    if op == 'const':
        return int(e.val)
    if op == 'sig':
        n = e.args[0].name
        if n not in env:
            raise AnalysisError('C33: signal %s read by CTCSkipInserter is not part of the modelled state' % n)
        return env[n]
    if op in CMP:
        return int(CMP[op](num(e.args[0], env), num(e.args[1], env)))
    if op == '+':
        return sum(num(a, env) for a in e.args)
    if op == '-':
        return num(e.args[0], env) - num(e.args[1], env)
    if op == '*':
        r = 1
        for a in e.args:
            r *= num(a, env)
        return r
    if op in ('&', '|', '^'):
        vals = [num(a, env) for a in e.args]
        r = vals[0]
        for v in vals[1:]:
            r = (r & v) if op == '&' else (r | v) if op == '|' else (r ^ v)
        return r
    if op == '~':
        v = num(e.args[0], env)
        w = e.w if e.w is not None else (e.args[0].w if isinstance(e.args[0], E) else None)
        if w is None:
            if v not in (0, 1):
                raise AnalysisError('C33: width of %s unknown' % e.canon())
            w = 1
        return (~v) & ((1 << w) - 1)
    if op == 'neg':
        return -num(e.args[0], env)
    if op == 'slice':
        x, lo, hi = e.args
        return (num(x, env) >> lo) & ((1 << (hi - lo)) - 1)
    if op == 'mux':
        return num(e.args[1], env) if num(e.args[0], env) else num(e.args[2], env)
    if op == 'cat':
        r, off = 0, 0
        for a in e.args:
            if not isinstance(a, E) or a.w is None:
                raise AnalysisError('C33: width of Cat operand unknown in %s' % e.canon())
            r |= (num(a, env) & ((1 << a.w) - 1)) << off
            off += a.w
        return r
    raise AnalysisError('C33: expression form not evaluated: %s' % e.canon())


def guard_true(a, env):
    for l in a.guard:
        if l.kind == 'cfg':
            raise AnalysisError('C33: configuration-dependent guard %s' % l.canon())
        if bool(num(l.e, env)) != l.pos:
            return False
    return True


class Model:
    """One-cycle interpreter of a flat (FSM-less) module IR: comb fixpoint, then the registered next values."""

    def __init__(self, ctx, ir):
        self.ir = ir
        self.comb, self.sync = {}, {}
        doms = set()
        for a in sorted(ir.assigns, key=lambda x: x.order):
            tgt = a.lhs.args[0] if isinstance(a.lhs, E) and a.lhs.op == 'slice' else a.lhs
            ctx.need(isinstance(tgt, E) and tgt.op == 'sig' and isinstance(a.rhs, E) and a.state is None,
                     'CTCSkipInserter assignment to a signal (or a slice of one) outside any FSM: %s' % q.fmt(a))
            n = tgt.args[0].name
            if a.domain == 'comb':
                self.comb.setdefault(n, []).append(a)
            else:
                doms.add(a.domain)
                self.sync.setdefault(n, []).append(a)
        ctx.need(len(doms) == 1, 'CTCSkipInserter registers live in one clock domain (found %s)' % sorted(doms))
        ctx.need(not (set(self.comb) & set(self.sync)), 'no signal of CTCSkipInserter is driven from two domains')
        self.domain = doms.pop()

    def width(self, n):
        si = self.ir.signals.get(n)
        if si is None or si.w is None:
            raise AnalysisError('C33: width of %s unknown' % n)
        return si.w

    def store(self, n, old, a, env):
        """Value of signal n after assignment a (whole signal or a slice of it) fires."""
        val = num(a.rhs, env)
        if a.lhs.op == 'slice':
            lo, hi = a.lhs.args[1], a.lhs.args[2]
            mask = ((1 << (hi - lo)) - 1) << lo
            return (old & ~mask) | ((val << lo) & mask)
        return val & ((1 << self.width(n)) - 1)

    def step(self, state):
        """state: all inputs and registers.  Returns (env with comb values, next-register dict, winners dict)."""
        env = dict(state)
        for n in self.comb:
            env[n] = (self.ir.signals[n].init or 0) if n in self.ir.signals else 0
        win = {}
        for _ in range(len(self.comb) + 2):
            changed = False
            for n, ds in self.comb.items():
                v, w_ = (self.ir.signals[n].init or 0) if n in self.ir.signals else 0, None
                for a in ds:
                    if guard_true(a, env):
                        v, w_ = self.store(n, v, a, env), a
                win[n] = w_
                if env[n] != v:
                    env[n] = v
                    changed = True
            if not changed:
                break
        else:
            raise AnalysisError('C33: combinational signals of CTCSkipInserter do not settle')
        nxt = {}
        for n, ds in self.sync.items():
            v, w_ = env[n], None
            for a in ds:
                if guard_true(a, env):
                    v, w_ = self.store(n, v, a, env), a
            nxt[n] = v
            win[n] = w_
        return env, nxt, win


# ------------------------------------------------------------------------------------------ helpers
def find_sub(ctx, ir, clsnames, what):
    subs = [s for s in ir.submodules if s.obj.clsname in clsnames]
    ctx.need(len(subs) == 1, '%s submodule of %s (found %d)' % (what, ir.clsname, len(subs)))
    return subs[0]


def wire(ctx, rule, ir, lhs, rhs, key, why):
    """lhs has exactly one driver: unconditional, combinational, rhs as given."""
    d = ir.drivers(lhs, exact=True)
    ok = len(d) == 1 and not d[0].guard and d[0].state is None and d[0].domain == 'comb' and \
        isinstance(d[0].rhs, E) and d[0].rhs.canon() == rhs
    ctx.ob(rule, '%s.%s' % (ir.clsname, key), ok, d[0].loc if d else None,
           '%s must be driven combinationally and unconditionally by %s (%s): %s' % (lhs, rhs, why, [q.fmt(x) for x in d]))


def table_winner(drivers, asg):
    w = None
    for a in sorted(drivers, key=lambda x: x.order):
        if q.eval_guard(a, asg):
            w = a
    return w


# ------------------------------------------------------------------------------------------ (a) the inserter
def check_inserter(ctx):
    ir = ctx.ir('CTCSkipInserter', 'usb3.physical.ctc')
    ctx.need(not ir.fsms, 'CTCSkipInserter has no FSM')
    m = Model(ctx, ir)
    SR, SV, SRC_R, CAN, SEND = ('self.sink.ready', 'self.sink.valid', 'self.source.ready', 'self.can_send_skip',
                                'self.sending_skip')
    for n in ('self.sink.valid', 'self.sink.ready', 'self.sink.payload', 'self.sink.ctrl', 'self.source.valid',
              'self.source.payload', 'self.source.ctrl', 'self.source.ready', CAN, SEND):
        ctx.need(n in ir.signals, 'signal %s of CTCSkipInserter' % n)
    B = ir.signals['self.sink.ctrl'].w
    ctx.need(B and B % SKP_SYMBOLS_PER_SET == 0 and ir.signals['self.sink.payload'].w == 8 * B and
             ir.signals['self.source.ctrl'].w == B and ir.signals['self.source.payload'].w == 8 * B,
             'CTCSkipInserter streams carry a whole number of SKP ordered sets per word (ctrl width %s)' % B)
    SETS = B // SKP_SYMBOLS_PER_SET
    skp_word = sum(SKP_SYMBOL << (8 * i) for i in range(B))
    all_k = (1 << B) - 1

    # roles of the two local registers: the pending-SKP counter is the register read by the sending_skip decision,
    # the byte counter is the other one
    raise_send = q.raises(ir, SEND)
    ctx.need(raise_send, 'sending_skip is raised somewhere')
    local_regs = sorted(n for n in m.sync if not n.startswith('self.'))
    ctx.need(len(local_regs) == 2, 'CTCSkipInserter keeps exactly two local registers (found %s)' % local_regs)
    read = set()
    for a in raise_send:
        for l in a.guard:
            if isinstance(l.e, E):
                read |= q.support(ir, l.e)
        read |= q.support(ir, a.rhs)
    cand = [n for n in local_regs if n in read]
    ctx.need(len(cand) == 1, 'the pending-SKP counter is the one local register the sending_skip decision reads (%s)' % cand)
    PEND = cand[0]
    BYTES = [n for n in local_regs if n != PEND][0]
    spend, sbytes = ir.signals[PEND], ir.signals[BYTES]

    ctx.ob('C33.same-cycle', 'CTCSkipInserter.sending_skip.combinational', SEND in m.comb and SEND not in m.sync, raise_send[0].loc,
           'sending_skip must be combinational: it holds the scrambler in the very cycle whose sink word is replaced '
           '(a registered flag would freeze the LFSR over the following, real, word): %s' % [q.fmt(a) for a in ir.drivers(SEND, exact=True)])
    for f in ('valid', 'payload', 'ctrl'):
        ctx.need('self.source.' + f in m.sync, 'source.%s is a register of CTCSkipInserter' % f)
    ctx.ob('C33.counter-range', 'CTCSkipInserter.pending-counter.range',
           spend.w is not None and (1 << spend.w) > MAX_PENDING, spend.loc,
           'the pending-SKP counter %s (width %s, range %s) must hold the worst-case backlog of %d ordered sets' % (
               PEND, spend.w, spend.rng, MAX_PENDING))
    ctx.ob('C33.counter-range', 'CTCSkipInserter.byte-counter.range',
           sbytes.w is not None and (1 << sbytes.w) >= SKIP_BYTE_LIMIT, sbytes.loc,
           'the byte counter %s (width %s, range %s) must hold the remainder 0..%d' % (BYTES, sbytes.w, sbytes.rng, SKIP_BYTE_LIMIT - 1))
    ctx.need(spend.w is not None and sbytes.w is not None, 'counter widths are known')

    if ctx.tier == 'thorough':
        byte_vals = list(range(SKIP_BYTE_LIMIT))
    else:
        byte_vals = sorted(set(list(range(0, 2 * B + 1)) + list(range(SKIP_BYTE_LIMIT - 3 * B - 1, SKIP_BYTE_LIMIT))))
    byte_vals = [v for v in byte_vals if v < (1 << sbytes.w)]        # (a too narrow counter is reported above)
    pend_vals = [v for v in range(MAX_PENDING + 1) if v < (1 << spend.w)]
    vectors = [(0x00000000, 0x0), (0xFFFFFFFF, 0xF), (0x12345678, 0x5), (0x80000001, 0x8)]
    vectors = [(p & ((1 << (8 * B)) - 1), c & all_k) for p, c in vectors]
    OLD_P, OLD_C = 0x5A5A5A5A5A5A5A5A & ((1 << (8 * B)) - 1), 0x9 & all_k
    cex = {}

    def fail(cat, state, detail, w):
        if cat not in cex:
            view = {k.replace('self.', ''): v for k, v in state.items() if k in (PEND, BYTES, SV, SR, SRC_R, CAN)}
            cex[cat] = ('%s when %s%s' % (detail, view, (' -- deciding statement: ' + q.fmt(w)) if w is not None else ' -- no statement drives it'),
                        w.loc if w is not None else None)

    n_eval = 0
    for pend in pend_vals:
        for nbytes in byte_vals:
            for bits in range(16):
                sv, sr, srcr, can = bits & 1, (bits >> 1) & 1, (bits >> 2) & 1, (bits >> 3) & 1
                pv, cv = vectors[(pend + nbytes + bits) % len(vectors)]
                state = {n: 0 for n in ir.signals}
                state.update({PEND: pend, BYTES: nbytes, SV: sv, SR: sr, SRC_R: srcr, CAN: can,
                              'self.sink.payload': pv, 'self.sink.ctrl': cv,
                              'self.source.valid': 1 - sv, 'self.source.payload': OLD_P, 'self.source.ctrl': OLD_C})
                env, nxt, win = m.step(state)
                n_eval += 1
                # ---- the one-step specification
                fire = sv & sr
                scheduled = int(bool(fire) and nbytes + B >= SKIP_BYTE_LIMIT)
                sending = int(bool(can) and pend >= SETS)
                want_pend = pend + scheduled - SETS * sending
                want_bytes = (nbytes + B) % SKIP_BYTE_LIMIT if fire else nbytes
                got_word = (nxt['self.source.valid'], nxt['self.source.payload'], nxt['self.source.ctrl'])
                through = (sv, pv, cv)
                wword = win.get('self.source.payload') or win.get('self.source.ctrl') or win.get('self.source.valid')
                if not can and got_word != through:
                    fail('no-skp-without-permission', state, 'without can_send_skip the sink word %s must be registered unchanged, got %s' % (
                        _w(through), _w(got_word)), wword)
                if can and pend < SETS and got_word != through:
                    fail('no-skp-unless-owed', state, 'with fewer than %d SKP ordered sets pending the sink word %s must be registered '
                         'unchanged, got %s' % (SETS, _w(through), _w(got_word)), wword)
                if can and pend >= SETS and got_word != (1, skp_word, all_k):
                    fail('skp-when-due', state, 'with can_send_skip and %d ordered sets pending a valid all-SKP word %s must be registered, '
                         'got %s' % (pend, _w((1, skp_word, all_k)), _w(got_word)), wword)
                if env[SEND] != sending:
                    fail('sending_skip-exact', state, 'sending_skip is %d but a SKP word is%s being inserted in this cycle' % (
                        env[SEND], '' if sending else ' not'), win.get(SEND))
                if nxt[PEND] != want_pend:
                    fail('pending-update', state, 'pending SKP ordered sets must become %d (%+d scheduled, -%d sent), got %d' % (
                        want_pend, scheduled, SETS * sending, nxt[PEND]), win.get(PEND))
                if nxt[BYTES] != want_bytes:
                    fail('byte-update', state, 'byte counter must become %d (%s), got %d' % (
                        want_bytes, 'accepted word of %d bytes, modulo %d with the remainder kept' % (B, SKIP_BYTE_LIMIT) if fire
                        else 'no word accepted', nxt[BYTES]), win.get(BYTES))
                want_ready = sr if sending else srcr
                if nxt[SR] != want_ready:
                    fail('ready-path', state, 'sink.ready must %s, got %d' % (
                        'keep its value %d while a SKP replaces the idle word' % sr if sending else 'follow source.ready=%d' % srcr,
                        nxt[SR]), win.get(SR))
    ctx.need(n_eval == 16 * len(pend_vals) * len(byte_vals) and n_eval >= 500, 'control-state sweep size')
    obs = (('C33.skp-only-for-idle', 'source.no-skp-without-permission', 'no-skp-without-permission'),
           ('C33.skp-only-for-idle', 'source.no-skp-unless-owed', 'no-skp-unless-owed'),
           ('C33.skp-rate', 'source.skp-when-due', 'skp-when-due'),
           ('C33.same-cycle', 'sending_skip.exact', 'sending_skip-exact'),
           ('C33.skp-rate', 'pending-counter.update', 'pending-update'),
           ('C33.skp-rate', 'byte-counter.update', 'byte-update'),
           ('C33.pass-through', 'sink.ready', 'ready-path'))
    for rule, key, cat in obs:
        msg, loc = cex.get(cat, ('holds for all %d evaluated control states' % n_eval, None))
        ctx.ob(rule, 'CTCSkipInserter.' + key, cat not in cex, loc, msg)
    return ir


def _w(t):
    return '(valid=%d data=0x%x ctrl=0x%x)' % t


# ------------------------------------------------------------------------------------------ (b) the scrambler
def check_scrambler(ctx):
    s = ctx.ir('Scrambler', 'usb3.physical.scrambling')
    sub = find_sub(ctx, s, ('ScramblerLFSR',), 'LFSR')
    adv = s.drivers(sub.obj.path + '.advance', exact=True)
    ctx.need(len(adv) >= 1, 'driver of the scrambler LFSR advance strobe')
    HOLD = 'self.hold'
    ctx.need(HOLD in s.signals, 'Scrambler.hold')
    exprs = [a.rhs for a in adv] + [l.e for a in adv for l in a.guard]
    leaves = sorted(set(q.bool_leaves(*exprs)) | {HOLD})
    bad = None
    free = None
    for asg in q.all_assignments(leaves):
        w = table_winner(adv, asg)
        v = q.eval_expr(w.rhs, asg) if w is not None else False
        if asg[HOLD] and v is not False and bad is None:
            bad = asg
        if not asg[HOLD] and v is True:
            free = asg
    ctx.ob('C33.scrambler-hold', 'Scrambler.lfsr.advance.held', bad is None, adv[0].loc,
           'the scrambler LFSR must not advance while hold is set (inserted SKPs are not scrambled and consume no keystream); '
           'advances when %s: %s' % (bad, [q.fmt(a) for a in adv]))
    ctx.ob('C33.scrambler-hold', 'Scrambler.lfsr.advance.live', free is not None and all(a.domain == 'comb' for a in adv), adv[0].loc,
           'the LFSR advance strobe must be combinational and possible when hold is clear: %s' % [q.fmt(a) for a in adv])


# ------------------------------------------------------------------------------------------ (c) the physical layer
def check_physical(ctx):
    pl = ctx.ir('USB3PhysicalLayer', 'usb3.physical.layer', allow_opaque=True)
    tx = find_sub(ctx, pl, ('CTCSkipInserter',), 'transmit CTC')
    sc = find_sub(ctx, pl, ('Scrambler',), 'transmit scrambler')
    T, S = tx.obj.path, sc.obj.path
    R = 'C33.layer-wiring'
    wire(ctx, R, pl, T + '.can_send_skip', 'self.can_send_skp', 'tx_ctc.can_send_skip',
         'SKPs may be inserted only in the cycles the link layer marks as idle')
    wire(ctx, 'C33.scrambler-hold', pl, S + '.hold', T + '.sending_skip', 'scrambler.hold',
         'the LFSR is frozen in exactly the cycle whose word is replaced by SKPs')
    for f in ('valid', 'payload', 'ctrl'):
        wire(ctx, R, pl, '%s.sink.%s' % (T, f), '%s.source.%s' % (S, f), 'tx_ctc.sink.' + f,
             'the inserter works on the scrambled stream')
    wire(ctx, R, pl, S + '.source.ready', T + '.sink.ready', 'scrambler.source.ready',
         'the scrambler advances with the words the inserter takes')
    for f in ('payload', 'ctrl'):
        wire(ctx, R, pl, '%s.sink.%s' % (S, f), 'self.sink.' + f, 'scrambler.sink.' + f, 'the link layer stream enters the scrambler')
    # PHY side
    td, tk = pl.drivers('self._phy.tx_data', exact=True), pl.drivers('self._phy.tx_datak', exact=True)
    rd = pl.drivers(T + '.source.ready', exact=True)
    ctx.need(td, 'driver of PHY tx_data in USB3PhysicalLayer')
    ok = all(a.domain == 'comb' and isinstance(a.rhs, E) and (a.rhs.canon() == T + '.source.payload' or q.is_zero(a.rhs)) for a in td) and \
        any(a.rhs.canon() == T + '.source.payload' for a in td)
    ctx.ob(R, 'USB3PhysicalLayer.phy.tx_data', ok, td[0].loc, 'PHY tx_data must be the inserter output data: %s' % [q.fmt(a) for a in td])
    ok = bool(tk) and all(a.domain == 'comb' and isinstance(a.rhs, E) and (a.rhs.canon() == T + '.source.ctrl' or q.is_zero(a.rhs)) for a in tk) and \
        any(a.rhs.canon() == T + '.source.ctrl' for a in tk)
    ctx.ob(R, 'USB3PhysicalLayer.phy.tx_datak', ok, tk[0].loc if tk else td[0].loc, 'PHY tx_datak must be the inserter output ctrl: %s' % [q.fmt(a) for a in tk])
    exprs = [l.e for a in td + tk + rd for l in a.guard] + [a.rhs for a in rd]
    leaves = q.bool_leaves(*exprs)
    split = stall = None
    for asg in q.all_assignments(leaves):
        wd, wk, wr = table_winner(td, asg), table_winner(tk, asg), table_winner(rd, asg)
        # a constant 0 driven while nothing is forwarded (electrical idle) is the same as no driver
        if wd is not None and q.is_zero(wd.rhs):
            wd = None
        if wk is not None and q.is_zero(wk.rhs):
            wk = None
        if (wd is None) != (wk is None) and split is None:
            split = asg
        if wd is not None and (wr is None or q.eval_expr(wr.rhs, asg) is not True) and stall is None:
            stall = asg
    ctx.ob(R, 'USB3PhysicalLayer.phy.tx_data-with-tx_datak', split is None, td[0].loc,
           'tx_data and tx_datak must be forwarded under the same condition (a SKP is data 0x3C *with* its K flag); differs when %s' % (split,))
    ctx.ob('C33.pass-through', 'USB3PhysicalLayer.tx_ctc.source.ready', stall is None and all(a.domain == 'comb' for a in rd), rd[0].loc if rd else td[0].loc,
           'whenever the inserter output is forwarded to the PHY it must be taken every cycle (source.ready = 1; the inserter '
           'registers its output and cannot be stalled); not so when %s: %s' % (stall, [q.fmt(a) for a in rd]))


# ------------------------------------------------------------------------------------------ (d) the link layer
def check_link(ctx):
    ll = ctx.ir('USB3LinkLayer', 'usb3.link.layer', allow_opaque=True)
    PL = 'self._physical_layer'
    CAN = PL + '.can_send_skp'
    drv = ll.drivers(CAN, exact=True)
    up = q.raises(ll, CAN)                # `can_send_skp.eq(cond)` and `with m.If(cond): can_send_skp.eq(1)` in one form
    ctx.ob('C33.skp-rate', 'USB3LinkLayer.can_send_skp.raised', len(up) >= 1 and all(q.is_one(a.rhs) for a in up),
           up[0].loc if up else None, 'the link layer must offer idle cycles to the SKP inserter (can_send_skp <- 1): %s' % [q.fmt(a) for a in drv])
    ctx.need(up, 'can_send_skp raise site in USB3LinkLayer')
    arb = find_sub(ctx, ll, ('SuperSpeedStreamArbiter', 'StreamArbiter'), 'transmit stream arbiter')
    IDLE = arb.obj.path + '.idle'
    ctx.need(IDLE in ll.signals, 'idle flag of the transmit stream arbiter')
    sink_as = [a for a in ll.assigns if isinstance(a.lhs, E) and (a.lhs.canon() + '.').startswith(PL + '.sink.')]
    ctx.need(len(sink_as) >= 2, 'assignments to the physical layer sink in USB3LinkLayer')
    src = arb.obj.path + '.source'
    fwd = [a for a in sink_as if src in (a.lhs.canon() + ' ' + (a.rhs.canon() if isinstance(a.rhs, E) else ''))]
    ctx.need(fwd, 'the statement forwarding the arbiter stream (%s) to the physical layer' % src)
    # truth table over the leaf conditions of all guards involved (formulation independent)
    leaves = sorted(set(q.bool_leaves(*[l.e for a in up + sink_as for l in a.guard])) | {IDLE})
    ctx.need(not any(l.kind == 'cfg' for a in up + sink_as for l in a.guard), 'no configuration-dependent guard on the transmit mux')
    fields = (('data', 0), ('ctrl', 0), ('valid', 1))
    not_idle = None
    wrong = {}
    dropped = None
    n_skp = 0
    for asg in q.all_assignments(leaves):
        firing = [a for a in up if q.eval_guard(a, asg)]
        if firing:
            n_skp += 1
            if not asg[IDLE] and not_idle is None:
                not_idle = (asg, firing[0])
            for f, val in fields:
                names = (PL + '.sink.' + f,) + ((PL + '.sink.payload',) if f == 'data' else ())
                w = table_winner([x for x in sink_as if x.lhs.op != 'sig' or x.lhs.canon() in names], asg)
                if not (w is not None and w.lhs.op == 'sig' and w.domain == 'comb' and isinstance(w.rhs, E) and w.rhs.op == 'const'
                        and w.rhs.val == val) and f not in wrong:
                    wrong[f] = (asg, w)
        if not asg[IDLE] and not any(q.eval_guard(a, asg) for a in fwd) and dropped is None:
            dropped = asg
    ctx.ob('C33.skp-rate', 'USB3LinkLayer.can_send_skp.reachable', n_skp > 0, up[0].loc, 'can_send_skp can be raised under some condition')
    ok = not_idle is None and all(a.domain == 'comb' and a.state is None for a in up)
    ctx.ob('C33.skp-only-for-idle', 'USB3LinkLayer.can_send_skp.only-when-idle', ok, (not_idle[1] if not_idle else up[0]).loc,
           'can_send_skp may be raised only (combinationally) while the transmit arbiter reports idle (%s); raised when %s: %s' % (
               IDLE, not_idle[0] if not_idle else None, [q.fmt(a) for a in up]))
    for f, val in fields:
        asg, w = wrong.get(f, (None, None))
        ctx.ob('C33.skp-only-for-idle', 'USB3LinkLayer.idle-word.' + f, f not in wrong, w.loc if w is not None else up[0].loc,
               'in every cycle in which can_send_skp is raised the physical layer sink must carry the logical idle word '
               '(sink.%s <- %d, last assignment wins); when %s it is decided by: %s' % (f, val, asg, q.fmt(w) if w is not None else 'no statement'))
    ctx.ob('C33.pass-through', 'USB3LinkLayer.stream-forwarding.when-not-idle', dropped is None, fwd[0].loc,
           'whenever the arbiter is not idle its stream (%s) must be forwarded to the physical layer; not so when %s: %s' % (
               src, dropped, [q.fmt(a) for a in fwd]))


def run(ctx):
    check_inserter(ctx)
    check_scrambler(ctx)
    check_physical(ctx)
    check_link(ctx)
