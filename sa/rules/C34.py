"""C34 -- word alignment places COM sequences on word boundaries without corrupting data."""
from ..ir import E, AnalysisError
from .. import q

TITLE = 'receive word alignment (lane routing and COM detection)'
FLOOR = 60
DECIDES = ('For RxWordAligner and RxPacketAligner (each aligner class of alignment.py that is instantiated), the extracted '
           'guarded assignments of ONE clock cycle are evaluated symbolically, bit by bit, as binary decision diagrams over '
           'sink.valid, every bit of the shift register, and every data/ctrl bit of the previous and the current input word '
           '(72 symbolic data bits; last assignment wins; assignment truncation modelled) -- so every statement below holds '
           'for ALL data words and ALL control values, not for chosen stimuli. The shift register is quantified over the '
           'least set of values closed under its own next-state function from its reset value (a fixpoint over <= 2^w '
           'values). Registers are found by role: previous-word registers = internal registers loaded from sink data / sink '
           'ctrl, shift register = the remaining internal register. (a) routing invariant: in every valid cycle the word '
           'registered on source is, lane by lane and for data and ctrl alike, positions k..k+3 of the pair '
           '(previous word, current word) where k is the value the shift register takes in that same clock edge; the '
           'previous-word registers take the whole current word, lanes in order, on every valid cycle; hence while k is '
           'unchanged consecutive output words carry consecutive stream positions 4t+k-4+i: nothing lost, nothing '
           'duplicated; (b) detection: with four COM symbols (0xBC with its ctrl bit) at positions k..k+3 and at no other '
           'offset the shift register becomes k, with overlapping runs it becomes one of the matching offsets, the registered '
           'output word is then COM COM COM COM / ctrl 1111 (composition of detection offset and routing), and the shift '
           'register changes to k under no other condition than such a run at k; every offset 0..3 is representable and '
           'no value outside 0..3 is reachable; for RxPacketAligner the same with the windows SHP SHP SHP EPF / SLC SLC SLC '
           'EPF (all four ctrl bits); (c) with sink.valid low the previous-word registers and the shift register hold, '
           'source.valid becomes sink.valid in every cycle, sink.ready is 1 whenever a word is taken, all registers share one '
           'clock domain, alignment_offset reports the shift applied to the word on source; (d) USB3PhysicalLayer: each '
           'aligner takes data, ctrl and valid from one upstream stream and hands all three to each consumer; the chain '
           'PHY rx_data/rx_datak -> ... -> source passes through both aligners with data and ctrl through the same '
           'submodules. ')
NOT_DECIDED = ('what happens to the symbols in flight in the cycle the offset changes (the property excludes it); that the '
               'consumers never stall (the aligners ignore source.ready by design); the inside of the CTC and descrambler '
               'stages between PHY and aligners (pass-through assumed for the chain); reset behaviour before the first '
               'valid word (previous word is zero).')

COM = 0xBC                      # K28.5  [USB3.0r1 table 6-1]
SHP, SLC, EPF = 0xFB, 0xFE, 0xF7  # K27.7, K30.7, K23.7
ALIGNERS = (
    # class, module suffix, windows that set the alignment (symbol values, first symbol first; all are K symbols)
    ('RxWordAligner', 'usb3.physical.alignment', ((COM, COM, COM, COM),), 'four COM symbols'),
    ('RxPacketAligner', 'usb3.physical.alignment', ((SHP, SHP, SHP, EPF), (SLC, SLC, SLC, EPF)),
     'SHP SHP SHP EPF or SLC SLC SLC EPF'),
)
DATA_IN, CTRL_IN, VALID_IN, READY_IN = 'self.sink.payload', 'self.sink.ctrl', 'self.sink.valid', 'self.sink.ready'
OUT_D, OUT_C, OUT_V = 'self.source.payload', 'self.source.ctrl', 'self.source.valid'
STATUS = 'self.alignment_offset'


# ------------------------------------------------------------------------------------------ a small ROBDD package
class BDD:
    TOP = 1 << 30

    def __init__(self):
        self.node = [(self.TOP, 0, 0), (self.TOP, 1, 1)]
        self.uniq = {}
        self.memo = {}
        self.names = []

    def new_var(self, name):
        self.names.append(name)
        return self.mk(len(self.names) - 1, 0, 1)

    def mk(self, v, lo, hi):
        if lo == hi:
            return lo
        k = (v, lo, hi)
        n = self.uniq.get(k)
        if n is None:
            n = len(self.node)
            self.node.append(k)
            self.uniq[k] = n
        return n

    def ite(self, f, g, h):
        if f == 1:
            return g
        if f == 0:
            return h
        if g == h:
            return g
        if g == 1 and h == 0:
            return f
        k = (f, g, h)
        r = self.memo.get(k)
        if r is not None:
            return r
        nf, ng, nh = self.node[f], self.node[g], self.node[h]
        v = min(nf[0], ng[0], nh[0])
        f0, f1 = (nf[1], nf[2]) if nf[0] == v else (f, f)
        g0, g1 = (ng[1], ng[2]) if ng[0] == v else (g, g)
        h0, h1 = (nh[1], nh[2]) if nh[0] == v else (h, h)
        r = self.mk(v, self.ite(f0, g0, h0), self.ite(f1, g1, h1))
        self.memo[k] = r
        if len(self.node) > 2000000:
            raise AnalysisError('C34: decision diagrams grow beyond 2e6 nodes (construct not understood as routing + detection)')
        return r

    def neg(self, f):
        return self.ite(f, 0, 1)

    def and_(self, *fs):
        r = 1
        for f in fs:
            r = self.ite(r, f, 0)
        return r

    def or_(self, *fs):
        r = 0
        for f in fs:
            r = self.ite(r, 1, f)
        return r

    def xor(self, f, g):
        return self.ite(f, self.neg(g), g)

    def xnor(self, f, g):
        return self.ite(f, g, self.neg(g))

    def sat_one(self, f):
        """A (partial) satisfying assignment {var index: 0/1}, or None."""
        if f == 0:
            return None
        out = {}
        while f != 1:
            v, lo, hi = self.node[f]
            if lo != 0:
                out[v], f = 0, lo
            else:
                out[v], f = 1, hi
        return out

    def value(self, f, asg):
        while f > 1:
            v, lo, hi = self.node[f]
            f = hi if asg[v] else lo
        return f


# ------------------------------------------------------------------------------------------ one-cycle symbolic model
class Model:
    """Symbolic one-cycle semantics of a flat (FSM-less) module IR.  Every signal is a vector of BDDs (LSB first) over the
    bits of the inputs and of the current register values.  Anything not understood raises AnalysisError (fail closed)."""

    def __init__(self, ctx, ir, first_vars):
        self.ctx, self.ir, self.cls = ctx, ir, ir.clsname
        self.b = BDD()
        self.comb, self.sync, self.dom = {}, {}, {}
        ctx.need(not ir.fsms, '%s has no FSM (flat guarded assignments)' % self.cls)
        for a in sorted(ir.assigns, key=lambda x: x.order):
            tgt = a.lhs.args[0] if isinstance(a.lhs, E) and a.lhs.op == 'slice' else a.lhs
            ctx.need(isinstance(tgt, E) and tgt.op == 'sig' and isinstance(a.rhs, E) and a.state is None,
                     '%s assignment to a signal (or a slice of one): %s' % (self.cls, q.fmt(a)))
            n = tgt.args[0].name
            if a.domain == 'comb':
                self.comb.setdefault(n, []).append(a)
            else:
                self.sync.setdefault(n, []).append(a)
                self.dom.setdefault(n, set()).add(a.domain)
        both = set(self.comb) & set(self.sync)
        ctx.need(not both, 'no signal of %s is driven both combinationally and from a clock domain (%s)' % (self.cls, sorted(both)))
        self.vars = {}
        self.val = {}
        self.busy = set()
        for name, order in first_vars:
            self.alloc(name, order)

    # -- variables
    def width(self, n):
        si = self.ir.signals.get(n)
        if si is None or not isinstance(si.w, int):
            raise AnalysisError('C34: width of %s.%s unknown' % (self.cls, n))
        if getattr(si, 'signed', False):
            raise AnalysisError('C34: signed signal %s.%s not modelled' % (self.cls, n))
        return si.w

    def alloc(self, n, order=None):
        """BDD variables for the bits of an input / current register value; `order` = bit indices in allocation order."""
        if n in self.vars:
            return self.vars[n]
        w = self.width(n)
        vec = [None] * w
        for i in (order if order is not None else range(w)):
            if vec[i] is None:
                vec[i] = self.b.new_var((n, i))
        for i in range(w):
            if vec[i] is None:
                vec[i] = self.b.new_var((n, i))
        self.vars[n] = vec
        return vec

    def init_of(self, n):
        si = self.ir.signals.get(n)
        v = si.init if si is not None else None
        if v is None:
            return 0
        if not isinstance(v, int) or v < 0:
            raise AnalysisError('C34: reset value of %s.%s not a non-negative constant (%r)' % (self.cls, n, v))
        return v

    # -- vectors
    def const(self, v, w):
        return [1 if (v >> i) & 1 else 0 for i in range(w)]

    def ext(self, v, w):
        return list(v[:w]) + [0] * (w - len(v))

    def truth(self, v):
        return self.b.or_(*v)

    def eq(self, x, y):
        w = max(len(x), len(y))
        x, y = self.ext(x, w), self.ext(y, w)
        return self.b.and_(*[self.b.xnor(p, r) for p, r in zip(x, y)])

    def same(self, x, y):
        """bit-by-bit equalities of two vectors (a list: conjunction left to the caller)"""
        w = max(len(x), len(y))
        return [self.b.xnor(p, r) for p, r in zip(self.ext(x, w), self.ext(y, w))]

    def eqc(self, x, val):
        if val >> len(x):
            return 0
        return self.b.and_(*[bit if (val >> i) & 1 else self.b.neg(bit) for i, bit in enumerate(x)])

    def less(self, x, y):
        """unsigned x < y"""
        w = max(len(x), len(y))
        x, y = self.ext(x, w), self.ext(y, w)
        r = 0
        for p, s in zip(x, y):                      # from LSB up: higher bits decide
            r = self.b.ite(self.b.xor(p, s), s, r)
        return r

    def mux(self, c, x, y):
        w = max(len(x), len(y))
        x, y = self.ext(x, w), self.ext(y, w)
        return [self.b.ite(c, p, r) for p, r in zip(x, y)]

    def add(self, x, y):
        w = max(len(x), len(y))
        x, y = self.ext(x, w), self.ext(y, w)
        out, c = [], 0
        for p, r in zip(x, y):
            out.append(self.b.xor(self.b.xor(p, r), c))
            c = self.b.or_(self.b.and_(p, r), self.b.and_(c, self.b.xor(p, r)))
        return out + [c]

    # -- expressions
    def ev(self, e):
        if not isinstance(e, E):
            if isinstance(e, (int, bool)) and int(e) >= 0:
                return self.const(int(e), max(int(e).bit_length(), 1))
            raise AnalysisError('C34: cannot evaluate %r in %s' % (e, self.cls))
        op, b = e.op, self.b
        if op == 'const':
            if not isinstance(e.val, int) or e.val < 0:
                raise AnalysisError('C34: constant %r not modelled' % (e.val,))
            return self.const(e.val, e.w if isinstance(e.w, int) else max(e.val.bit_length(), 1))
        if op == 'sig':
            return self.sig(e.args[0].name)
        if op == 'slice':
            x, lo, hi = e.args
            v = self.ev(x)
            hi = len(v) if hi == 'end' else hi
            if not (isinstance(lo, int) and isinstance(hi, int)):
                raise AnalysisError('C34: slice bounds not constant in %s' % e.canon())
            return v[lo:hi]
        if op == 'cat':
            out = []
            for a in e.args:
                if isinstance(a, E) and a.op == 'const' and not isinstance(a.w, int):
                    raise AnalysisError('C34: width of Cat operand unknown in %s' % e.canon())
                out += self.ev(a)
            return out
        if op == 'rev':
            return list(reversed(self.ev(e.args[0])))
        if op == '~':
            return [b.neg(x) for x in self.ev(e.args[0])]
        if op in ('&', '|', '^'):
            vs = [self.ev(a) for a in e.args]
            w = max(len(v) for v in vs)
            r = self.ext(vs[0], w)
            f = {'&': lambda p, s: b.ite(p, s, 0), '|': lambda p, s: b.ite(p, 1, s), '^': b.xor}[op]
            for v in vs[1:]:
                r = [f(p, s) for p, s in zip(r, self.ext(v, w))]
            return r
        if op in ('==', '!=', '<', '<=', '>', '>=') and len(e.args) == 2:
            x, y = self.ev(e.args[0]), self.ev(e.args[1])
            r = {'==': lambda: self.eq(x, y), '!=': lambda: b.neg(self.eq(x, y)), '<': lambda: self.less(x, y),
                 '>': lambda: self.less(y, x), '<=': lambda: b.neg(self.less(y, x)), '>=': lambda: b.neg(self.less(x, y))}[op]()
            return [r]
        if op == '+':
            r = self.ev(e.args[0])
            for a in e.args[1:]:
                r = self.add(r, self.ev(a))
            return r
        if op in ('<<', '>>') and isinstance(e.args[1], E) and e.args[1].op == 'const':
            v, k = self.ev(e.args[0]), e.args[1].val
            return ([0] * k + v) if op == '<<' else (v[k:] or [0])
        if op == 'mux':
            return self.mux(self.truth(self.ev(e.args[0])), self.ev(e.args[1]), self.ev(e.args[2]))
        if op == 'arr':
            idx = self.ev(e.args[0])
            elems = [self.ev(a) for a in e.args[1:]]
            if not elems:
                raise AnalysisError('C34: empty Array in %s' % self.cls)
            r = elems[-1]                                   # an out-of-range index selects the last element
            for j in range(len(elems) - 2, -1, -1):
                r = self.mux(self.eqc(idx, j), elems[j], r)
            return r
        if op == 'call' and e.args and e.args[0] in ('any', 'bool'):
            return [self.truth(self.ev(e.args[1]))]
        if op == 'call' and e.args and e.args[0] == 'all':
            return [b.and_(*self.ev(e.args[1]))]
        if op == 'call' and e.args and e.args[0] == 'as_unsigned':
            return self.ev(e.args[1])
        raise AnalysisError('C34: expression form not understood in %s: %s' % (self.cls, e.canon()[:200]))

    def guard(self, a):
        g = 1
        for l in a.guard:
            if l.kind == 'cfg' or not isinstance(l.e, E):
                raise AnalysisError('C34: configuration-dependent guard in %s: %s' % (self.cls, l.canon()))
            t = self.truth(self.ev(l.e))
            g = self.b.and_(g, t if l.pos else self.b.neg(t))
        return g

    def store(self, n, old, a):
        val, g = self.ev(a.rhs), self.guard(a)
        if a.lhs.op == 'slice':
            lo, hi = a.lhs.args[1], a.lhs.args[2]
            hi = len(old) if hi == 'end' else hi
            new = list(old)
            new[lo:hi] = self.ext(val, hi - lo)
        else:
            new = self.ext(val, len(old))
        return self.mux(g, new, old)

    def sig(self, n):
        """Value of a signal in this cycle: combinational result, or the variable vector of an input / register."""
        if n in self.comb:
            if n not in self.val:
                if n in self.busy:
                    raise AnalysisError('C34: combinational loop through %s.%s' % (self.cls, n))
                self.busy.add(n)
                v = self.const(self.init_of(n), self.width(n))
                for a in self.comb[n]:
                    v = self.store(n, v, a)
                self.busy.discard(n)
                self.val[n] = v
            return self.val[n]
        return self.alloc(n)

    def nxt(self, n):
        """Value of register n after the clock edge (last assignment wins; holds when no statement fires)."""
        k = ('next', n)
        if k not in self.val:
            v = self.alloc(n)
            for a in self.sync[n]:
                v = self.store(n, v, a)
            self.val[k] = v
        return self.val[k]

    # -- witnesses
    def complete(self, partial, defaults):
        asg = []
        for i, nm in enumerate(self.b.names):
            asg.append(partial[i] if i in partial else defaults.get(nm, 0))
        return asg

    def num(self, vec, asg):
        return sum(self.b.value(x, asg) << i for i, x in enumerate(vec))

    def winner(self, n, asg, nxt=True):
        ds = self.sync.get(n) if nxt else self.comb.get(n)
        w = None
        for a in ds or ():
            if self.b.value(self.guard(a), asg):
                w = a
        return w


# ------------------------------------------------------------------------------------------ one aligner class
def check_aligner(ctx, clsname, mod, windows, window_text):
    ir = ctx.ir(clsname, mod)
    for n in (DATA_IN, CTRL_IN, VALID_IN, OUT_D, OUT_C, OUT_V):
        ctx.need(n in ir.signals, 'signal %s of %s' % (n, clsname))
    B = ir.signals[CTRL_IN].w
    ctx.need(isinstance(B, int) and B >= 2 and ir.signals[DATA_IN].w == 8 * B and ir.signals[OUT_C].w == B and
             ir.signals[OUT_D].w == 8 * B, '%s streams carry B symbols of 8 bits + 1 ctrl bit per word (ctrl width %s)' % (clsname, B))
    ctx.need(all(len(w) == B for w in windows), 'alignment windows of %s are one word (%d symbols) long' % (clsname, B))

    # ---- roles (structural): sync-driven signals
    sync_t, comb_t = {}, set()
    for a in ir.assigns:
        for t in a.lhs_sigs():
            if a.domain == 'comb':
                comb_t.add(t)
            else:
                sync_t.setdefault(t, []).append(a)
    for n in (OUT_D, OUT_C, OUT_V):
        ctx.need(n in sync_t and n not in comb_t, '%s is a register of %s (the aligned word is registered together with the shift)' % (n, clsname))
    internal = sorted(n for n in sync_t if not n.startswith('self.source.') and n != STATUS and ir.readers(n))
    rd = lambda n, s: any(isinstance(a.rhs, E) and s in a.rhs.sigs() for a in sync_t[n])
    prev_d = [n for n in internal if rd(n, DATA_IN)]
    prev_c = [n for n in internal if rd(n, CTRL_IN) and not rd(n, DATA_IN)]
    ctx.need(len(prev_d) == 1 and ir.signals[prev_d[0]].w == 8 * B,
             'the previous-data register of %s: the one internal register loaded from sink data (%s)' % (clsname, prev_d))
    ctx.need(len(prev_c) == 1 and ir.signals[prev_c[0]].w == B,
             'the previous-ctrl register of %s: the one internal register loaded from sink ctrl (%s)' % (clsname, prev_c))
    PREV_D, PREV_C = prev_d[0], prev_c[0]
    rest = [n for n in internal if n not in (PREV_D, PREV_C)]
    ctx.need(len(rest) == 1, 'the shift register of %s: the one remaining internal register (%s)' % (clsname, rest))
    SH = rest[0]
    sw = ir.signals[SH].w
    ctx.need(isinstance(sw, int) and 1 <= sw <= 6, 'width of the shift register %s of %s (%s)' % (SH, clsname, sw))
    sh_loc, out_loc, prev_loc = sync_t[SH][0].loc, sync_t[OUT_D][0].loc, sync_t[PREV_D][0].loc

    # ---- variable order: control first, then the stream positions of (previous, current) lane by lane
    first = [(VALID_IN, None), (SH, None)]
    m = Model(ctx, ir, first)
    for p in range(2 * B):
        dn, cn, l = (PREV_D, PREV_C, p) if p < B else (DATA_IN, CTRL_IN, p - B)
        for n, bits in ((cn, [l]), (dn, list(range(8 * l, 8 * l + 8)))):
            w = m.width(n)
            vec = m.vars.setdefault(n, [None] * w)
            for i in bits:
                vec[i] = m.b.new_var((n, i))
    b = m.b
    V = m.sig(VALID_IN)[0]
    S = m.sig(SH)
    pos_d = [(m.vars[PREV_D] if p < B else m.vars[DATA_IN])[8 * (p % B):8 * (p % B) + 8] for p in range(2 * B)]
    pos_c = [(m.vars[PREV_C] if p < B else m.vars[CTRL_IN])[p % B] for p in range(2 * B)]
    S1 = m.nxt(SH)
    nd, nc, nv = m.nxt(OUT_D), m.nxt(OUT_C), m.nxt(OUT_V)[0]
    pd1, pc1 = m.nxt(PREV_D), m.nxt(PREV_C)

    # ---- (C) reachable values of the shift register: least fixpoint from the reset value over its own next-state function
    reach = {m.init_of(SH) & ((1 << sw) - 1)}
    work = list(reach)
    while work:
        s = work.pop()
        at_s = m.eqc(S, s)
        for k in range(1 << sw):
            if k not in reach and b.and_(at_s, m.eqc(S1, k)) != 0:
                reach.add(k)
                work.append(k)
    INV = b.or_(*[m.eqc(S, s) for s in sorted(reach)])
    n_states = len(reach)

    defaults = {}
    for p in range(2 * B):
        dn, l = (PREV_D, p) if p < B else (DATA_IN, p - B)
        byte = 0x11 * (p + 1)
        for i in range(8):
            defaults[(dn, 8 * l + i)] = (byte >> i) & 1

    def show(asg):
        def word(p0):
            return ' '.join('%02X%s' % (m.num(pos_d[p], asg), 'k' if b.value(pos_c[p], asg) else ' ') for p in range(p0, p0 + B))
        return 'sink.valid=%d shift=%d -> next shift=%d, previous word=[%s] current word=[%s] (lane 0 first, k = ctrl bit set)' % (
            b.value(V, asg), m.num(S, asg), m.num(S1, asg), word(0), word(B))

    def decide(rule, key, hyp, concl, loc, what, target=None, got=None, nxt=True, record=True):
        """obligation: INV & hyp -> concl for all valuations (concl: one BDD, or a list decided conjunct by conjunct -- a
        word equality is never built as one diagram); on failure the message carries a concrete one-cycle witness."""
        pre, bad = b.and_(INV, hyp), 0
        for c in (concl if isinstance(concl, list) else [concl]):
            bad = b.and_(pre, b.neg(c))
            if bad != 0:
                break
        if bad == 0:
            if record is None:          # one of several cases of one obligation: only the last one records the pass
                return True
            return ctx.ob(rule, '%s.%s' % (clsname, key), True, loc, what + ' -- holds for all data words, sink.valid and the %d reachable shift values' % n_states)
        asg = m.complete(b.sat_one(bad), defaults)
        msg = '%s; violated when %s' % (what, show(asg))
        if got is not None:
            msg += '; ' + got(asg)
        if target is not None:
            w = m.winner(target, asg, nxt)
            msg += ' -- deciding statement: ' + (q.fmt(w) if w is not None else 'none (%s keeps its value)' % target)
            if w is not None:
                loc = w.loc
        return ctx.ob(rule, '%s.%s' % (clsname, key), False, loc, msg)

    def got_out(asg):
        return 'registered output word = [%s]' % ' '.join(
            '%02X%s' % (m.num(nd[8 * i:8 * i + 8], asg), 'k' if b.value(nc[i], asg) else ' ') for i in range(B))

    # ---- (A) structure
    doms = set()
    for n in (PREV_D, PREV_C, SH, OUT_D, OUT_C, OUT_V):
        doms |= m.dom[n]
    ctx.ob('C34.valid-only', clsname + '.registers.same-domain', len(doms) == 1, sh_loc,
           'previous word, shift register and output registers must be clocked by one domain (the output is selected by the value '
           'the shift register takes at the same edge): %s' % {n: sorted(m.dom[n]) for n in (PREV_D, PREV_C, SH, OUT_D, OUT_C, OUT_V)})
    ctx.ob('C34.detection', clsname + '.shift.width', (1 << sw) >= B, ir.signals[SH].loc or sh_loc,
           'the shift register %s (width %s, range %s) must hold every offset 0..%d' % (SH, sw, ir.signals[SH].rng, B - 1))
    ctx.ob('C34.detection', clsname + '.shift.reachable-range', max(reach) < B, sh_loc,
           'the shift register %s can take the values %s; only 0..%d select a window of the (previous, current) pair' % (SH, sorted(reach), B - 1))

    # ---- (a) previous word and routing
    cur_d = [x for p in range(B, 2 * B) for x in pos_d[p]]
    cur_c = [pos_c[p] for p in range(B, 2 * B)]
    old_d = [x for p in range(B) for x in pos_d[p]]
    old_c = [pos_c[p] for p in range(B)]
    for nm, reg, n1, cur, old in (('data', PREV_D, pd1, cur_d, old_d), ('ctrl', PREV_C, pc1, cur_c, old_c)):
        decide('C34.previous-word', 'previous.%s.load-on-valid' % nm, V, m.same(n1, cur), prev_loc,
               'on every valid input word the previous-%s register %s must take the whole current word, lanes in order' % (nm, reg), reg)
        decide('C34.valid-only', 'previous.%s.hold-on-invalid' % nm, b.neg(V), m.same(n1, old), prev_loc,
               'while sink.valid is low the previous-%s register %s must keep its value (an invalid word is not part of the stream)' % (nm, reg), reg)

    def window(k):
        return [x for i in range(B) for x in pos_d[k + i]], [pos_c[k + i] for i in range(B)]

    for k in range(B):
        wd, wc = window(k)
        at_k = b.and_(V, m.eqc(S1, k))
        txt = ('with the shift taking the value %d the registered output %%s lanes must be positions %d..%d of (previous, current), i.e. '
               'previous lanes %s then current lanes %s') % (k, k, k + B - 1, list(range(k, B)), list(range(0, k)))
        decide('C34.routing', 'route.shift%d.data' % k, at_k, m.same(nd, wd), out_loc, txt % 'data', OUT_D, got_out)
        decide('C34.routing', 'route.shift%d.ctrl' % k, at_k, m.same(nc, wc), out_loc, txt % 'ctrl', OUT_C, got_out)
        if ctx.tier == 'thorough':
            for i in range(B):
                p = k + i
                src = '%s lane %d' % (('previous', p) if p < B else ('current', p - B))
                decide('C34.routing', 'route.shift%d.lane%d.data' % (k, i), at_k, m.same(nd[8 * i:8 * i + 8], pos_d[p]), out_loc,
                       'shift %d: output data lane %d must carry %s' % (k, i, src), OUT_D, got_out)
                decide('C34.routing', 'route.shift%d.lane%d.ctrl' % (k, i), at_k, b.xnor(nc[i], pos_c[p]), out_loc,
                       'shift %d: output ctrl lane %d must carry the ctrl bit of %s' % (k, i, src), OUT_C, got_out)

    # ---- (b) detection
    def run_at(k):
        return b.or_(*[b.and_(*[b.and_(m.eqc(pos_d[k + i], sym), pos_c[k + i]) for i, sym in enumerate(w)]) for w in windows])
    C = [run_at(k) for k in range(B)]
    anyC = b.or_(*C)
    decide('C34.detection', 'detect.any-run', b.and_(V, anyC), b.or_(*[b.and_(C[k], m.eqc(S1, k)) for k in range(B)]), sh_loc,
           'whenever a valid (previous, current) pair contains %s at some offset, the shift register must take an offset at which '
           'such a run starts' % window_text, SH)
    def match(w, k):
        return b.and_(*[b.and_(m.eqc(pos_d[k + i], sym), pos_c[k + i]) for i, sym in enumerate(w)])

    for k in range(B):
        only = b.and_(V, C[k], *[b.neg(C[j]) for j in range(B) if j != k])
        ctx.need(only != 0, 'a window %s at offset %d alone is possible' % (window_text, k))
        decide('C34.detection', 'detect.offset%d' % k, only, m.eqc(S1, k), sh_loc,
               '%s at positions %d..%d of (previous, current), and at no other offset, must set the shift register to %d' % (
                   window_text, k, k + B - 1, k), SH)
        for w in windows:           # the output word must be the very window received (decided bit by bit)
            word = [x for sym in w for x in m.const(sym, 8)]
            hyp = b.and_(only, match(w, k))
            ctx.need(hyp != 0, 'window %s at offset %d of %s' % (w, k, clsname))
            ok = decide('C34.detection', 'present.offset%d' % k, hyp, m.same(nd, word) + m.same(nc, m.const((1 << B) - 1, B)), out_loc,
                        '%s received at offset %d must appear as one whole registered output word [%s] with all ctrl bits (detection '
                        'offset composed with the routing)' % (window_text, k, ' '.join('%02X' % x for x in w)), OUT_D, got_out,
                        record=(w is windows[-1] or None))
            if not ok:
                break
        decide('C34.detection', 'no-spurious.offset%d' % k, b.and_(V, m.eqc(S1, k), b.neg(m.eqc(S, k))), C[k], sh_loc,
               'the shift register may change to %d only when %s (data value AND ctrl bit of every symbol) start at offset %d' % (
                   k, window_text, k), SH)
        if ctx.tier == 'thorough':
            wd, wc = window(k)
            for s in sorted(reach):
                decide('C34.detection', 'detect.from%d.to%d' % (s, k), b.and_(only, m.eqc(S, s)),
                       [m.eqc(S1, k)] + m.same(nd, wd) + m.same(nc, wc), sh_loc,
                       'from shift %d, %s at offset %d alone: shift becomes %d and the output word is that window' % (s, window_text, k, k), SH, got_out)

    # ---- (c) valid discipline
    decide('C34.valid-only', 'shift.hold-on-invalid', b.neg(V), m.eq(S1, S), sh_loc,
           'while sink.valid is low the shift register %s must keep its value (an invalid word must not re-align the stream)' % SH, SH)
    decide('C34.valid-only', 'source.valid', 1, b.xnor(nv, V), sync_t[OUT_V][0].loc,
           'source.valid must become sink.valid in every cycle: each valid input word produces exactly one output word, an invalid one none',
           OUT_V)
    rdy = m.sig(READY_IN) if READY_IN in ir.signals else [0]
    decide('C34.valid-only', 'sink.ready', V, rdy[0], (ir.drivers(READY_IN, exact=True) or sync_t[PREV_D])[0].loc,
           'every valid word is shifted into the previous-word register, so sink.ready must be 1 in every such cycle (otherwise the '
           'upstream repeats the word and it is duplicated)', READY_IN, None, READY_IN not in m.comb)

    # ---- status output (optional)
    if STATUS in ir.signals and ir.drivers(STATUS, exact=True):
        if STATUS in m.sync:
            decide('C34.status', 'alignment_offset', 1, m.eq(m.nxt(STATUS), S1), sync_t[STATUS][0].loc,
                   'alignment_offset is registered with the output word and must report the shift applied to it', STATUS)
        else:
            decide('C34.status', 'alignment_offset', 1, m.eq(m.sig(STATUS), S), ir.drivers(STATUS, exact=True)[0].loc,
                   'alignment_offset must report the shift applied to the word on source', STATUS, None, False)
    else:
        ctx.note('%s has no alignment_offset output' % clsname)
    ctx.note('%s: %d BDD nodes over %d variables; shift register %s reaches %s' % (clsname, len(b.node), len(b.names), SH, sorted(reach)))


# ------------------------------------------------------------------------------------------ (d) where the aligners sit
def check_wiring(ctx):
    pl = ctx.ir('USB3PhysicalLayer', 'usb3.physical.layer', allow_opaque=True)
    R = 'C34.wiring'
    FIELDS = ('payload', 'ctrl', 'valid')

    def feed(name):
        """rhs signal name of the single unconditional combinational driver of `name`, with its assignment; else (None, drivers)."""
        ds = pl.drivers(name, exact=True)
        if len(ds) == 1 and ds[0].domain == 'comb' and not ds[0].guard and ds[0].state is None and isinstance(ds[0].rhs, E) \
                and ds[0].rhs.op == 'sig':
            return ds[0].rhs.args[0].name, ds
        return None, ds

    subs = {s.obj.path: s for s in pl.submodules}
    inst = [(s, cls) for s in pl.submodules for cls, _, _, _ in ALIGNERS if s.obj.clsname == cls]
    for cls, _, _, _ in ALIGNERS:
        ctx.need(any(c == cls for _, c in inst), 'an instance of %s in USB3PhysicalLayer' % cls)
    for s, cls in inst:
        P = s.obj.path
        # what feeds it
        srcs = {}
        for f in FIELDS:
            r, ds = feed('%s.sink.%s' % (P, f))
            srcs[f] = r
        pref = {f: (r[:-len(f) - 1] if r and r.endswith('.' + f) else None) for f, r in srcs.items()}
        ok = all(pref[f] is not None for f in FIELDS) and len(set(pref.values())) == 1
        ctx.ob(R, 'USB3PhysicalLayer.%s.sink-stream' % cls, ok, s.loc,
               'the aligner input data, ctrl and valid must come, unconditionally, from the same fields of ONE upstream stream '
               '(an aligner pairing data with foreign ctrl bits or validity re-groups garbage): %s' % srcs)
        # what consumes it
        cons = {}
        for a in pl.assigns:
            if isinstance(a.rhs, E) and a.rhs.op == 'sig' and a.rhs.args[0].name == P + '.source.payload' and a.lhs.op == 'sig':
                t = a.lhs.args[0].name
                cons[t[:-len('.payload')] if t.endswith('.payload') else t] = a
        ctx.ob(R, 'USB3PhysicalLayer.%s.source-consumed' % cls, bool(cons), s.loc, 'the aligned output of %s must be consumed' % P)
        bad = []
        for t, a in sorted(cons.items()):
            for f in FIELDS:
                r, ds = feed('%s.%s' % (t, f))
                if r != '%s.source.%s' % (P, f):
                    bad.append('%s.%s <- %s' % (t, f, r or [q.fmt(d) for d in ds]))
        ctx.ob(R, 'USB3PhysicalLayer.%s.source-stream' % cls, not bad, s.loc,
               'every consumer of the aligned data must take ctrl and valid from the same aligner output, unconditionally '
               '(consumers: %s); not so: %s' % (sorted(cons), bad))
        r, ds = feed('%s.sink.ready' % P)
        ups = pref.get('payload')
        if ups:
            r2, ds2 = feed(ups + '.ready')
            ctx.ob(R, 'USB3PhysicalLayer.%s.upstream-ready' % cls, r2 == P + '.sink.ready', (ds2 or [s])[0].loc,
                   'the upstream stream %s must see the ready of the aligner it feeds (%s.sink.ready): %s' % (ups, P, r2 or [q.fmt(d) for d in ds2]))

    # the receive chain: from the layer output back to the PHY, field by field
    def chain(field, end):
        name, hops, seen = 'self.source.' + field, [], set()
        while name not in seen and len(hops) < 16:
            seen.add(name)
            if name == end:
                return hops, True
            r, ds = feed(name)
            if r is None:
                return hops + ['?' + name], False
            owner = r.rsplit('.', 2)[0] if r.count('.') >= 2 else None
            if owner in subs and r == '%s.source.%s' % (owner, field):
                hops.append(owner)
                name = '%s.sink.%s' % (owner, field)        # assumed pass-through of the stage (its inside is another rule's business)
            else:
                name = r
        return hops, name == end
    cd, okd = chain('payload', 'self._phy.rx_data')
    cc, okc = chain('ctrl', 'self._phy.rx_datak')
    ctx.ob(R, 'USB3PhysicalLayer.rx-chain.data', okd, None, 'source data must derive from PHY rx_data through the receive stages: %s' % cd)
    ctx.ob(R, 'USB3PhysicalLayer.rx-chain.ctrl', okc, None, 'source ctrl must derive from PHY rx_datak through the receive stages: %s' % cc)
    ctx.ob(R, 'USB3PhysicalLayer.rx-chain.same-stages', cd == cc, None,
           'data and ctrl must pass through the same stages in the same order: data %s, ctrl %s' % (cd, cc))
    for s, cls in inst:
        ctx.ob(R, 'USB3PhysicalLayer.rx-chain.through-%s' % cls, s.obj.path in cd and s.obj.path in cc, s.loc,
               'the instantiated %s (%s) must lie on the receive chain PHY -> source: %s' % (cls, s.obj.path, cd))
    st, ds = feed('self.alignment_offset')
    if ds:
        words = [s.obj.path for s, cls in inst if cls == ALIGNERS[0][0]]
        ctx.ob(R, 'USB3PhysicalLayer.alignment_offset', st in [w + '.alignment_offset' for w in words], ds[0].loc,
               'the layer\'s alignment_offset must be the word aligner\'s: %s' % (st or [q.fmt(d) for d in ds]))


def run(ctx):
    for clsname, mod, windows, text in ALIGNERS:
        check_aligner(ctx, clsname, mod, windows, text)
    check_wiring(ctx)
