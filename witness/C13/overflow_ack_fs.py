"""Witness for C13 (USBStreamOutEndpoint, full-speed timing): a packet that overflowed the receive FIFO is discarded, and --
because the overflow flag is cleared by that discard before the inter-packet gap has passed -- still ACKed.
Run:  cd /repo && /venv/bin/python /verif/witness/C13/overflow_ack_fs.py     (documentation only, no check depends on it)"""
import sys, unittest
sys.path.insert(0, '.')
from luna.gateware.test.usb2 import USBDeviceTest
from luna.gateware.test import usb_domain_test_case
from luna.gateware.usb.usb2 import USBPacketID
from luna.gateware.usb.usb2.device import USBDevice
from luna.gateware.usb.usb2.endpoints.stream import USBStreamOutEndpoint

MPS = 8


class W(USBDeviceTest):
    FRAGMENT_UNDER_TEST = USBDevice
    FRAGMENT_ARGUMENTS = {'handle_clocking': False}

    def provision_dut(self, dut):
        self.ep = USBStreamOutEndpoint(endpoint_number=1, max_packet_size=MPS)
        dut.add_endpoint(self.ep)

    def initialize_signals(self):
        yield self.dut.connect.eq(1)
        yield self.utmi.tx_ready.eq(1)

    def interpacket_delay(self):
        yield from self.advance_cycles(10)

    @usb_domain_test_case
    def test_overflow(self):
        ep = self.ep
        got = []

        def take(n):
            yield ep.stream.ready.eq(1)
            for _ in range(n):
                yield
                if (yield ep.stream.valid):
                    got.append((yield ep.stream.payload))
            yield ep.stream.ready.eq(0)
        yield from self.advance_cycles(20)
        print('device speed:', (yield self.dut.speed), '(1 = FULL)')
        hs = []
        for k, pid in enumerate((USBPacketID.DATA0, USBPacketID.DATA1, USBPacketID.DATA0)):
            payload = [0x10 * (k + 1) + i for i in range(MPS)]
            h = yield from self.out_transaction(*payload, endpoint=1, data_pid=pid)
            hs.append(h)
            print('packet %d %s -> %s' % (k, [hex(b) for b in payload], h))
            if h != USBPacketID.ACK:
                break
        yield from take(60)
        print('delivered:', [hex(b) for b in got])
        acked = sum(1 for h in hs if h == USBPacketID.ACK)
        self.assertEqual(len(got), acked * MPS, 'ACKed %d packets (%d bytes) but delivered %d bytes' % (acked, acked * MPS, len(got)))


if __name__ == '__main__':
    unittest.main(argv=['w'])
