#!/venv/bin/python
"""Simulation witness for property C39 (PacketTransmitter: retransmission after LBAD carries the delayed flag).

Run from the root of a LUNA tree (imports `luna` from the current directory):

    cd <tree> && /venv/bin/python /verif/witness/C39/witness.py

PacketTransmitter.sink is fed by a LinkCommandGenerator, so link commands arrive as real SLC framing + command words.
Bring-up: LGOOD_7 (sequence advertisement, first header gets sequence number 0) and LCRD_0..3 (four credits).  The
protocol side then queues transaction-packet headers (never DATA, so no payload follows); no LGOOD is ever returned, so
every transmitted header stays unacknowledged.  source.ready and ~lrty_pending are held, i.e. the physical layer never
stalls and the LRTY has already gone out.

Three sweeps, each printing, per timing, the transmitted headers as (cycle of DW3, sequence number, DL):
  A  one LBAD, its arrival cycle swept from before the first header to after the last one (contains: LBAD in a
     DISPATCH_PACKET cycle while a packet is pending);
  B  a first LBAD after all headers were sent, a second LBAD swept over the whole retransmission (contains: LBAD in the
     cycle the last retransmission completes);
  C  one LBAD, the accept of a third header swept around the LBAD cycle (contains: accept coinciding with the LBAD).

A timing MISBEHAVES if a header whose sequence number was already transmitted (= still unacknowledged here) is sent
again with DL=0, i.e. a retransmission after the LBAD without the delayed flag / a sequence number going out twice
with DL=0.  Independently, a timing LOSES A HEADER if a header accepted from the queue was never transmitted although
the transmitter has gone idle (observation 3 of the C39 report).
"""
import os
import sys
import warnings

warnings.filterwarnings('ignore')
sys.dont_write_bytecode = True
sys.path.insert(0, os.getcwd())

from amaranth import Elaboratable, Module                                     # noqa: E402
from amaranth.sim import Simulator                                            # noqa: E402
from usb_protocol.types.superspeed import LinkCommand                         # noqa: E402
from luna.gateware.usb.usb3.link.transmitter import PacketTransmitter         # noqa: E402
from luna.gateware.usb.usb3.link.command import LinkCommandGenerator          # noqa: E402

CYCLES = 220
BRINGUP = [(5, LinkCommand.LGOOD, 7), (11, LinkCommand.LCRD, 0), (17, LinkCommand.LCRD, 1),
           (23, LinkCommand.LCRD, 2), (29, LinkCommand.LCRD, 3)]
FIRST_ENQUEUE = 39


class Top(Elaboratable):
    def __init__(self):
        self.tx = PacketTransmitter()
        self.gen = LinkCommandGenerator()

    def elaborate(self, platform):
        m = Module()
        m.submodules.tx = self.tx
        m.submodules.gen = self.gen
        m.d.comb += [self.tx.sink.stream_eq(self.gen.source), self.gen.source.ready.eq(1)]
        return m


def simulate(lbads=(), enqueue_at=(FIRST_ENQUEUE,) * 3):
    """lbads: cycles at which an LBAD is handed to the generator (it is seen by the transmitter 4 cycles later);
    enqueue_at[k]: first cycle in which header k is offered on the queue.
    Returns dict(sent=[(cycle, seq, dl)], lbad_seen=[cycle], accepts=[cycle], idle_at_end=bool)."""
    top = Top()
    tx, gen = top.tx, top.gen
    sim = Simulator(top)
    sim.add_clock(8e-9, domain='ss')
    cmds = {c: (k, s) for c, k, s in BRINGUP}
    for c in lbads:
        cmds[c] = (LinkCommand.LBAD, 0)
    res = dict(sent=[], lbad_seen=[], accepts=[], idle_at_end=False)

    def proc():
        yield tx.enable.eq(1)
        yield tx.source.ready.eq(1)
        yield tx.lrty_pending.eq(0)
        queued = 0
        word = -1
        for i in range(CYCLES):
            if i in cmds:
                yield gen.command.eq(cmds[i][0])
                yield gen.subtype.eq(cmds[i][1])
                yield gen.generate.eq(1)
            else:
                yield gen.generate.eq(0)
            offer = queued < len(enqueue_at) and i >= enqueue_at[queued]
            yield tx.queue.valid.eq(1 if offer else 0)
            yield tx.queue.header.dw0.eq(0x04 | (queued << 8))          # type TRANSACTION PACKET, never DATA
            yield
            now = i + 1                                                  # the cycle whose values we read below
            if (yield tx.queue.valid) and (yield tx.queue.ready):
                queued += 1
                res['accepts'].append(now)
            if (yield tx.retry_required):
                res['lbad_seen'].append(now)
            if (yield tx.source.valid) and (yield tx.source.ready):
                if word < 0 and (yield tx.source.ctrl) == 0b1111:        # SHP SHP SHP EPF
                    word = 0
                elif word >= 0:
                    word += 1
                    if word == 4:                                        # DW3: crc16, seq[16:19], ..., DL[25]
                        d = (yield tx.source.data)
                        res['sent'].append((now, (d >> 16) & 7, (d >> 25) & 1))
                        word = -1
        res['idle_at_end'] = (yield tx.packets_to_send) == 0 and word < 0
    sim.add_sync_process(proc, domain='ss')
    sim.run()
    return res


def misbehaviour(res):
    """Retransmissions (sequence number already on the wire, never acknowledged) that carry DL=0."""
    seen, bad = set(), []
    for c, s, dl in res['sent']:
        if s in seen and not dl:
            bad.append((c, s, dl))
        seen.add(s)
    return bad


def lost(res):
    """Sequence numbers accepted from the queue (0, 1, 2, ... in accept order) that never went out."""
    if not res['idle_at_end']:
        return []
    sent = {s for _, s, _ in res['sent']}
    return [k for k in range(len(res['accepts'])) if k not in sent]


def report(tag, res, counts):
    bad, gone = misbehaviour(res), lost(res)
    counts['timings'] += 1
    counts['misbehave'] += bool(bad)
    counts['lost'] += bool(gone)
    print('%-34s LBAD seen@%-10s accepts@%-14s sent %s%s%s' % (
        tag, res['lbad_seen'], res['accepts'], ' '.join('(%d,%d,%d)' % h for h in res['sent']),
        ('   MISBEHAVES: retransmitted without DL %s' % bad) if bad else '',
        ('   LOSES HEADER(S) seq %s' % gone) if gone else ''))


def main():
    counts = dict(timings=0, misbehave=0, lost=0)
    base = simulate()
    assert [s for _, s, _ in base['sent']] == [0, 1, 2] and not any(dl for _, _, dl in base['sent']), base
    first, last = base['accepts'][0], base['sent'][-1][0]
    print('reference run without LBAD: accepts@%s sent %s' % (base['accepts'], base['sent']))

    print('--- sweep A: one LBAD, arrival swept over the first transmission of three headers')
    for at in range(first - 6, last + 6):
        report('A lbad issued@%d' % at, simulate(lbads=[at]), counts)

    first_lbad = last + 2
    ref = simulate(lbads=[first_lbad])
    end = ref['sent'][-1][0]
    print('--- sweep B: first LBAD issued@%d, second LBAD swept over the retransmission (which ends @%d)' % (first_lbad, end))
    for at in range(first_lbad + 6, end + 8):
        report('B lbads issued@%d,%d' % (first_lbad, at), simulate(lbads=[first_lbad, at]), counts)

    seen = ref['lbad_seen'][0]
    print('--- sweep C: LBAD seen@%d, accept of a third header swept around it' % seen)
    for enq in range(seen - 4, seen + 4):
        report('C third header offered@%d' % enq, simulate(lbads=[first_lbad], enqueue_at=(FIRST_ENQUEUE, FIRST_ENQUEUE, enq)),
               counts)

    print('OBSERVATION-3: %d timings lose an accepted header (accept coinciding with the LBAD)' % counts['lost'])
    print('WITNESS: %d timings misbehave' % counts['misbehave'])
    return 1 if counts['misbehave'] else 0


if __name__ == '__main__':
    sys.exit(main())
