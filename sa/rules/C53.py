"""C53 -- HyperRAM transactions use the correct command and never contend the bus."""
from ..ir import E
from .. import q
from ..fsm import assignments
from ..flow import reg_flow, TOP

TITLE = 'HyperRAM command word, chip select and bus drive'
FLOOR = 50
DECIDES = ('On the FSM of HyperRAMInterface, states identified by role (write state raises write_ready, read state raises '
           'read_ready, command states put non-constant words on phy.dq.o, latency state decrements the latency counter, '
           'end states go unconditionally to the initial state), registered outputs evaluated exactly under last-assignment-'
           'wins: (a) the words put on phy.dq.o by the chain of command states, high word first, one cycle each, are bit for '
           'bit {~perform_write, register_space, ~single_page, address[31:3], 13 zero bits, address[2:0]} of the inputs as '
           'latched when the transfer was accepted (every source bit is a register loaded by one assignment in the accepting '
           'cycle and not written again before the last command word is out; the R/W# and space flags never outside the '
           'initial state), 48 bits in total; (b) phy.dq.e is 1 after every command state and the write state '
           'and 0 after every other state; phy.rwds.e is 0 after every state except the write state of a memory-space '
           'transfer; (c) phy.cs is 1 after the accepting cycle, never cleared in any state before the transaction ends, '
           '0 after an idle cycle that does not accept, and 0 after every cycle that returns to the initial state (so two '
           'transactions are always separated by a de-asserted chip select); phy.clk_en is 1 after command, latency, read '
           'and write states; (d) the last command state goes to the write state exactly for a register write (zero '
           'latency) and to the latency state otherwise, loading the counter with 2*7-2 = 12 (7-2 = 5 in a no-extra-latency '
           'arm), which the declared range holds; the latency state decrements by one per cycle, stays while the counter is '
           'not 0 and leaves to the read state iff the latched R/W# bit of the command says read, else to the write state; '
           '(e) read and write states end a memory transfer only under final_word, and only into an end state; (f) a register that '
           'the read state writes from the PHY inputs and consults in a guard holds its reset value on every entry into the read '
           'state (forward dataflow of its possible values over the FSM), so nothing a previous transaction left behind can fake a '
           'data strobe before the memory drives one. ')
NOT_DECIDED = ('the read data path (RWDS-qualified sampling, clock-inversion reassembly), write_ready/read_ready handshakes, '
               'write masking (rwds.o), the PHY (DDR registers, synchronizer delays) and absolute tCSS/tCSH/tRWR timing.')

CLS = 'HyperRAMInterface'
CS, CLK, DQE, DQO, RWE = 'self.phy.cs', 'self.phy.clk_en', 'self.phy.dq.e', 'self.phy.dq.o', 'self.phy.rwds.e'

# HyperBus command-address word (HyperBus specification, "Command / Address bit assignments"), bit 47 first on the wire:
#   47 R/W# (1 = read), 46 address space (1 = register), 45 burst type (1 = linear), 44:16 address[31:3],
#   15:3 reserved (0), 2:0 address[2:0]
CA_BITS = 48
FIELDS = (('rw', 47, 48), ('space', 46, 47), ('burst', 45, 46), ('addr-hi', 16, 45), ('reserved', 3, 16), ('addr-lo', 0, 3))
# latency: the part's latency count is 7 clocks, fixed 2x latency by default; counted from the third command clock, the
# data state must be entered 2*7 - 1 cycles after the last command state, i.e. the latency state lasts (load + 1) cycles
# with load = 2*7 - 2; a single-latency arm (if one is ever live) must load 7 - 2.
LATENCY_COUNT = 7
LOAD_2X = 2 * LATENCY_COUNT - 2
LOAD_1X = LATENCY_COUNT - 2


def _expected_ca():
    exp = [None] * CA_BITS
    exp[47] = ('s', 'self.perform_write', 0, True)
    exp[46] = ('s', 'self.register_space', 0, False)
    exp[45] = ('s', 'self.single_page', 0, True)
    for i in range(3, 32):
        exp[16 + i - 3] = ('s', 'self.address', i, False)
    for i in range(3, 16):
        exp[i] = ('c', 0)
    for i in range(3):
        exp[i] = ('s', 'self.address', i, False)
    return exp


# ------------------------------------------------------------------ boolean evaluation of guards / 1-bit right-hand sides
def _boolish(e):
    if not isinstance(e, E):
        return False
    if e.op in ('&', '|', '^', '~'):
        return all(_boolish(a) or (isinstance(a, E) and a.op in ('==', '!=', '<', '<=', '>', '>=')) for a in e.args) or e.w == 1
    if e.op == 'const':
        return e.val in (0, 1)
    if e.op in ('sig', 'slice'):
        return e.w in (None, 1)
    return False


def _leaves(e, acc):
    if isinstance(e, E) and e.op in ('&', '|', '^', '~') and _boolish(e):
        for a in e.args:
            _leaves(a, acc)
    elif isinstance(e, E) and e.op == 'const':
        pass
    elif isinstance(e, E) and e.op == '!=':
        acc.add(E('==', e.args).canon())
    else:
        acc.add(e.canon() if isinstance(e, E) else str(e))


def _ev(e, env):
    """Three-valued evaluation (True / False / None) of a 1-bit expression under leaf-canon -> bool."""
    if not isinstance(e, E):
        return env.get(str(e))
    if e.op == 'const':
        return bool(e.val)
    if e.op in ('&', '|', '^', '~') and _boolish(e):
        vs = [_ev(a, env) for a in e.args]
        if e.op == '~':
            return None if vs[0] is None else not vs[0]
        if e.op == '&':
            return False if any(v is False for v in vs) else (None if any(v is None for v in vs) else True)
        if e.op == '|':
            return True if any(v is True for v in vs) else (None if any(v is None for v in vs) else False)
        if any(v is None for v in vs):
            return None
        return sum(1 for v in vs if v) % 2 == 1
    if e.op == '!=':
        v = env.get(E('==', e.args).canon())
        return None if v is None else not v
    return env.get(e.canon())


def _holds(guard, env):
    for l in guard:
        v = _ev(l.e, env)
        if v is None or v != l.pos:
            return False
    return True


def _envs(items, assume, rhs_too=False):
    acc = set()
    for it in items:
        for l in it.guard:
            _leaves(l.e, acc)
        if rhs_too and getattr(it, 'kind', '') == 'assign' and _boolish(it.rhs) and it.rhs.op != 'const':
            _leaves(it.rhs, acc)
    return assignments(sorted(acc), dict(assume or {}))


def _next(fsm, st, assume=None):
    """Exact next-state relation of one state (compound guard atoms evaluated from their leaves): {dst_or_None: env}."""
    edges = sorted(fsm.out_edges(st), key=lambda e: e.order)
    out = {}
    for env in _envs(edges, assume):
        dst = None
        for e in edges:
            if _holds(e.guard, env):
                dst = e.dst
        out.setdefault(dst, env)
    return out


def _drv(ctx, ir, fsm, sig):
    ds = ir.drivers(sig, exact=True)
    ctx.need(ds, 'drivers of %s' % sig)
    ctx.need(len(ir.drivers(sig)) == len(ds) and all(a.lhs.op == 'sig' for a in ds), 'whole-signal drivers of %s' % sig)
    ctx.need(all(a.domain == fsm.domain for a in ds), 'all drivers of %s are registered in the FSM domain' % sig)
    ctx.need(all(a.state is None or a.state[0] == fsm.id for a in ds), 'drivers of %s inside the FSM or module level' % sig)
    return ds


def _wins(ctx, ir, fsm, sig, st, assume=None, edge=None):
    """[(env, winning Assign or None, next state)] for the registered signal `sig` evaluated in FSM state `st`;
    with edge given only the evaluations under which that edge is the winning transition are kept."""
    ds = sorted((a for a in _drv(ctx, ir, fsm, sig) if a.state is None or a.state == (fsm.id, st)), key=lambda a: a.order)
    edges = sorted(fsm.out_edges(st), key=lambda e: e.order)
    out = []
    for env in _envs(ds + edges, assume, rhs_too=True):
        win = None
        for a in ds:
            if _holds(a.guard, env):
                win = a
        dst = w_e = None
        for e in edges:
            if _holds(e.guard, env):
                dst, w_e = e.dst, e
        if edge is not None and w_e is not edge:
            continue
        out.append((env, win, dst))
    return out


def _val(a, env):
    if a is None:
        return 'hold'
    if a.rhs.op == 'const':
        return str(a.rhs.val)
    if _boolish(a.rhs):
        v = _ev(a.rhs, env)
        if v is not None:
            return '1' if v else '0'
    return a.rhs.canon()


def _vals(ctx, ir, fsm, sig, st, assume=None, edge=None, allowed=None):
    """(set of values the register takes after state st, location of the first offending / first winning assignment)"""
    ws = _wins(ctx, ir, fsm, sig, st, assume, edge)
    loc = None
    if allowed is not None:
        loc = next((a.loc for env, a, _ in ws if a is not None and _val(a, env) not in allowed), None)
    if loc is None:
        loc = next((a.loc for _, a, _ in ws if a is not None), fsm.state_loc.get(st))
    return {_val(a, env) for env, a, _ in ws}, loc


# ------------------------------------------------------------------ bit-level view of the words sent
def _bits(ir, e, depth=0):
    """LSB-first list of bit sources ('c', v) | ('s', signal, index, inverted); None if not understood."""
    if not isinstance(e, E):
        return None
    if e.op == 'const':
        if not isinstance(e.val, int) or e.val < 0:
            return None
        w = e.w if e.w is not None else max(e.val.bit_length(), 1)
        return [('c', (e.val >> i) & 1) for i in range(w)]
    if e.op == 'sig':
        name = e.args[0].name
        w = e.w
        rhs = q.comb_def(ir, name) if depth < 6 else None
        if rhs is not None:
            b = _bits(ir, rhs, depth + 1)
            if b is None or w is None:
                return None
            return (b + [('c', 0)] * w)[:w]
        if w is None:
            return None
        return [('s', name, i, False) for i in range(w)]
    if e.op == 'slice':
        b = _bits(ir, e.args[0], depth)
        lo, hi = e.args[1], e.args[2]
        if b is None or not isinstance(lo, int):
            return None
        if not isinstance(hi, int):
            hi = len(b)
        return b[lo:hi]
    if e.op == 'cat':
        out = []
        for a in e.args:
            b = _bits(ir, a, depth)
            if b is None:
                return None
            out += b
        return out
    if e.op == '~':
        b = _bits(ir, e.args[0], depth)
        if b is None:
            return None
        return [('c', 1 - x[1]) if x[0] == 'c' else ('s', x[1], x[2], not x[3]) for x in b]
    return None


def _show(b):
    if b is None:
        return '?'
    if b[0] == 'c':
        return str(b[1])
    return '%s%s[%d]' % ('~' if b[3] else '', b[1], b[2])


def _show_range(bs):
    """compact text of an LSB-first bit list"""
    out = []
    i = 0
    while i < len(bs):
        b = bs[i]
        j = i
        if b is not None and b[0] == 's':
            while j + 1 < len(bs) and bs[j + 1] is not None and bs[j + 1][0] == 's' and bs[j + 1][1] == b[1] and \
                    bs[j + 1][3] == b[3] and bs[j + 1][2] == bs[j][2] + 1:
                j += 1
            out.append('%s%s[%d:%d]' % ('~' if b[3] else '', b[1], b[2], bs[j][2] + 1))
        elif b is not None and b[0] == 'c':
            while j + 1 < len(bs) and bs[j + 1] == b:
                j += 1
            out.append('%dx%d' % (j - i + 1, b[1]))
        else:
            out.append('?')
        i = j + 1
    return 'Cat(' + ', '.join(out) + ')'


# ------------------------------------------------------------------ the rule
def run(ctx):
    ir = ctx.ir(CLS, 'interface.psram')
    fsm = ctx.the_fsm(ir)
    init = fsm.init
    acc_edges = fsm.out_edges(init)
    ctx.need(len(acc_edges) == 1 and acc_edges[0].dst in fsm.states and acc_edges[0].dst != init,
             'the single accepting edge out of the initial state')
    acc = acc_edges[0]
    acc_env = {}
    for l in acc.guard:
        ls = set()
        _leaves(l.e, ls)
        ctx.need(len(ls) == 1 and _ev(l.e, {list(ls)[0]: l.pos}) == l.pos, 'accepting guard is a conjunction of simple literals')
        acc_env[list(ls)[0]] = l.pos
    ctx.need(acc_env, 'the accepting edge is guarded (start_transfer)')

    def role_state(sig, what):
        s = {q.state_of(a) for a in q.raises(ir, sig)}
        ctx.need(len(s) == 1 and None not in s, what)
        return s.pop()
    wr = role_state('self.write_ready', 'the write state (raises write_ready)')
    rd = role_state('self.read_ready', 'the read state (raises read_ready)')
    ctx.need(len({init, wr, rd}) == 3, 'initial, read and write states are distinct')

    # command states: put a non-constant word other than the write data path on DQ
    dqo = _drv(ctx, ir, fsm, DQO)
    cmds = []
    for a in dqo:
        s = q.state_of(a)
        if s is not None and s not in (init, wr, rd) and a.rhs.op != 'const' and s not in cmds:
            cmds.append(s)
    ctx.need(cmds, 'command states (drive phy.dq.o with the command word)')
    heads = [s for s in cmds if not any(e.src in cmds and e.src != s for e in fsm.in_edges(s))]
    ctx.need(len(heads) == 1, 'first command state (found %s)' % heads)
    chain = [heads[0]]
    while True:
        nx = [d for d in {e.dst for e in fsm.out_edges(chain[-1])} if d in cmds and d not in chain]
        if not nx:
            break
        ctx.need(len(nx) == 1, 'command states form a chain')
        chain.append(nx[0])
    ctx.need(len(chain) == len(cmds), 'command states form one chain: %s of %s' % (chain, cmds))
    last = chain[-1]

    # latency state: holds the unit decrement of a counter
    dec = [a for a in ir.assigns if a.state and a.state[0] == fsm.id and a.domain == fsm.domain and a.lhs.op == 'sig' and
           isinstance(a.rhs, E) and a.rhs.op == '-' and a.rhs.canon() == a.lhs.canon() + ' - 1']
    ctx.need(len(dec) == 1 and dec[0].state[1] not in (init, wr, rd) + tuple(cmds), 'the latency state (decrements the latency counter)')
    lat = dec[0].state[1]
    cnt = dec[0].lhs.canon()

    ends = [s for s in fsm.states if s not in (init, wr, rd, lat) and s not in cmds and set(_next(fsm, s)) == {init}]
    role = {init: 'init', wr: 'write', rd: 'read', lat: 'latency'}
    for k, s in enumerate(chain):
        role[s] = 'command%d' % k
    for k, s in enumerate(ends):
        role[s] = 'end%d' % k if len(ends) > 1 else 'end'
    n_pre = 0
    for s in fsm.states:
        if s not in role:
            role[s] = 'pre-command%d' % n_pre if n_pre else 'pre-command'
            n_pre += 1
    R = lambda s: role.get(s, str(s))
    K = lambda s, sig: '%s.%s@%s' % (CLS, sig, R(s))
    body = [s for s in fsm.states if s != init and s not in ends]

    # ---------------------------------------------------------------- (a) the command word
    sent = []          # MSB-first list of words (each LSB-first bit list)
    for k, s in enumerate(chain):
        ws = _wins(ctx, ir, fsm, DQO, s)
        winners = {id(a): a for _, a, _ in ws}
        a = list(winners.values())[0]
        single = len(winners) == 1 and a is not None
        b = _bits(ir, a.rhs) if single else None
        ctx.ob('C53.ca-word', '%s.dq.o@%s' % (CLS, R(s)), single and b is not None, a.loc if a is not None else fsm.state_loc[s],
               'command state %s must put one unconditional, bit-resolvable word on phy.dq.o: %s' % (
                   s, [q.fmt(x) if x is not None else 'hold' for x in winners.values()]))
        sent.append(b or [])
        if k + 1 < len(chain):
            o = _next(fsm, s)
            ctx.ob('C53.ca-one-cycle-per-word', '%s.next@%s' % (CLS, R(s)), set(o) == {chain[k + 1]}, fsm.state_loc[s],
                   'each command word is on the bus for exactly one cycle: state %s must go unconditionally to %s, outcomes %s'
                   % (s, chain[k + 1], sorted(map(str, o))))
    word = []          # LSB-first 48-bit vector: last word sent holds the least significant bits
    for b in reversed(sent):
        word += b
    ctx.ob('C53.ca-length', CLS + '.ca.total-bits', len(word) == CA_BITS and all(len(b) == len(sent[0]) for b in sent), fsm.state_loc[chain[0]],
           'the command states must send %d bits in equal words, high word first; they send %s bits' % (CA_BITS, [len(b) for b in sent]))
    word = (word + [None] * CA_BITS)[:CA_BITS]
    # latches: every source register takes its value from the inputs in the accepting cycle and is not written again
    # before the last command word has been put on the bus
    phase = set()
    work = [acc.dst]
    while work:
        s = work.pop()
        if s in phase or s not in fsm.states:
            continue
        phase.add(s)
        if s != last:
            work += [e.dst for e in fsm.out_edges(s)]
    latch_rhs = {}
    latch_ok = {}
    for b in word:
        if b is None or b[0] != 's' or b[1] in latch_ok:
            continue
        x = b[1]
        ds = ir.drivers(x, exact=True)
        ok = len(ds) >= 1 and len(ir.drivers(x)) == len(ds) and all(
            d.domain == fsm.domain and d.state is not None and d.state[0] == fsm.id and d.lhs.op == 'sig' for d in ds)
        why = 'not a register written inside the FSM (live input?)' if not ok else ''
        win = None
        if ok:
            late = [d for d in ds if d.state[1] in phase]
            winners = {id(w): w for _, w, _ in _wins(ctx, ir, fsm, x, init, acc_env)}
            win = list(winners.values())[0] if len(winners) == 1 else None
            if late:
                ok, why = False, 'rewritten during the command phase: %s' % [q.fmt(d) for d in late]
            elif win is None:
                ok, why = False, 'not loaded by exactly one assignment in the accepting cycle: %s' % [q.fmt(d) for d in ds]
        latch_ok[x] = (ok, ds, why)
        if ok:
            rb = _bits(ir, win.rhs)
            w = ir.signals[x].w if x in ir.signals else None
            if rb is not None and w is not None:
                latch_rhs[x] = (rb + [('c', 0)] * w)[:w]
    resolved = []
    for b in word:
        if b is not None and b[0] == 's' and b[1] in latch_rhs and b[2] < len(latch_rhs[b[1]]):
            r = latch_rhs[b[1]][b[2]]
            resolved.append(r if r[0] == 'c' or not b[3] else ('s', r[1], r[2], not r[3]))
        else:
            resolved.append(b)
    exp = _expected_ca()

    def field_obs(name, lo, hi):
        srcs = sorted({b[1] for b in word[lo:hi] if b is not None and b[0] == 's'})
        bad = [x for x in srcs if not latch_ok[x][0]]
        loc = None
        for x in srcs:
            if latch_ok[x][1]:
                loc = latch_ok[x][1][0].loc
        if name != 'reserved' or srcs:
            ctx.ob('C53.ca-latched', '%s.ca.%s.latched' % (CLS, name), not bad and bool(srcs), loc or fsm.state_loc[chain[0]],
                   'command bits %d:%d must come from registers loaded in the accepting cycle and not written again before '
                   'the last command word is out (latched, not live): sources %s, offending %s' % (
                       hi - 1, lo, srcs or 'none (constant)', [(x, latch_ok[x][2]) for x in bad]))
        ctx.ob('C53.ca-layout', '%s.ca.%s' % (CLS, name), resolved[lo:hi] == exp[lo:hi], loc or fsm.state_loc[chain[0]],
               'command bits %d:%d as sent (in terms of the inputs at acceptance) are %s, HyperBus requires %s' % (
                   hi - 1, lo, _show_range(resolved[lo:hi]), _show_range(exp[lo:hi])))
    for name, lo, hi in FIELDS:
        field_obs(name, lo, hi)
    if ctx.tier == 'thorough':
        for i in range(CA_BITS):
            ctx.ob('C53.ca-bit', '%s.ca.bit%d' % (CLS, i), resolved[i] == exp[i], fsm.state_loc[chain[(CA_BITS - 1 - i) * len(chain) // CA_BITS]],
                   'command bit %d as sent is %s, HyperBus requires %s' % (i, _show(resolved[i]), _show(exp[i])))

    # ---------------------------------------------------------------- (b) who drives DQ / RWDS
    flags_ok = all(word[i] is not None and word[i][0] == 's' and latch_ok.get(word[i][1], (False,))[0] for i in (46, 47))
    if flags_ok:
        rw_sig, rw_read = word[47][1], not word[47][3]        # value of the latch that means "read"
        sp_sig, sp_reg = word[46][1], not word[46][3]         # value of the latch that means "register space"
        flags_ok = ir.signals[rw_sig].w == 1 and ir.signals[sp_sig].w == 1 and rw_sig != sp_sig
    for s in fsm.states:
        v, loc = _vals(ctx, ir, fsm, DQE, s, allowed={'1'} if (s in cmds or s == wr) else {'0'})
        if s in cmds or s == wr:
            ctx.ob('C53.dq-driven', K(s, 'dq.e'), v == {'1'}, loc,
                   'DQ must be driven while the %s is on the bus: phy.dq.e after state %s evaluates to %s (module-level '
                   'defaults placed after the FSM would win)' % ('write data' if s == wr else 'command word', s, sorted(v)))
        else:
            ctx.ob('C53.dq-released', K(s, 'dq.e'), v == {'0'}, loc,
                   'DQ may be driven only in command and write phases: phy.dq.e after state %s (%s) evaluates to %s, must be '
                   'exactly 0 (hold is not enough)' % (s, R(s), sorted(v)))
        if s != wr:
            v, loc = _vals(ctx, ir, fsm, RWE, s, allowed={'0'})
            ctx.ob('C53.rwds-released', K(s, 'rwds.e'), v == {'0'}, loc,
                   'RWDS may be driven only in the write phase of a memory transfer (the memory drives it during the command, '
                   'latency and read phases): phy.rwds.e after state %s (%s) evaluates to %s' % (s, R(s), sorted(v)))
    if not flags_ok:
        ctx.ob('C53.flags-from-ca', CLS + '.ca.flag-registers', False, fsm.state_loc[chain[0]],
               'command bits 47/46 are not single latched 1-bit registers (%s, %s): the FSM decisions that must agree with '
               'the command word cannot be tied to it' % (_show(word[47]), _show(word[46])))
        return
    for nm, x in (('rw', rw_sig), ('space', sp_sig)):
        late = [d for d in latch_ok[x][1] if d.state != (fsm.id, init)]
        ctx.ob('C53.flags-stable', '%s.ca.%s.stable' % (CLS, nm), not late, late[0].loc if late else latch_ok[x][1][0].loc,
               'the latched %s bit of the command steers latency, data direction and RWDS drive for the whole transaction '
               'and must not be written outside the initial state: %s' % (nm, [q.fmt(d) for d in late]))
    READ, WRITE = {rw_sig: rw_read}, {rw_sig: not rw_read}
    REG, MEM = {sp_sig: sp_reg}, {sp_sig: not sp_reg}
    v, loc = _vals(ctx, ir, fsm, RWE, wr, REG, allowed={'0'})
    ctx.ob('C53.rwds-released', K(wr, 'rwds.e') + '[register]', v == {'0'}, loc,
           'in a register write the data word follows the command with zero latency while the memory still drives RWDS: '
           'phy.rwds.e must be 0 when %s=%d, evaluates to %s' % (sp_sig, sp_reg, sorted(v)))
    v, loc = _vals(ctx, ir, fsm, RWE, wr, MEM, allowed={'1'})
    ctx.ob('C53.rwds-driven', K(wr, 'rwds.e') + '[memory]', v == {'1'}, loc,
           'in a memory write the controller must drive RWDS (data mask) during the write phase: phy.rwds.e with %s=%d '
           'evaluates to %s' % (sp_sig, not sp_reg, sorted(v)))

    # ---------------------------------------------------------------- (c) chip select and clock
    v, loc = _vals(ctx, ir, fsm, CS, init, acc_env, allowed={'1'})
    ctx.ob('C53.cs-asserted', K(init, 'cs') + '[accept]', v == {'1'}, loc,
           'chip select must be asserted by the cycle that accepts a transfer: evaluates to %s' % sorted(v))
    idle_env = None
    if len(acc_env) == 1:
        idle_env = {k: not p for k, p in acc_env.items()}
    ctx.need(idle_env is not None, 'single-literal accepting guard (start_transfer)')
    v, loc = _vals(ctx, ir, fsm, CS, init, idle_env, allowed={'0'})
    ctx.ob('C53.cs-released', K(init, 'cs') + '[idle]', v == {'0'}, loc,
           'chip select must be de-asserted while idle: evaluates to %s' % sorted(v))
    for s in body:
        v, loc = _vals(ctx, ir, fsm, CS, s, allowed={'1', 'hold'})
        ctx.ob('C53.cs-held', K(s, 'cs'), v <= {'1', 'hold'}, loc,
               'chip select must stay asserted until the transaction ends: phy.cs after state %s (%s) evaluates to %s' % (
                   s, R(s), sorted(v)))
    for e in fsm.in_edges(init):
        v, loc = _vals(ctx, ir, fsm, CS, e.src, edge=e, allowed={'0'})
        ctx.ob('C53.cs-released', '%s.cs@%s->init' % (CLS, R(e.src)), v == {'0'}, e.loc,
               'the initial state can accept a new transfer in its first cycle, so the cycle that returns to it must '
               'de-assert chip select; otherwise two transactions share one chip-select assertion and the second command '
               'word is taken as data: phy.cs on %s -> %s evaluates to %s' % (e.src, init, sorted(v)))
    for s in cmds + [lat, rd, wr]:
        v, loc = _vals(ctx, ir, fsm, CLK, s, allowed={'1'})
        ctx.ob('C53.clock-runs', K(s, 'clk_en'), v == {'1'}, loc,
               'the bus clock must run in command, latency and data phases: phy.clk_en after state %s (%s) evaluates to %s' % (
                   s, R(s), sorted(v)))

    # ---------------------------------------------------------------- (d) latency
    Z = '0 == ' + cnt
    combos = (('register-write', dict(REG, **WRITE)), ('register-read', dict(REG, **READ)),
              ('memory-write', dict(MEM, **WRITE)), ('memory-read', dict(MEM, **READ)))
    lat_latch = [a.lhs.canon() for a in ir.assigns if a.domain == fsm.domain and isinstance(a.rhs, E) and
                 a.rhs.canon() == 'self.phy.rwds.i' and a.lhs.op == 'sig' and q.state_of(a) not in (rd, None)]
    cs_i = ir.signals.get(cnt)
    ctx.need(cs_i is not None and cs_i.w is not None, 'latency counter shape')
    cmax = min((cs_i.rng[1] - 1) if cs_i.rng else (1 << cs_i.w) - 1, (1 << cs_i.w) - 1)
    for name, env in combos:
        o = _next(fsm, last, env)
        want = wr if name == 'register-write' else lat
        ctx.ob('C53.latency-entry', '%s.next@%s[%s]' % (CLS, R(last), name), set(o) == {want}, fsm.state_loc[last],
               'after the last command word a %s must go to the %s state: outcomes %s' % (
                   name, 'write (zero latency)' if want == wr else 'latency', sorted(map(R, o))))
        if want != lat:
            continue
        ws = [(e2, a) for e2, a, dst in _wins(ctx, ir, fsm, cnt, last, env) if dst == lat]
        good = bool(ws)
        seen = set()
        for e2, a in ws:
            want_v = LOAD_2X
            if lat_latch and lat_latch[0] in e2 and not e2[lat_latch[0]]:
                want_v = LOAD_1X
            got = _val(a, e2)
            seen.add(got)
            good = good and got == str(want_v)
        ctx.ob('C53.latency-count', '%s.latency-load[%s]' % (CLS, name), good, ws[0][1].loc if ws and ws[0][1] is not None else fsm.state_loc[last],
               'entering the latency state for a %s must load the counter with 2*%d-2 = %d (%d only where the latched RWDS '
               'says no extra latency): loads %s' % (name, LATENCY_COUNT, LOAD_2X, LOAD_1X, sorted(seen)))
    ctx.ob('C53.latency-count', CLS + '.latency-counter.range', LOAD_2X <= cmax, cs_i.loc,
           'counter %s declared %s (max %d) must hold the load value %d' % (cnt, cs_i.shape_src, cmax, LOAD_2X))
    here = [a for a in ir.drivers(cnt, exact=True) if q.state_of(a) == lat]
    ctx.ob('C53.latency-count', CLS + '.latency-counter.decrement', here == dec and not dec[0].guard, dec[0].loc,
           'the latency state must decrement the counter by one every cycle and nothing else: %s' % [q.fmt(a) for a in here])
    o = _next(fsm, lat, {Z: False})
    ctx.ob('C53.latency-wait', '%s.next@latency[counting]' % CLS, set(o) == {None}, fsm.state_loc[lat],
           'the latency state must stay while the counter is not 0: outcomes %s' % sorted(map(R, o)))
    for name, env, want in (('read', READ, rd), ('write', WRITE, wr)):
        o = _next(fsm, lat, dict(env, **{Z: True}))
        ctx.ob('C53.latency-wait', '%s.next@latency[%s]' % (CLS, name), set(o) == {want}, fsm.state_loc[lat],
               'when the counter reaches 0 a %s (command bit 47 = %d) must enter the %s state: outcomes %s' % (
                   name, name == 'read', name, sorted(map(R, o))))
    for s in (rd, wr):
        for e in fsm.in_edges(s):
            ok = e.src == lat or (s == wr and e.src == last)
            ctx.ob('C53.latency-wait', '%s.entry@%s<-%s' % (CLS, R(s), R(e.src)), ok, e.loc,
                   'the %s state may be entered only through the latency state%s: %s' % (
                       R(s), ' (or directly for a register write)' if s == wr else '', q.fmt(e)))

    # ---------------------------------------------------------------- (e) end of transaction
    FW = 'self.final_word'
    o = _next(fsm, rd, {FW: False})
    ctx.ob('C53.ends-on-final-word', '%s.next@read[not-final]' % CLS, set(o) == {None}, fsm.state_loc[rd],
           'a read may end only under final_word: outcomes with final_word=0 are %s' % sorted(map(R, o)))
    o = _next(fsm, wr, dict(MEM, **{FW: False}))
    ctx.ob('C53.ends-on-final-word', '%s.next@write[memory,not-final]' % CLS, set(o) == {None}, fsm.state_loc[wr],
           'a memory write may end only under final_word: outcomes with final_word=0 are %s' % sorted(map(R, o)))
    for s, env in ((rd, {FW: True}), (wr, dict(MEM, **{FW: True}))):
        o = _next(fsm, s, env)
        left = {d for d in o if d is not None}
        ctx.ob('C53.ends-on-final-word', '%s.next@%s[final]' % (CLS, R(s)), bool(left) and left <= set(ends) | {init}, fsm.state_loc[s],
               'under final_word the %s state must be able to end the transaction, and only into an end/initial state: '
               'outcomes %s' % (R(s), sorted(map(R, o))))
    o = _next(fsm, wr, REG)
    ctx.ob('C53.ends-on-final-word', '%s.next@write[register]' % CLS, {d for d in o} <= set(ends) | {init, None}, fsm.state_loc[wr],
           'a register write may only end into an end/initial state: outcomes %s' % sorted(map(R, o)))

    # ---------------------------------------------------------------- (f) no history from an earlier transaction
    # A register that the read state writes from the PHY inputs and consults in a guard (the previous half-cycle sample
    # used to recognise data when the clock is inverted) carries history: whatever the previous transaction left in it
    # is seen in the first cycle of the next read phase, where it can fake "the memory strobed RWDS" before the latency
    # has passed.  Its possible values on every entry into the read state must be its reset value only.
    hist = set()
    for x in list(fsm.out_edges(rd)) + [a for a in ir.assigns if a.state == (fsm.id, rd)]:
        for l in x.guard:
            if isinstance(l.e, E):
                for n in l.e.sigs():
                    ds = ir.drivers(n, exact=True)
                    if ds and any(d.domain != 'comb' and d.state == (fsm.id, rd) for d in ds) and not n.startswith('self.'):
                        hist.add(n)
    ctx.need(hist, 'the history register consulted by the read state (previous half-cycle RWDS sample)')
    for h in sorted(hist):
        si = ir.signals[h]
        after, possible = reg_flow(ir, fsm, h)
        reset = (si.init or 0) & ((1 << (si.w or 1)) - 1)
        for e in fsm.in_edges(rd):
            if e.src == rd:
                continue
            got = after(e, possible[e.src])
            ctx.ob('C53.no-stale-history', '%s.%s@%s->read' % (CLS, h, R(e.src)), got == {reset}, e.loc,
                   'the register %s is consulted by a guard of the read state before that state has written it in this '
                   'transaction: on entry it must hold its reset value %d whatever the previous transaction left behind; '
                   'possible values on entry: %s' % (h, reset, sorted(map(str, got))))
