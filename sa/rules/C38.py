"""C38 -- link re-entry always re-advertises sequence number and credits."""
from ..ir import E, literals
from .. import q
from ..fsm import reachable

TITLE = 'link re-entry re-advertisement'
FLOOR = 8
DECIDES = ('(a) edge-triggered reset must be state-independent: the block of HeaderPacketReceiver that prepares the next '
           'advertisement (acks_to_send <- 1, credits_to_issue <- buffer count, pointers/flags cleared) is triggered by the '
           'transient events "enable falls" and "usb_reset"; each event must either be evaluated in every FSM state / '
           'outside the FSM, or be latched (set outside the FSM under exactly that event, cleared only inside the block) '
           'with the latch among the block triggers, and the state holding the block must be reachable from every state '
           'without depending on enable; (b) the block restores every piece of receive state: acks_to_send=1, '
           'credits_to_issue=buffer_count, next_credit_to_issue=0, read/write pointers=0, buffers_filled=0, '
           'lrty/lbad/keepalive/ignore flags=0, and on usb_reset also expected_sequence_number=0 and next_header_to_ack=-1; '
           '(c) dispatch order LGOOD before LCRD before LBAD, and nothing is dispatched while disabled; (d) the link layer '
           'wires enable <- ltssm.link_ready and usb_reset <- in_reset; (e) with a latched event pending the block fires whenever '
           'its state is reached, whatever else holds there (in particular with enable high again); (f) with the flags the block clears '
           'at 0 and every flag it does not clear left free, the next command dispatched is LGOOD, then LCRD. ')
NOT_DECIDED = 'link commands that are still completed after the link went down; the partner side.'


def disjuncts(e):
    if isinstance(e, E) and e.op == '|':
        out = []
        for a in e.args:
            out += disjuncts(a)
        return out
    return [e]


def run(ctx):
    ir = ctx.ir('HeaderPacketReceiver', 'usb3.link.receiver')
    fsm = ctx.the_fsm(ir)
    acks = [a for a in ir.drivers('acks_to_send', exact=True) if q.is_one(a.rhs)]
    ctx.need(len(acks) == 1, 'the re-advertisement block (acks_to_send <- 1)')
    blk = acks[0]
    bstate = q.state_of(blk)
    trig_lits = [l for l in blk.guard if l.pos and isinstance(l.e, E)]
    ctx.need(trig_lits, 'trigger of the re-advertisement block')
    trig = disjuncts(trig_lits[-1].e)
    tcanon = [t.canon() for t in trig]
    events = {'disable-edge': 'last_enable & ~self.enable', 'usb-reset': 'self.usb_reset'}
    for ev, expr in events.items():
        direct = expr in tcanon
        if bstate is None:
            ctx.ob('C38.event-not-lost', 'HeaderPacketReceiver.' + ev, direct, blk.loc,
                   'event %s must trigger the re-advertisement block' % expr)
            continue
        # block lives in one FSM state: the event must be latched
        latch = None
        for t in trig:
            if t.op != 'sig':
                continue
            name = t.args[0].name
            sets = [a for a in ir.drivers(name, exact=True) if q.is_one(a.rhs)]
            clrs = [a for a in ir.drivers(name, exact=True) if q.is_zero(a.rhs)]
            for s in sets:
                if s.state is None and _guard_is(s, expr):
                    if clrs and all(q.atoms(c) == q.atoms(blk) and c.state == blk.state for c in clrs) and \
                            all(c.order > s.order for c in clrs):
                        latch = name
        ctx.ob('C38.event-not-lost', 'HeaderPacketReceiver.' + ev, bool(latch) and direct is not None, blk.loc,
               'the re-advertisement block sits in FSM state %s only, and the transient event (%s) is not latched until '
               'that state is reached: an event arriving in another state is lost (block triggers: %s)' % (
                   bstate, expr, tcanon))
    # a pending (latched) event must run the block as soon as its state is reached -- whatever else holds there, in
    # particular whether or not the receiver has been re-enabled in the meantime
    from ..fsm import lit_atoms, assignments, holds
    atoms_ = []
    for l in blk.guard:
        atoms_ += list(lit_atoms(l))
    for t in trig:
        if t.op != 'sig':
            continue
        name = t.canon()
        missed = [asg for asg in assignments(atoms_, {name: True}) if not holds(blk.guard, asg)]
        ctx.ob('C38.pending-event-served', 'HeaderPacketReceiver.block-fires@' + name, not missed, blk.loc,
               'with the latched event %s pending the re-advertisement block must run whenever its state is reached; it does '
               'not when %s' % (name, {k: v for k, v in (missed[0] if missed else {}).items() if k != name}))
    if bstate is not None:
        # the block's state must be reachable from every state on edges that do not need `enable`
        for st in fsm.states:
            if st == bstate:
                continue
            r = reachable(fsm, st, edge_ok=lambda e: not any('self.enable' in a for a, p in q.atoms(e)))
            ctx.ob('C38.returns-to-dispatch', 'HeaderPacketReceiver.state#%d' % fsm.states.index(st), bstate in r,
                   fsm.state_loc[st], 'state %s must return to the dispatch state without needing enable' % st)
    # (b) completeness of the restore
    bg = q.atoms(blk)
    n_buf = 4
    want = {'acks_to_send': 1, 'credits_to_issue': n_buf, 'next_credit_to_issue': 0, 'read_pointer': 0, 'write_pointer': 0,
            'buffers_filled': 0, 'self.lrty_pending': 0, 'lbad_pending': 0, 'keepalive_pending': 0, 'ignore_packets': 0}
    for reg, val in want.items():
        ds = [a for a in ir.drivers(reg, exact=True) if q.atoms(a) == bg and a.state == blk.state]
        ok = len(ds) == 1 and ds[0].rhs.op == 'const' and ds[0].rhs.val == val
        ctx.ob('C38.restore', 'HeaderPacketReceiver.restore.' + reg, ok, ds[0].loc if ds else blk.loc,
               'on re-entry %s must be set to %d: %s' % (reg, val, [q.fmt(d) for d in ds]))
    # later statements win: nothing after the block in program order may override it in the same state unconditionally
    for reg, val in (('expected_sequence_number', 0), ('next_header_to_ack', -1)):
        ds = [a for a in ir.drivers(reg, exact=True) if bg <= q.atoms(a) and a.state == blk.state and a.rhs.op == 'const']
        ok = len(ds) == 1 and ds[0].rhs.val in (val, val & 7) and \
            any('usb_reset' in a for a, p in (q.atoms(ds[0]) - bg) if p)
        ctx.ob('C38.restore', 'HeaderPacketReceiver.restore-on-reset.' + reg, ok, ds[0].loc if ds else blk.loc,
               'on USB reset %s must restart at %d: %s' % (reg, val, [q.fmt(d) for d in ds]))
    # (c) dispatch order: exact outcomes
    from ..fsm import state_outcomes
    if bstate is not None:
        en = 'self.enable'
        o = state_outcomes(fsm, bstate, {en: False})
        ctx.ob('C38.dispatch', 'HeaderPacketReceiver.no-dispatch-while-disabled', set(o) == {None}, fsm.state_loc[bstate],
               'nothing may be dispatched while disabled: %s' % sorted(map(str, o)))
        gen = {}
        for a in ir.assigns:
            if a.lhs.canon() == 'lc_generator.command' and a.state:
                gen[q.state_of(a)] = a.rhs.label or a.rhs.canon()
        base = {en: True, 'self.lrty_pending': False, 'lxu_pending': False, 'keepalive_pending': False}
        def go(**kw):
            asg = dict(base)
            asg.update({'acks_to_send': False, 'credits_to_issue': False, 'lbad_pending': False})
            asg.update(kw)
            out = state_outcomes(fsm, bstate, asg)
            return {gen.get(s, s) for s in out}
        # right after the re-advertisement block ran, acks_to_send and credits_to_issue are set and every flag the block
        # clears is 0; whatever the block does NOT clear (a pending LXU, ...) may still be set -- and must not get ahead of the
        # advertisement: with the cleared flags at 0 and all other conditions free the next command is LGOOD, then LCRD
        cleared = {r: False for r, v in want.items() if v == 0 and r in ('self.lrty_pending', 'lbad_pending', 'keepalive_pending')}
        for nm, asg in (('lgood-first', dict(cleared, **{en: True, 'acks_to_send': True, 'credits_to_issue': True})),
                        ('then-lcrd', dict(cleared, **{en: True, 'acks_to_send': False, 'credits_to_issue': True}))):
            o_ = state_outcomes(fsm, bstate, asg)
            got = {gen.get(s_, s_) for s_ in o_}
            wantc = 'LGOOD' if nm == 'lgood-first' else 'LCRD'
            ctx.ob('C38.advertisement-first', 'HeaderPacketReceiver.' + nm, len(got) == 1 and wantc in str(got), fsm.state_loc[bstate],
                   'after re-entry the receiver begins with LGOOD and then its LCRDs: with the flags the re-advertisement block '
                   'clears at 0 and everything it does not clear left free, the dispatched command must be %s; possible: %s' % (
                       wantc, sorted(map(str, got))))
        r1 = go(acks_to_send=True, credits_to_issue=True, lbad_pending=True)
        r2 = go(credits_to_issue=True, lbad_pending=True)
        r3 = go(lbad_pending=True)
        ok = all(len(r) == 1 for r in (r1, r2, r3)) and 'LGOOD' in str(r1) and 'LCRD' in str(r2) and 'LBAD' in str(r3)
        ctx.ob('C38.dispatch', 'HeaderPacketReceiver.order', ok, fsm.state_loc[bstate],
               'dispatch priority must be LGOOD, then LCRD, then LBAD: %s %s %s' % (r1, r2, r3))
    # (d) wiring in the link layer
    ll = ctx.ir('USB3LinkLayer', 'usb3.link.layer', allow_opaque=True)
    for lhs, rhs in (('header_rx.enable', 'ltssm.link_ready'), ('header_rx.usb_reset', 'self.in_reset')):
        ds = ll.drivers(lhs, exact=True)
        ok = len(ds) == 1 and ds[0].rhs.canon() == rhs and not ds[0].guard
        ctx.ob('C38.wiring', 'USB3LinkLayer.' + lhs, ok, ds[0].loc if ds else None, '%s <= %s: %s' % (lhs, rhs, [q.fmt(d) for d in ds]))
    ir_ = ll.drivers('self.in_reset', exact=True)
    # in_reset = hot reset request | usb reset, the latter read back from the LTSSM input or taken from what drives it
    ok = len(ir_) == 1 and not ir_[0].guard
    if ok:
        def dj(e):
            return {d.canon() for d in q.disjuncts(q.expand(ll, e))}
        got = dj(ir_[0].rhs)
        src = q.comb_def(ll, 'ltssm.in_usb_reset')
        ok = got == {'ltssm.in_usb_reset', 'ltssm.request_hot_reset'} or \
            (src is not None and got == dj(src) | {'ltssm.request_hot_reset'})
    ctx.ob('C38.wiring', 'USB3LinkLayer.in_reset', ok, ir_[0].loc if ir_ else None, 'in_reset = hot reset request | usb reset')


def _guard_is(a, expr):
    """Is the guard of `a` exactly the condition `expr` (canonical text of the conjunction)?"""
    lits = sorted(l.canon() for l in a.guard)
    target = sorted(x.strip() for x in expr.replace('~', '!').split('&'))
    norm = []
    for t in target:
        norm.append('!(%s)' % t[1:] if t.startswith('!') else t)
    return lits == sorted(norm)

