"""C05 -- inter-packet response timing matches the selected bus speed."""
from ..ir import E, AnalysisError
from .. import q
from ..num import Stepper, NoEval

TITLE = 'inter-packet timing per speed'
FLOOR = 8            # 3 fan-out + 3 semantic (one per speed) + 3 wiring; the structural comparator obligations come on top when they apply
DECIDES = ('(a) in USBInterpacketTimer each speed arm (HIGH / FULL / otherwise=LOW) compares the gap counter with the '
           'cycle counts documented for that speed -- HS (1, 24, 92), FS@60MHz (10, 32, 80), FS@12MHz (2, 7, 16), '
           'LS (80, 260, 640) -- after folding the class tables and __init__ bindings; (b) the counter can '
           'represent every compared value; the extracted timer composed with a reference monitor (cycles since the last '
           'restart) is explored exhaustively under both values of the start strobe in every cycle: in every reachable state '
           'the three strobes are exactly "restart was K cycles ago" for the documented K of the selected speed -- whatever '
           'the start pattern, formulation independent; (c) the three '
           'strobes fan out to every interface; (d) USBDevice and USBTokenDetector drive the timer speed input '
           'from their speed signal. ')
NOT_DECIDED = 'cycle-exact latency of the consumers of the strobes.'

# documented cycle counts [USB2 7.1.18, ULPI 1.1 fig. 18]: (min gap, max gap, rx timeout)
SPEC = {
    60e6: {'HIGH': (1, 24, 92), 'FULL': (10, 32, 80), 'LOW': (80, 260, 640)},
    12e6: {'FULL': (2, 7, 16)},
}
SPEED = {'HIGH': 0, 'FULL': 1, 'LOW': 2}


def arm_of(a):
    """Which speed arm an assignment lies in, from the `K == self.speed` literals of its guard."""
    ks = q.guard_consts(a, 'self.speed')
    if ks.get(0) is True:
        return 'HIGH'
    if ks.get(1) is True:
        return 'FULL'
    if ks.get(2) is True:
        return 'LOW'
    if ks.get(0) is False and ks.get(1) is False:
        return 'LOW'
    return None


def _comparators(ctx, ir, outs, spec, fs_only, tag):
    """Structural obligations on the comparator constants of each speed arm; returns (counter name, constants)."""
    counter = None
    compared = []
    for idx, role in enumerate(('min', 'max', 'rx')):
        seen_arms = set()
        for a in ir.drivers(outs[role], exact=True):
            arm = arm_of(a)
            key = 'USBInterpacketTimer.%s.%s[%s]' % (arm, role, tag)
            ce = q.const_eq(a.rhs)
            if arm is None or ce is None:
                ctx.ob('C05.value', key, False, a.loc, 'strobe driven outside a speed arm or not by a comparison '
                       'with a constant: %s' % q.fmt(a))
                continue
            seen_arms.add(arm)
            counter = counter or ce[1]
            compared.append(ce[0])
            want = spec.get(arm)
            if want is None:
                ctx.ob('C05.value', key, False, a.loc, 'no documented timing for speed %s at this clock but the arm '
                       'drives the strobe' % arm)
                continue
            ctx.ob('C05.value', key, ce[0] == want[idx] and ce[1] == counter, a.loc,
                   'speed %s: %s strobe compares %s with %r, documented value is %d' % (arm, role, ce[1], ce[0], want[idx]))
        for arm in spec:
            if fs_only and arm != 'FULL':
                continue
            ctx.ob('C05.arm-present', 'USBInterpacketTimer.%s.%s[%s]' % (arm, role, tag), arm in seen_arms, None,
                   'speed %s must drive the %s strobe' % (arm, role))
        if fs_only:
            extra = seen_arms - {'FULL'}
            ctx.ob('C05.fs-only', 'USBInterpacketTimer.%s[%s]' % (role, tag), not extra, None,
                   'fs_only configuration drives %s strobe in arms %s' % (role, sorted(extra)))
    return counter, compared


def check_config(ctx, clock, fs_only):
    tag = '%dMHz%s' % (clock / 1e6, ',fs_only' if fs_only else '')
    ir = ctx.ir('USBInterpacketTimer', 'usb2.packet', domain_clock=clock, fs_only=fs_only)
    elem = 'self._interfaces[*]'
    spec = SPEC[clock]
    for port in ('tx_allowed', 'tx_timeout', 'rx_timeout'):
        ds = ir.drivers('%s.%s' % (elem, port), exact=True)
        ctx.need(ds, 'USBInterpacketTimer drives interface.%s' % port)
        ctx.ob('C05.fanout', 'USBInterpacketTimer.%s[%s]' % (port, tag), len(ds) == 1 and not ds[0].guard, ds[0].loc,
               'interface.%s has one unconditional driver, for every interface: %s' % (port, [q.fmt(d) for d in ds]))
    # --- structural reading of the comparators (precise diagnostics).  It applies when each interface strobe is a plain
    # combinational copy of one local comparator signal, as in the tree; a differently organised timer (registered outputs,
    # a preloaded counter, ...) is judged by the semantic obligation below alone.
    outs, plain = {}, True
    for role, port in (('min', 'tx_allowed'), ('max', 'tx_timeout'), ('rx', 'rx_timeout')):
        ds = ir.drivers('%s.%s' % (elem, port), exact=True)
        if len(ds) == 1 and ds[0].domain == 'comb' and isinstance(ds[0].rhs, E) and ds[0].rhs.op == 'sig' and not ds[0].guard:
            outs[role] = ds[0].rhs.args[0].name
        else:
            plain = False
    counter, compared, si = None, [], None
    # ... and when every comparator sits in exactly one speed arm (If / Elif / Else over self.speed); a baseline-plus-override
    # organisation is, again, judged semantically
    if plain:
        for role in outs:
            for a in ir.drivers(outs[role], exact=True):
                if arm_of(a) is None or q.const_eq(a.rhs) is None:
                    plain = False
    if plain:
        counter, compared = _comparators(ctx, ir, outs, spec, fs_only, tag)
        si = ir.signals.get(counter) if counter else None
    else:
        ctx.note('C05[%s]: the strobes are not plain copies of per-speed-arm comparators; the comparator constants are decided by '
                 'the semantic obligation only' % tag)
    if si is not None and si.rng is not None and compared:
        hi, mx = si.rng[1], max(compared)
        ctx.ob('C05.counter-range', 'USBInterpacketTimer.counter[%s]' % tag, hi >= mx + 1, si.loc,
               'counter range(0,%s) must cover the largest compared value %d' % (hi, mx))
    loc0 = si.loc if si is not None else ir.drivers('%s.tx_allowed' % elem, exact=True)[0].loc
    # counter update and strobes, decided semantically: the extracted one-cycle relation of the timer is composed with a
    # reference monitor ("cycles since the counter was last restarted", saturating) and ALL reachable product states are
    # explored under both values of the start strobe in every cycle -- no stimulus is chosen.  In every reachable state the
    # three interface strobes must be exactly "restart was K cycles ago" for the documented K of the selected speed.  This
    # is independent of how the counter is written down (clear + saturating increment, preload with registered outputs, ...).
    start = '%s.start' % elem
    ports = {'min': '%s.tx_allowed' % elem, 'max': '%s.tx_timeout' % elem, 'rx': '%s.rx_timeout' % elem}
    try:
        st = Stepper(ir)
    except AnalysisError as ex:
        ctx.need(False, 'one-cycle semantics of USBInterpacketTimer (%s)' % ex)
    for arm, want in sorted(spec.items()):
        if fs_only and arm != 'FULL':
            continue
        M = max(want) + 1
        regs0 = tuple(st.inits.get(r, 0) for r in st.regs)
        # the monitor starts as None: before the first start strobe nothing is measured (what the strobes do between reset
        # and the first start is not part of the property)
        seen, work, bad, n_eval = {(regs0, None)}, [(regs0, None)], None, 0
        while work and bad is None:
            regs, since = work.pop()
            for go in (0, 1):
                env = dict(zip(st.regs, regs))
                env.update({start: go, 'self.speed': SPEED[arm]})
                try:
                    cur, nxt = st.step(env)
                except NoEval as ex:
                    ctx.need(False, 'USBInterpacketTimer evaluates under start/speed alone (%s)' % ex)
                n_eval += 1
                for i, role in enumerate(('min', 'max', 'rx')):
                    if since is None:
                        break
                    exp = int(since == want[i])
                    if cur.get(ports[role], 0) != exp and bad is None:
                        bad = '%s strobe is %d, expected %d, %d cycle(s) after the most recent restart of the gap counter ' \
                              '(registers %s, start=%d)' % (role, cur.get(ports[role], 0), exp, since, dict(zip(st.regs, regs)), go)
                nx = (tuple(nxt[r] for r in st.regs), 0 if go else (None if since is None else min(since + 1, M)))
                if nx not in seen:
                    seen.add(nx)
                    work.append(nx)
        ctx.need(bad is not None or len(seen) > max(want), 'product exploration of USBInterpacketTimer reached the strobe counts')
        ctx.ob('C05.strobe-exact', 'USBInterpacketTimer.%s.strobes[%s]' % (arm, tag), bad is None, loc0,
               'at speed %s each strobe must be raised exactly %s cycles after the cycle in which the gap counter was last '
               'restarted by a start strobe (tx_allowed / tx_timeout / rx_timeout), for every pattern of start strobes; '
               '%d product states, %d evaluations; %s' % (arm, want, len(seen), n_eval, bad or 'holds'))


def run(ctx):
    check_config(ctx, 60e6, False)
    check_config(ctx, 12e6, True)          # the full-speed-only device clock (USBDevice on a 12 MHz PHY): its own delay table
    if ctx.tier == 'thorough':
        check_config(ctx, 60e6, True)
    # wiring of the speed input (property anchors device.py)
    for cls, mod in (('USBDevice', 'usb2.device'), ('USBTokenDetector', 'usb2.packet')):
        ir = ctx.ir(cls, mod, allow_opaque=True)
        hits = [a for a in ir.assigns if isinstance(a.lhs, E) and a.lhs.op == 'sig'
                and a.lhs.args[0].name.endswith('timer.speed')]
        ok = len(hits) == 1 and isinstance(hits[0].rhs, E) and hits[0].rhs.canon() == 'self.speed' and not hits[0].guard
        ctx.ob('C05.speed-wiring', cls + '.timer.speed', ok, hits[0].loc if hits else None,
               '%s must drive its inter-packet timer speed from self.speed unconditionally: %s' % (
                   cls, [q.fmt(a) for a in hits]))
    dev = ctx.ir('USBDevice', 'usb2.device', allow_opaque=True)
    sp = dev.drivers('self.speed', exact=True)
    ok = len(sp) == 1 and isinstance(sp[0].rhs, E) and sp[0].rhs.canon().endswith('reset_sequencer.current_speed')
    ctx.ob('C05.speed-source', 'USBDevice.speed', ok, sp[0].loc if sp else None,
           'USBDevice.speed must come from the reset sequencer\'s current_speed: %s' % [q.fmt(a) for a in sp])
    # every signal on the way from the reset sequencer to the timer must hold all three speeds (LOW = 2 needs two bits): a
    # narrower hop truncates LOW to HIGH silently and the low-speed device runs with high-speed gaps
    hops = [(dev, 'self.speed', 'USBDevice.speed')]
    tk = ctx.ir('USBTokenDetector', 'usb2.packet', allow_opaque=True)
    hops.append((tk, 'self.speed', 'USBTokenDetector.speed'))
    tm = ctx.ir('USBInterpacketTimer', 'usb2.packet')
    hops.append((tm, 'self.speed', 'USBInterpacketTimer.speed'))
    for ir_, nm, key in hops:
        si_ = ir_.signals.get(nm)
        w_ = getattr(si_, 'w', None)
        ctx.ob('C05.speed-width', key, isinstance(w_, int) and w_ >= 2, getattr(si_, 'loc', None),
               '%s must be at least 2 bits wide to carry USBSpeed.LOW = 2 (declared width %s, shape %s)' % (
                   key, w_, getattr(si_, 'shape_src', None)))
