"""C51 -- the SPI register interface reads and writes exactly the addressed register."""
import ast
import itertools

from ..ir import E, AnalysisError, ModuleIR, Obj, literals
from .. import q
from ..fsm import reaches, assignments, holds, guard_atoms, consistent, find_path

TITLE = 'SPI register transactions'
FLOOR = 100
DECIDES = ('SPICommandInterface, for several (command_size, word_size) pairs: (a) framing -- the bit counter can hold '
           'max(command_size, word_size); in the command state exactly command_size bits and in the data state exactly '
           'word_size bits are shifted in (the set of counter values that shift is 0..size-1, the completion arm fires '
           'first at size), one bit per detected falling edge of sck (registered copy high, live low), sdi entering at the '
           'LSB (MSB first), the counter stepping by one with every shift; (b) the counter is provably zero on every '
           'entry into the command state and into the data state (clear-wins-on-edge dataflow over the FSM, incl. reset '
           'value); (c) abort -- with CS low and an incomplete count the command state and the data state leave (last '
           'm.next wins) to a state from which the data state is only reachable through a new command; (d) word_complete '
           'has an unconditional default of 0, is raised only in the data state under the completion comparison together '
           'with word_received <= shift register, and that arm leaves to a state that cannot re-enter the data state '
           'without a new command (one strobe per transaction); (e) command is written only in the command state, only from the command shifter, and is '
           'loaded whenever that state proceeds to the data phase (stable through the data phase); (f) the response is '
           'latched from word_to_send in a state that lies on every path command -> data and after the command register '
           'was loaded, sdo is the MSB of the latched shift register (never the live word_to_send), nothing else writes '
           'the shifters.  SPIRegisterInterface, for concrete register maps built through its public add_* API (memory '
           'registers, explicit strobes, SFRs, read-only, write-only/none, auto-negotiation, non-monotonic insertion '
           'order): (g) the transceiver is built with command_size = address_size+1 / word_size = register_size and wired '
           'to the bus; (h) truth tables over {write bit, address in configured+unassigned, word_complete}: each write '
           'strobe == W & word_complete & (address == own), each read strobe == ~W & word_complete & (address == own), '
           'with W the first (most significant) command bit and address the remaining bits; (i) a memory register has a '
           'single update, taken exactly when its own write strobe is, loading word_received; SFR write signals follow '
           'word_received; (j) the read multiplexer, evaluated with last-assignment-wins for every configured and some '
           'unassigned addresses, selects that register\'s read value, all-ones for the auto-negotiation register and '
           'default_read_value otherwise -- the address space sampled contains every configured address, a few free ones and every '
           'address that differs from a configured one in exactly one bit (so a decoder ignoring any single address bit is seen); after a '
           'complete data word the command state is reachable only through an edge that requires chip select released. ')
NOT_DECIDED = ('cycle-level timing against a real SPI host (sck synchronisation, set-up of sdo before the first clock), '
               'behaviour when more bits than one transaction are clocked, the JTAG variant.')

CS = 'self.spi.cs'
SCK = 'self.spi.sck'
SDI = 'self.spi.sdi'
SDO = 'self.spi.sdo'


# ------------------------------------------------------------------------------------------------ tiny evaluator
def _w(ir, e):
    if not isinstance(e, E):
        return None
    if e.op in ('==', '!=', '<', '<=', '>', '>=', 'ongoing'):
        return 1
    if e.op == 'sig':
        si = ir.signals.get(e.args[0].name)
        return (si.w if si is not None and si.w else e.w)
    if e.op == 'slice':
        return e.args[2] - e.args[1]
    if e.op in ('&', '|', '^'):
        ws = [_w(ir, a) for a in e.args]
        return None if any(x is None for x in ws) else max(ws)
    if e.op == '~':
        return _w(ir, e.args[0])
    return e.w


def ev(ir, e, env, depth=0):
    """Value of an expression under env (signal name -> int), following unconditional combinational definitions.
    None when something is not known."""
    if isinstance(e, bool):
        return int(e)
    if isinstance(e, int):
        return e
    if not isinstance(e, E):
        return None
    op = e.op
    if op == 'const':
        return e.val
    if op == 'sig':
        n = e.args[0].name
        if n in env:
            return env[n]
        if depth > 8:
            return None
        d = q.comb_def(ir, n)
        if d is None:
            return None
        v = ev(ir, d, env, depth + 1)
        w = _w(ir, e)
        return None if v is None else (v & ((1 << w) - 1) if w else v)
    vals = [ev(ir, a, env, depth) if isinstance(a, (E, bool)) else a for a in e.args]
    if op == 'slice':
        v, lo, hi = vals
        return None if v is None else (v >> lo) & ((1 << (hi - lo)) - 1)
    if any(v is None for v in vals):
        return None
    if op == '~':
        w = _w(ir, e.args[0])
        return None if not w else (~vals[0]) & ((1 << w) - 1)
    if op == '&':
        return _fold(vals, lambda a, b: a & b)
    if op == '|':
        return _fold(vals, lambda a, b: a | b)
    if op == '^':
        return _fold(vals, lambda a, b: a ^ b)
    if op == '+':
        return sum(vals)
    if op == '-' and len(vals) == 2:
        return vals[0] - vals[1]
    if len(vals) == 2 and op in ('==', '!=', '<', '<=', '>', '>='):
        a, b = vals
        return int({'==': a == b, '!=': a != b, '<': a < b, '<=': a <= b, '>': a > b, '>=': a >= b}[op])
    if op == 'cat':
        out, sh = 0, 0
        for a, v in zip(e.args, vals):
            w = _w(ir, a)
            if not w:
                return None
            out |= (v & ((1 << w) - 1)) << sh
            sh += w
        return out
    if op == 'mux':
        return vals[1] if vals[0] else vals[2]
    return None


def _fold(vals, f):
    out = vals[0]
    for v in vals[1:]:
        out = f(out, v)
    return out


def guard_true(ir, item, env):
    """True/False/None: does the guard of item hold under env?"""
    unknown = False
    for l in item.guard:
        if l.kind == 'cfg':
            return None
        v = ev(ir, l.e, env)
        if v is None:
            unknown = True
        elif bool(v) != l.pos:
            return False
    return None if unknown else True


def resolves_to(ir, e, target, width=None):
    """Does e (through unconditional comb definitions of locals, and a low slice) denote signal `target`?"""
    for _ in range(6):
        if not isinstance(e, E):
            return False
        if e.op == 'slice' and e.args[1] == 0:
            e = e.args[0]
            continue
        if e.op == 'sig':
            n = e.args[0].name
            if n == target:
                return True
            d = q.comb_def(ir, n)
            if d is None:
                return False
            e = d
            continue
        return False
    return False


# ------------------------------------------------------------------------------------------------ command interface
def _only_reads(e, name):
    return isinstance(e, E) and e.sigs() == {name}


def counter_values(ir, item, cnt, width):
    """Counter values for which all counter-only literals of the item's guard hold; and the remaining atoms."""
    lits = [l for l in item.guard if _only_reads(l.e, cnt)]
    rest = {(a, p) for (a, p), l in zip(guard_atoms(item.guard), item.guard) if not _only_reads(l.e, cnt)}
    vals = set()
    for v in range(1 << width):
        ok = True
        for l in lits:
            r = ev(ir, l.e, {cnt: v})
            if r is None:
                raise AnalysisError('anchor vanished or not understood: counter comparison %s' % l.canon())
            if bool(r) != l.pos:
                ok = False
                break
        if ok:
            vals.add(v)
    return vals, rest


def zero_after(ir, fsm, cnt, e, seen):
    """Is the counter provably 0 in the cycle after edge e is taken?  -> (ok, why)"""
    src = e.src
    active = [a for a in ir.drivers(cnt, exact=True) if a.state is None or a.state == (fsm.id, src)]
    eg = dict(guard_atoms(e.guard))
    live = [a for a in active if consistent(a.guard, eg)]
    clears = [a for a in live if q.is_zero(a.rhs) and q.atoms(a) <= set(eg.items())]
    if clears:
        c = max(clears, key=lambda a: a.order)
        later = [a for a in live if not q.is_zero(a.rhs) and a.order > c.order]
        if later:
            return False, 'the clear in %s is overridden by the later %s' % (src, q.fmt(later[0]))
        return True, None
    dirty = [a for a in active if not q.is_zero(a.rhs)]
    if dirty:
        return False, 'edge %s -> %s does not clear the counter while %s can change it: %s' % (
            src, e.dst, src, q.fmt(dirty[0]))
    return zero_on_entry(ir, fsm, cnt, src, seen)


def zero_on_entry(ir, fsm, cnt, state, seen=frozenset()):
    if state in seen:
        return True, None
    seen = seen | {state}
    if state == fsm.init:
        si = ir.signals.get(cnt)
        if si is None or si.init not in (None, 0):
            return False, 'reset value of the counter is not 0'
    for e in fsm.in_edges(state):
        if e.src == state:
            continue
        ok, why = zero_after(ir, fsm, cnt, e, seen)
        if not ok:
            return False, why
    return True, None


def outcomes_when(ir, fsm, state, cnt, width, assume, want_values):
    """Next states (None = stays) over all guard-atom assignments extending `assume` whose counter literals admit at
    least one counter value in want_values."""
    edges = sorted(fsm.out_edges(state), key=lambda e: e.order)
    lit_of = {}
    for e in edges:
        for (a, _), l in zip(guard_atoms(e.guard), e.guard):
            lit_of[a] = l
    cnt_atoms = [a for a, l in lit_of.items() if _only_reads(l.e, cnt)]
    out = {}
    for asg in assignments(list(lit_of), assume):
        feasible = False
        for v in want_values:
            if all(bool(ev(ir, lit_of[a].e, {cnt: v})) == asg[a] for a in cnt_atoms):
                feasible = True
                break
        if not feasible:
            continue
        dst, win = None, None
        for e in edges:
            if holds(e.guard, asg):
                dst, win = e.dst, e
        out.setdefault(dst, (asg, win))
    return out


def check_command_interface(ctx, csz, wsz):
    tag = 'c%d,w%d' % (csz, wsz)
    K = 'SPICommandInterface.'
    ir = ctx.ir('SPICommandInterface', 'interface.spi', command_size=csz, word_size=wsz)
    fsm = ctx.the_fsm(ir)

    # ---- roles
    wc_raise = q.raises(ir, 'self.word_complete')
    ctx.need(len(wc_raise) >= 1, 'a site raising word_complete')
    cmd_loads = [a for a in ir.drivers('self.command', exact=True)]
    ctx.need(len(cmd_loads) >= 1, 'a driver of command')
    data_st = q.state_of(wc_raise[0])
    cmd_st = q.state_of(cmd_loads[0])
    ctx.need(data_st is not None and cmd_st is not None and data_st != cmd_st,
             'command / data states (word_complete and command are driven inside two different FSM states)')
    ctx.need(isinstance(cmd_loads[0].rhs, E) and cmd_loads[0].rhs.op == 'sig', 'command is loaded from a shift register')
    cmd_reg = cmd_loads[0].rhs.args[0].name
    wr_loads = [a for a in ir.drivers('self.word_received', exact=True)]
    ctx.need(len(wr_loads) >= 1 and isinstance(wr_loads[0].rhs, E) and wr_loads[0].rhs.op == 'sig',
             'word_received is loaded from a shift register')
    data_reg = wr_loads[0].rhs.args[0].name
    # the counter: the one signal that is compared with a constant in the guards of the shifts / completion arms
    cands = set()
    sites = list(wc_raise) + list(cmd_loads) + [a for a in ir.drivers(data_reg, exact=True) + ir.drivers(cmd_reg, exact=True)
                                               if isinstance(a.rhs, E) and SDI in a.rhs.sigs()]
    for a in sites:
        for l in a.guard:
            if isinstance(l.e, E) and len(l.e.sigs()) == 1 and l.e.op in ('<', '<=', '>', '>=', '==') and \
                    any(x.op == 'const' for x in l.e.args):
                cands |= l.e.sigs()
    ctx.need(len(cands) == 1, 'the bit counter (one signal compared with a constant in the guards of the shifts and '
                              'completion arms; found %s)' % sorted(cands))
    cnt = cands.pop()
    si = ir.signals.get(cnt)
    ctx.need(si is not None and si.w, 'declaration of the bit counter')
    width = si.w

    # ---- (a) counter range
    need = max(csz, wsz)
    ok = (1 << width) > need and (si.rng is None or si.rng[1] > need)
    ctx.ob('C51.counter-range', K + 'bit-counter.range[%s]' % tag, ok, si.loc,
           'the bit counter %s (width %s, range %s) must be able to hold max(command_size, word_size) = %d, otherwise '
           'the completion comparison never fires' % (cnt, width, si.rng, need))

    def on_data_path(dst):
        return dst == data_st or (dst != cmd_st and reaches(fsm, dst, data_st, avoid={cmd_st}))

    # ---- one transaction per chip-select assertion: once the data word is complete, the command state can be reached
    # again only through an edge that requires chip select to be released (otherwise further clocks of an over-long
    # transaction are parsed as a second command and write a second register)
    done_edges = [e for e in fsm.out_edges(data_st) if e.dst != data_st and any(q.atoms(e) >= q.atoms(w_) - {('dummy', True)} for w_ in wc_raise)]
    ctx.need(done_edges, 'the edge that leaves the data state when the word is complete')
    for i, e in enumerate(done_edges):
        p_ = None if e.dst == cmd_st and (CS, False) in q.atoms(e) else \
            ([e] if e.dst == cmd_st else find_path(fsm, e.dst, cmd_st, edge_ok=lambda x: (CS, False) not in q.atoms(x)))
        ctx.ob('C51.one-transaction-per-select', K + 'data-complete#%d.needs-deselect[%s]' % (i, tag), p_ is None, e.loc,
               'after a complete data word the command state must not be reachable while chip select stays asserted; '
               'path without a ~cs edge: %s' % [(x.src, x.dst) for x in (p_ or [])])

    # ---- (a) framing of both phases
    proceed = [e for e in fsm.out_edges(cmd_st) if isinstance(e.dst, str) and on_data_path(e.dst)]
    ctx.need(len(proceed) >= 1, 'an edge from the command state towards the data state')
    edge_atoms = {}
    for role, st, reg, size, done_sites in (('command', cmd_st, cmd_reg, csz, proceed), ('data', data_st, data_reg, wsz, wc_raise)):
        shifts = [a for a in ir.drivers(reg, exact=True) if q.state_of(a) == st and isinstance(a.rhs, E) and SDI in a.rhs.sigs()]
        ctx.need(len(shifts) >= 1, 'the %s shift (an assignment to %s reading sdi in state %s)' % (role, reg, st))
        sh = shifts[0]
        want = 'Cat(%s, %s[0:%d])' % (SDI, reg, size - 1)
        ctx.ob('C51.msb-first', K + '%s-shift.direction[%s]' % (role, tag), len(shifts) == 1 and sh.rhs.canon() == want, sh.loc,
               'the %s shifter must take sdi at its LSB end (first bit received ends up most significant): want %s, '
               'found %s' % (role, want, [s.rhs.canon() for s in shifts]))
        rsi = ir.signals.get(reg)
        ctx.ob('C51.msb-first', K + '%s-shift.width[%s]' % (role, tag), rsi is not None and rsi.w == size, rsi.loc if rsi else None,
               'the %s shifter %s must be %d bits wide (found %s)' % (role, reg, size, rsi.w if rsi else None))
        vals, rest = counter_values(ir, sh, cnt, width)
        ctx.ob('C51.bits-per-phase', K + '%s-shift.count[%s]' % (role, tag), vals == set(range(size)), sh.loc,
               'bits must be shifted exactly while the counter is in 0..%d (%d bits); the guard %s admits %s' % (
                   size - 1, size, sorted(q.atoms(sh)), _rng(vals)))
        incs = [a for a in ir.drivers(cnt, exact=True) if q.state_of(a) == st and not q.is_zero(a.rhs)]
        ok = len(incs) == 1 and incs[0].rhs.canon() == '1 + ' + cnt and q.atoms(incs[0]) == q.atoms(sh)
        ctx.ob('C51.bits-per-phase', K + '%s-shift.step[%s]' % (role, tag), ok, incs[0].loc if incs else sh.loc,
               'the counter must advance by one exactly with every shifted bit: %s' % [q.fmt(a) for a in incs])
        # the sample edge
        pol = dict(rest)
        past = [a for a in pol if a not in (SCK,)]
        edge_ok = set(pol) == {SCK} | set(past) and len(past) == 1 and pol.get(SCK) is False and pol[past[0]] is True
        if edge_ok:
            d = ir.drivers(past[0], exact=True)
            edge_ok = len(d) == 1 and d[0].domain != 'comb' and d[0].state is None and not d[0].guard and \
                isinstance(d[0].rhs, E) and d[0].rhs.canon() == SCK
        edge_atoms[role] = rest
        ctx.ob('C51.sample-edge', K + '%s-shift.edge[%s]' % (role, tag), bool(edge_ok), sh.loc,
               'apart from the count, a bit must be shifted on exactly one event per sck period, the falling edge '
               '(registered copy of sck high, sck low) -- the same edge after which sdo advances; found %s' % sorted(rest))
        # completion (the edge that proceeds to the data phase / the word_complete raise) first fires at `size`
        for i, d in enumerate(done_sites):
            dv, drest = counter_values(ir, d, cnt, width)
            ok = bool(dv) and min(dv) == size and not [x for x in drest if x[0] != CS]
            what = 'the transition %s -> %s' % (st, d.dst) if d.kind == 'edge' else d.lhs.canon()
            ctx.ob('C51.bits-per-phase', K + '%s-complete#%d[%s]' % (role, i, tag), ok and q.state_of(d) == st, d.loc,
                   '%s may only happen once all %d bits are in (counter == %d) and independent of sck; its guard %s '
                   'first holds at %s' % (what, size, size, sorted(q.atoms(d)), min(dv) if dv else 'never'))
        # no gap between shifting and completing
        allv = set(vals)
        for d in done_sites:
            allv |= counter_values(ir, d, cnt, width)[0]
        ctx.ob('C51.bits-per-phase', K + '%s-phase.no-gap[%s]' % (role, tag), set(range(size + 1)) <= allv, sh.loc,
               'every counter value 0..%d must either shift or complete' % size)
        # nothing else writes the shifter
    ctx.ob('C51.sample-edge', K + 'same-edge[%s]' % tag, edge_atoms['command'] == edge_atoms['data'], None,
           'command and data bits must be sampled on the same sck event: %s vs %s' % (
               sorted(edge_atoms['command']), sorted(edge_atoms['data'])))

    # ---- (b) counter is zero on entry
    for role, st in (('command', cmd_st), ('data', data_st)):
        ok, why = zero_on_entry(ir, fsm, cnt, st)
        ctx.ob('C51.count-from-zero', K + '%s-state.entry[%s]' % (role, tag), ok, fsm.state_loc[st],
               'the bit counter must be 0 whenever the %s state (%s) is entered, else the next transaction is framed '
               'with a stale count: %s' % (role, st, why))

    # ---- (c) abort
    for role, st, size in (('command', cmd_st, csz), ('data', data_st, wsz)):
        outs = outcomes_when(ir, fsm, st, cnt, width, {CS: False}, range(size))
        bad = []
        for dst, (asg, win) in outs.items():
            if dst is None:
                clr = [a for a in q.clears(ir, cnt) if q.state_of(a) == st and q.atoms(a) <= {(CS, False)}]
                if role == 'data' or not clr:
                    bad.append('stays in %s under %s' % (st, _asg(asg)))
            elif on_data_path(dst):
                bad.append('goes on to %s under %s' % (dst, _asg(asg)))
        if not outs:
            bad.append('no feasible evaluation of the state with CS low and an incomplete count')
        ctx.ob('C51.abort', K + '%s-state.abort[%s]' % (role, tag), not bad, fsm.state_loc[st],
               'when CS is released before all %d bits arrived the %s state must abandon the transaction (return '
               'towards idle), whatever the other conditions: %s' % (size, role, '; '.join(bad)))

    # ---- (d) word_complete: default, single raise, leaves
    dflt = [a for a in q.clears(ir, 'self.word_complete') if not a.guard and a.state is None]
    ok = len(dflt) >= 1 and all(min(x.order for x in dflt) < r.order for r in wc_raise)
    if not ok:
        # alternatively: an unconditional clear in every state the completion arm leaves to
        after = {e.dst for e in fsm.out_edges(data_st) if e.dst != data_st and any(q.atoms(r) <= q.atoms(e) for r in wc_raise)}
        ok = bool(after) and all(any(not a.guard and (a.state is None or q.state_of(a) == s_)
                                     for a in q.clears(ir, 'self.word_complete')) for s_ in after) and \
            not [r for r in q.raises(ir, 'self.word_complete') if q.state_of(r) in after]
    ctx.ob('C51.one-strobe', K + 'word_complete.default[%s]' % tag, ok, wc_raise[0].loc,
           'word_complete must fall back to 0 in the cycle after it was raised (an unconditional default assigned before '
           'the raise, or an unconditional clear in the state entered on completion): one strobe per transaction')
    ctx.ob('C51.one-strobe', K + 'word_complete.sites[%s]' % tag, all(q.state_of(r) == data_st for r in wc_raise) and
           all(q.is_one(r.rhs) for r in wc_raise), wc_raise[0].loc,
           'word_complete may only be raised (constant 1) in the data state: %s' % [q.fmt(r) for r in wc_raise])
    for i, r in enumerate(wc_raise):
        rg = dict(q.atoms(r))
        active = [a for a in wr_loads if (a.state is None or q.state_of(a) == q.state_of(r)) and consistent(a.guard, rg)]
        taken = [a for a in active if a.rhs.canon() == data_reg and q.atoms(a) <= q.atoms(r)]
        ok = bool(taken) and not [a for a in active if a.order > max(t.order for t in taken) and a.rhs.canon() != data_reg]
        ctx.ob('C51.word-handover', K + 'word_received.load#%d[%s]' % (i, tag), ok, r.loc,
               'in the cycle that raises word_complete, word_received must be loaded from the data shifter %s (and not '
               'be overridden): %s' % (data_reg, [q.fmt(a) for a in wr_loads]))
    rsi = ir.signals.get('self.word_received')
    ctx.ob('C51.word-handover', K + 'word_received.width[%s]' % tag, rsi is not None and rsi.w == wsz, rsi.loc if rsi else None,
           'word_received must be word_size = %d bits wide' % wsz)
    for r in wc_raise:
        vals, _ = counter_values(ir, r, cnt, width)
        outs = outcomes_when(ir, fsm, data_st, cnt, width, dict(q.atoms(r)), [min(vals)]) if vals else {}
        bad = []
        for dst, (asg, win) in outs.items():
            if dst is None:
                bad.append('stays in %s under %s' % (data_st, _asg(asg)))
            elif on_data_path(dst):
                bad.append('goes to %s, from where %s is reachable without a new command' % (dst, data_st))
        if not outs:
            bad.append('the guard of the raise (%s) can never hold for a counter of width %d' % (sorted(q.atoms(r)), width))
        ctx.ob('C51.one-strobe', K + 'data-state.leave-on-complete[%s]' % tag, not bad, r.loc,
               'the arm that raises word_complete must leave the data state for one that needs a new command before more '
               'data is accepted, otherwise the same transaction strobes twice: %s' % '; '.join(bad))

    # ---- (e) command register
    loads = [a for a in cmd_loads if a.rhs.canon() == cmd_reg]
    ctx.ob('C51.command-stable', K + 'command.drivers[%s]' % tag,
           len(loads) == len(cmd_loads) and all(q.state_of(a) == cmd_st for a in cmd_loads), cmd_loads[0].loc,
           'command (write flag + address) may only be written from the command shifter in the command state, so that it '
           'is stable from the response latch to the write strobe: %s' % [q.fmt(a) for a in cmd_loads])
    for i, e in enumerate(proceed):
        taken = [a for a in loads if q.atoms(a) <= q.atoms(e)]
        ctx.ob('C51.command-stable', K + 'command.load-on-proceed#%d[%s]' % (i, tag), bool(taken), e.loc,
               'whenever the command state proceeds to the data phase (%s) the complete shifter must be copied to command '
               '(loads: %s)' % (q.fmt(e), [q.fmt(a) for a in loads]))
    csi = ir.signals.get('self.command')
    ctx.ob('C51.command-stable', K + 'command.width[%s]' % tag, csi is not None and csi.w == csz, csi.loc if csi else None,
           'command must be command_size = %d bits wide' % csz)
    # the completion of the command phase moves on towards the data state
    assume = {CS: True}
    cvals = set(range(csz, max(csz, wsz) + 1)) & set(range(1 << width))
    outs = outcomes_when(ir, fsm, cmd_st, cnt, width, assume, [min(cvals)]) if cvals else {}
    ok = bool(outs) and all(dst is not None and on_data_path(dst) for dst in outs)
    ctx.ob('C51.command-stable', K + 'command-state.proceed[%s]' % tag, ok, cmd_loads[0].loc,
           'with the command complete (and CS still asserted) the command state must proceed towards the data state: %s'
           % sorted(map(str, outs)))

    # ---- (f) response latch and serial output
    latches = [a for a in ir.drivers(data_reg, exact=True) if isinstance(a.rhs, E) and 'self.word_to_send' in a.rhs.sigs()]
    ctx.need(len(latches) >= 1, 'the response latch (%s <= word_to_send)' % data_reg)
    for i, la in enumerate(latches):
        L = q.state_of(la)
        ok = la.rhs.canon() == 'self.word_to_send' and L is not None and L not in (cmd_st, data_st)
        why = ''
        if ok and reaches(fsm, cmd_st, data_st, avoid={L}):
            ok, why = False, 'there is a path from %s to %s that bypasses %s' % (cmd_st, data_st, L)
        if ok:
            for e in fsm.out_edges(L):
                if e.dst != L and not q.atoms(la) <= q.atoms(e):
                    ok, why = False, 'state %s can be left (%s) without taking the latch' % (L, q.fmt(e))
            over = [a for a in ir.drivers(data_reg, exact=True) if q.state_of(a) == L and a.order > la.order and a is not la]
            if over:
                ok, why = False, 'the latch is overridden by %s' % q.fmt(over[0])
        ctx.ob('C51.response-latch', K + 'response.latch#%d[%s]' % (i, tag), ok, la.loc,
               'the whole word_to_send must be latched into the data shifter in a state that is passed on every way '
               'from the command state to the data state and entered only after command was registered (not the command '
               'state itself, where command still shows the previous address; not the data state, where it would '
               'clobber the shift): %s %s' % (q.fmt(la), why))
    # writers that could disturb a shifter between its load and its use: stateless ones, those in the shifting state, and
    # (data shifter) those in states lying between the latch and the data state
    lstates = {q.state_of(la) for la in latches}
    between = {s_ for s_ in fsm.states if s_ not in lstates and s_ not in (cmd_st, data_st) and on_data_path(s_) and
               any(L is not None and reaches(fsm, L, s_, avoid={data_st, cmd_st}) for L in lstates)}
    others = [a for a in ir.drivers(data_reg, exact=True) if a not in latches and
              (a.state is None or q.state_of(a) in between | {data_st}) and
              not (q.state_of(a) == data_st and isinstance(a.rhs, E) and SDI in a.rhs.sigs())]
    others += [a for a in ir.drivers(cmd_reg, exact=True) if (a.state is None or q.state_of(a) == cmd_st) and
               not (q.state_of(a) == cmd_st and isinstance(a.rhs, E) and SDI in a.rhs.sigs())]
    ctx.ob('C51.response-latch', K + 'shifters.no-other-writer[%s]' % tag, not others, others[0].loc if others else None,
           'between the response latch and the end of the data phase (and during the command phase) nothing but the sdi '
           'shift may write the shifters: %s' % [q.fmt(a) for a in others])
    tsi = ir.signals.get('self.word_to_send')
    ctx.ob('C51.response-latch', K + 'word_to_send.width[%s]' % tag, tsi is not None and tsi.w == wsz, tsi.loc if tsi else None,
           'word_to_send must be word_size = %d bits wide' % wsz)
    sdo = ir.drivers(SDO, exact=True)
    ctx.need(len(sdo) >= 1, 'a driver of sdo')
    want = '%s[%d:%d]' % (data_reg, wsz - 1, wsz)
    ok = all(isinstance(a.rhs, E) and a.rhs.canon() == want for a in sdo)
    ctx.ob('C51.sdo', K + 'sdo.source[%s]' % tag, ok, sdo[0].loc,
           'sdo must be the most significant bit of the latched data shifter (%s), which is the next bit out for a '
           'left shift; found %s' % (want, [q.rhs_canon(a) for a in sdo]))
    in_data = [a for a in sdo if q.state_of(a) == data_st]
    def guard_support(a):
        out = set()
        for l in a.guard:
            if isinstance(l.e, E):
                out |= q.support(ir, l.e)
        return out
    ok = len(in_data) >= 1 and all(not (guard_support(a) & {SCK, SDI}) and
                                   set(range(wsz)) <= counter_values(ir, a, cnt, width)[0] for a in in_data)
    ctx.ob('C51.sdo', K + 'sdo.continuous[%s]' % tag, ok, sdo[0].loc,
           'sdo must follow the shifter throughout the data state (for every count 0..%d, not only on clock edges), so '
           'that the first bit is out before the first clock: %s' % (wsz - 1, [q.fmt(a) for a in in_data]))
    return ir


def _rng(vals):
    vals = sorted(vals)
    if not vals:
        return '{}'
    if vals == list(range(vals[0], vals[-1] + 1)):
        return '%d..%d' % (vals[0], vals[-1])
    return str(vals[:12])


def _asg(asg):
    return '{' + ', '.join('%s=%d' % (a, v) for a, v in sorted(asg.items())) + '}'


# ------------------------------------------------------------------------------------------------ register interface
class Built:
    pass


def build_register_interface(ctx, ctor, plan):
    """ModuleIR of an SPIRegisterInterface configured through its public API: run __init__(**ctor), then the add_* calls of
    `plan` [(method, address, {kw: value or ('sig', width)})], then elaborate() -- all abstractly, nothing imported."""
    from ..interp import Interp, _install, FuncRef
    from .. import hdl
    idx = ctx.index
    cls = idx.find_class('SPIRegisterInterface', 'interface.spi')
    ip = Interp(idx)
    _install(ip)
    ir = ModuleIR(cls.name, cls.mod.relpath)
    ip.ir = ir
    ip.curfile = cls.mod.relpath
    so = Obj(cls, leaf='self')
    so.named = True
    so.is_record = hdl.is_record_class(ip, cls)
    ir.self_obj = so
    env = ip.module_env(cls.mod)

    def call(name, *args, **kw):
        m = idx.find_method(cls, name)
        if m is None:
            raise AnalysisError('anchor vanished: SPIRegisterInterface.%s' % name)
        fr = FuncRef(m[1], m[0].mod, closure=None, self_obj=so, cls=m[0], name=name)
        return ip.call_func(fr, list(args), dict(kw), None)

    def sig(name, width):
        return ip.eval(ast.parse('Signal(%d, name=%r)' % (width, name), mode='eval').body, env)

    call('__init__', **ctor)
    b = Built()
    b.regs = {}
    for method, addr, kws in plan:
        kw = {}
        rec = {'method': method}
        for k, v in kws.items():
            if isinstance(v, tuple) and v[0] == 'sig':
                v = sig('t_%s_%x' % (k, addr), v[1])
                ctx.need(isinstance(v, E) and v.op == 'sig', 'creating a test signal')
                v.args[0].leaf, v.args[0].parent, v.args[0]._named = 't_%s_%x' % (k, addr), None, True
                rec[k] = v.args[0].name
            kw[k] = v
        ret = call(method, addr, **kw)
        if method == 'add_register':
            ctx.need(isinstance(ret, E) and ret.op == 'sig', 'add_register returns the value signal')
            rec['value'] = ret.args[0].name
        b.regs[addr] = rec
    ip.callstack = []
    m = idx.find_method(cls, 'elaborate')
    ctx.need(m is not None, 'SPIRegisterInterface.elaborate')
    ir.result = call('elaborate', None)
    for si in ip._siglist:
        ir.signals.setdefault(si.name, si)
    for si in ip.interned.values():
        ir.signals.setdefault(si.name, si)
    ir.interp = ip
    if ir.opaque:
        src, loc, why = ir.opaque[0]
        raise AnalysisError('construct not understood inside SPIRegisterInterface (%s): %s -- %s' % (loc, why, src))
    ctx.files.add(cls.mod.relpath)
    ctx.classes.add(cls.name)
    ctx.assign_sites += len(ir.assigns)
    ctx.helpers += ir.helpers_inlined
    b.ir = ir
    return b


def check_register_interface(ctx, tag, asz, rsz, default, autoneg, plan):
    K = 'SPIRegisterInterface.'
    ctor = dict(address_size=asz, register_size=rsz, default_read_value=default, support_size_autonegotiation=autoneg)
    b = build_register_interface(ctx, ctor, plan)
    ir = b.ir
    CMD, WC, WR, TS = 'self.interface.command', 'self.interface.word_complete', 'self.interface.word_received', \
        'self.interface.word_to_send'

    # ---- (g) transceiver parameters and wiring
    subs = [s for s in ir.submodules if s.obj.clsname == 'SPICommandInterface']
    ctx.need(len(subs) == 1, 'the SPICommandInterface submodule')
    at = subs[0].obj.attrs
    got = {k: at.get(k) for k in ('command_size', 'word_size')}
    cw = ir.signals.get(CMD)
    ww = ir.signals.get(WR)
    tw = ir.signals.get(TS)
    ok = got['command_size'] == asz + 1 and got['word_size'] == rsz and cw is not None and cw.w == asz + 1 and \
        ww is not None and ww.w == rsz and tw is not None and tw.w == rsz
    ctx.ob('C51.transceiver', K + 'interface.sizes[%s]' % tag, ok, subs[0].loc,
           'the transceiver must be built with command_size = address_size + 1 = %d and word_size = register_size = %d: %s, '
           'command is %s bits, word_received %s bits' % (asz + 1, rsz, got, cw.w if cw else None, ww.w if ww else None))
    wires = (('self.interface.spi.sck', SCK), ('self.interface.spi.sdi', SDI), ('self.interface.spi.cs', CS),
             (SDO, 'self.interface.spi.sdo'))
    bad = []
    for lhs, rhs in wires:
        d = ir.drivers(lhs, exact=True)
        if not (len(d) == 1 and d[0].domain == 'comb' and not d[0].guard and isinstance(d[0].rhs, E) and d[0].rhs.canon() == rhs):
            bad.append('%s <= %s (found %s)' % (lhs, rhs, [q.fmt(x) for x in d]))
    ctx.ob('C51.transceiver', K + 'interface.bus[%s]' % tag, not bad, None, 'the SPI bus must be wired through: %s' % bad)

    # ---- the stimulus space
    configured = sorted(b.regs) + ([0] if autoneg and 0 not in b.regs else [])
    free = [a for a in (1, 3, (1 << asz) - 1, (1 << asz) - 2) if a not in configured][:3]
    # every address that differs from a configured one in exactly one bit: an address decoder that drops or ignores any
    # single address bit (for instance the top one) makes such an alias select the register
    near = [a ^ (1 << k) for a in configured for k in range(asz)]
    addrs = sorted(set(configured + free + near))

    def envs():
        for w, a, c in itertools.product((0, 1), addrs, (0, 1)):
            yield w, a, c, {CMD: (w << asz) | a, WC: c}

    def table(signame, role, want):
        """Compare the value of a strobe with want(w, a, c) over the stimulus space."""
        # small registers the strobe depends on (history the specification does not know): the strobe must be right for
        # every value they can hold -- a "write pending" flag that survives an aborted transaction is exactly such a value
        hist = []
        if signame in ir.signals:
            for n in sorted(q.support(ir, E('sig', (ir.signals[signame],)))):
                si_ = ir.signals.get(n)
                dn = ir.drivers(n, exact=True)
                if si_ is not None and isinstance(si_.w, int) and si_.w <= 2 and dn and all(x.domain != 'comb' for x in dn):
                    hist.append((n, si_.w))
        for w, a, c, env0 in envs():
            for hv in itertools.product(*[range(1 << hw) for _, hw in hist]):
                env = dict(env0)
                env.update({n: x for (n, _), x in zip(hist, hv)})
                v = ev(ir, E('sig', (ir.signals[signame],)), env) if signame in ir.signals else None
                if v is None:
                    break
                if v != want(w, a, c):
                    return False, '%s is %d, expected %d, for write-bit=%d address=%d word_complete=%d%s: %s' % (
                        role, v, want(w, a, c), w, a, c, ''.join(' %s=%d' % (n, x) for (n, _), x in zip(hist, hv)),
                        [q.fmt(d) for d in ir.drivers(signame, exact=True)][:2])
            env = env0
            if v is None:
                raise AnalysisError('anchor vanished or not understood: %s cannot be evaluated from command / word_complete '
                                    '(drivers: %s)' % (signame, [q.fmt(d) for d in ir.drivers(signame, exact=True)][:2]))
            if v != want(w, a, c):
                return False, '%s is %d, expected %d, for write-bit=%d address=%d word_complete=%d: %s' % (
                    role, v, want(w, a, c), w, a, c, [q.fmt(d) for d in ir.drivers(signame, exact=True)][:2])
        return True, ''

    for addr in sorted(b.regs):
        rec = b.regs[addr]
        rk = K + 'reg%x' % addr
        # ---- (h) strobes
        ws_name = rec.get('write_strobe')
        if rec['method'] == 'add_register' and ws_name is None:
            # the internally created strobe: the signal guarding the update of the value register
            d = ir.drivers(rec['value'], exact=True)
            gs = [l.e.args[0].name for x in d for l in x.guard if isinstance(l.e, E) and l.e.op == 'sig' and l.pos]
            ws_name = gs[0] if len(gs) == 1 else None
        if rec['method'] == 'add_register' or 'write_strobe' in rec:
            if ws_name is None:
                dv = ir.drivers(rec['value'], exact=True)
                ctx.ob('C51.write-strobe', rk + '.write_strobe[%s]' % tag, False, dv[0].loc if dv else None,
                       'the memory register at address %d has no write strobe guarding its single update: %s' % (
                           addr, [q.fmt(x) for x in ir.drivers(rec['value'], exact=True)]))
            else:
                ok, why = table(ws_name, 'write strobe of register %d' % addr, lambda w, a, c: int(w == 1 and c == 1 and a == addr))
                d = ir.drivers(ws_name, exact=True)
                ctx.ob('C51.write-strobe', rk + '.write_strobe[%s]' % tag, ok, d[0].loc if d else None,
                       'a write strobe must be exactly (first command bit) & word_complete & (address == %d): %s' % (addr, why))
        if 'read_strobe' in rec:
            ok, why = table(rec['read_strobe'], 'read strobe of register %d' % addr, lambda w, a, c: int(w == 0 and c == 1 and a == addr))
            d = ir.drivers(rec['read_strobe'], exact=True)
            ctx.ob('C51.read-strobe', rk + '.read_strobe[%s]' % tag, ok, d[0].loc if d else None,
                   'a read strobe must be exactly ~(first command bit) & word_complete & (address == %d): %s' % (addr, why))
        # ---- (i) written value
        if 'write_signal' in rec:
            d = ir.drivers(rec['write_signal'], exact=True)
            ok = len(d) == 1 and d[0].domain == 'comb' and not d[0].guard and resolves_to(ir, d[0].rhs, WR)
            ctx.ob('C51.write-value', rk + '.write_signal[%s]' % tag, ok, d[0].loc if d else None,
                   'the write signal of register %d must carry word_received: %s' % (addr, [q.fmt(x) for x in d]))
        if rec['method'] == 'add_register':
            d = ir.drivers(rec['value'], exact=True)
            ok = len(d) == 1 and d[0].domain != 'comb' and resolves_to(ir, d[0].rhs, WR)
            why = ''
            if ok and ws_name is not None:
                for w, a, c, env in envs():
                    env = dict(env)
                    g = guard_true(ir, d[0], env)
                    s = ev(ir, E('sig', (ir.signals[ws_name],)), env)
                    if g is None or s is None or bool(g) != bool(s):
                        ok, why = False, 'update taken=%s but write strobe=%s for write-bit=%d address=%d word_complete=%d' % (g, s, w, a, c)
                        break
            ctx.ob('C51.write-value', rk + '.storage[%s]' % tag, ok and ws_name is not None, d[0].loc if d else None,
                   'the memory register at address %d must have one registered update, taken exactly with its write strobe '
                   'and loading word_received: %s %s' % (addr, [q.fmt(x) for x in d], why))
            vsi = ir.signals.get(rec['value'])
            want_w = plan_size(plan, addr, rsz)
            ctx.ob('C51.write-value', rk + '.width[%s]' % tag, vsi is not None and vsi.w == want_w, vsi.loc if vsi else None,
                   'register %d must be %d bits wide (found %s)' % (addr, want_w, vsi.w if vsi else None))

    # ---- (j) the read multiplexer
    muxd = sorted(ir.drivers(TS, exact=True), key=lambda a: a.order)
    ctx.need(len(muxd) >= 1, 'drivers of word_to_send')
    mask = (1 << rsz) - 1
    for a in addrs:
        rec = b.regs.get(a)
        if rec is not None and rec['method'] == 'add_register':
            want, wtxt = rec['value'], 'its value register %s' % rec['value']
        elif rec is not None and 'read' in rec:
            want, wtxt = rec['read'], 'its read signal %s' % rec['read']
        elif rec is None and a == 0 and autoneg:
            want, wtxt = mask, 'all ones (size auto-negotiation)'
        else:
            want, wtxt = default & mask, 'default_read_value 0x%x' % default
        ok, found = True, None
        for w in (0, 1):
            env = {CMD: (w << asz) | a}
            win = None
            for d in muxd:
                g = guard_true(ir, d, env)
                if g is None:
                    raise AnalysisError('anchor vanished or not understood: read multiplexer arm %s' % q.fmt(d))
                if g:
                    win = d
            if win is None:
                ok, found = False, 'nothing (no arm drives word_to_send; it reads 0)'
                if isinstance(want, int) and want == 0:
                    ok = True
            elif isinstance(want, int):
                v = win.rhs.val if isinstance(win.rhs, E) and win.rhs.op == 'const' else None
                ok = v is not None and (v & mask) == want
                found = q.fmt(win)
            else:
                ok = isinstance(win.rhs, E) and win.rhs.op == 'sig' and win.rhs.args[0].name == want
                found = q.fmt(win)
            if not ok:
                break
        ctx.ob('C51.read-mux', K + 'read[%s%x][%s]' % ('reg' if rec is not None or (a == 0 and autoneg) else 'unassigned-', a, tag),
               ok, (win.loc if win is not None else muxd[0].loc),
               'a transaction addressing %d must send %s; with last-assignment-wins the multiplexer selects %s' % (a, wtxt, found))
    return ir


def plan_size(plan, addr, rsz):
    for method, a, kws in plan:
        if a == addr:
            if 'value_signal' in kws:
                return kws['value_signal'][1]
            return kws.get('size') or rsz
    return rsz


S = 'sig'
PLAN_A = [
    ('add_register', 2, {}),
    ('add_register', 5, {'size': 8, 'write_strobe': (S, 1), 'read_strobe': (S, 1)}),
    ('add_sfr', 9, {'read': (S, 16), 'write_signal': (S, 16), 'write_strobe': (S, 1), 'read_strobe': (S, 1)}),
    ('add_sfr', 11, {}),
    ('add_read_only_register', 12, {'read': (S, 16)}),
]
PLAN_B = [
    ('add_sfr', 0x41, {'write_signal': (S, 32), 'write_strobe': (S, 1)}),
    ('add_register', 0x7f, {'read_strobe': (S, 1)}),
    ('add_register', 0, {}),
    ('add_read_only_register', 6, {'read': (S, 32), 'read_strobe': (S, 1)}),
    ('add_register', 4, {'write_strobe': (S, 1)}),
    ('add_register', 0x10, {'value_signal': (S, 20)}),
]
PLAN_C = [
    ('add_register', 1, {}),
]


def run(ctx):
    check_command_interface(ctx, 8, 32)          # class defaults
    check_command_interface(ctx, 16, 32)         # as instantiated by the default SPIRegisterInterface
    check_command_interface(ctx, 8, 4)           # command longer than the data word
    check_register_interface(ctx, 'a7r16', 7, 16, 0xBEEF, True, PLAN_A)
    check_register_interface(ctx, 'a15r32', 15, 32, 0xDEADBEEF, False, PLAN_B)
    if ctx.tier == 'thorough':
        for csz, wsz in ((2, 3), (3, 2), (8, 8), (5, 12), (32, 16), (16, 64)):
            check_command_interface(ctx, csz, wsz)
        check_register_interface(ctx, 'a3r8', 3, 8, 0xA5, True, PLAN_C)
        check_register_interface(ctx, 'a7r16-rev', 7, 16, 0x1234, True, list(reversed(PLAN_A)))
        check_register_interface(ctx, 'a15r32-auto', 15, 32, 0, True, [p for p in PLAN_B if p[1] != 0])
