"""Abstract Python-level values used by the extractor."""
from __future__ import annotations
from .ir import E, Obj, SigInfo, NOVAL


class EnumVal(int):
    """An enum member folded to its integer, keeping the symbolic label."""
    def __new__(cls, value, label=''):
        o = int.__new__(cls, value)
        o.label = label
        return o

    @property
    def value(self):
        return int(self)

    @property
    def name(self):
        return self.label.split('.')[-1]

    def __repr__(self):
        return '%s=%d' % (self.label, int(self))


class StrEnumVal(str):
    def __new__(cls, value, label=''):
        o = str.__new__(cls, value)
        o.label = label
        return o


class ClassRef:
    def __init__(self, info):
        self.info = info

    def __repr__(self):
        return 'ClassRef<%s>' % self.info.name


class FuncRef:
    def __init__(self, node, mod, closure=None, self_obj=None, cls=None, name=None):
        self.node = node
        self.mod = mod
        self.closure = closure      # Env or None
        self.self_obj = self_obj
        self.cls = cls              # ClassInfo the def lives in (for super())
        self.name = name or getattr(node, 'name', '<lambda>')

    def bind(self, obj):
        return FuncRef(self.node, self.mod, self.closure, obj, self.cls, self.name)

    def __repr__(self):
        return 'FuncRef<%s>' % self.name


class Builtin:
    def __init__(self, name, self_val=None):
        self.name = name
        self.self_val = self_val

    def __repr__(self):
        return 'Builtin<%s>' % self.name


class ModRef:
    def __init__(self, info=None, ext=None):
        self.info = info
        self.ext = ext

    def __repr__(self):
        return 'ModRef<%s>' % (self.info.name if self.info else self.ext)


class Stmt:
    """The value of `lhs.eq(rhs)`: an assignment not yet added to a domain."""
    def __init__(self, lhs, rhs, loc):
        self.lhs = lhs
        self.rhs = rhs
        self.loc = loc

    def __repr__(self):
        return 'Stmt<%r <= %r>' % (self.lhs, self.rhs)


class SuperProxy:
    def __init__(self, obj, after_cls):
        self.obj = obj
        self.after = after_cls


class ModuleVal:
    """The `m = Module()` object."""
    def __init__(self):
        self.domain_names = set()


class DomainProxy:
    def __init__(self, name):
        self.name = name


class DProxy:          # m.d
    pass


class SubmodulesProxy:
    pass


class CtxVal:
    """What m.If(...) / m.FSM(...) etc. return (usable in `with`, or stored in a variable)."""
    def __init__(self, kind, args=(), kwargs=None):
        self.kind = kind
        self.args = args
        self.kwargs = kwargs or {}


class FSMVal:
    def __init__(self, info):
        self.info = info


class Unknown:
    def __init__(self, src=''):
        self.src = src

    def __repr__(self):
        return 'Unknown<%s>' % self.src


class MemoryVal(Obj):
    pass


class ReturnEx(Exception):
    def __init__(self, value):
        self.value = value


class BreakEx(Exception):
    pass


class ContinueEx(Exception):
    pass


def is_concrete(v):
    """A plain Python value we can compute with."""
    if isinstance(v, (bool, int, float, str, bytes, type(None), range, slice)):
        return True
    if isinstance(v, (tuple, list, set, frozenset)):
        return all(is_concrete(x) for x in v)
    if isinstance(v, dict):
        return all(is_concrete(k) and is_concrete(x) for k, x in v.items())
    return False


def pval(v):
    """Concrete value behind a possibly-param value, or NOVAL."""
    if isinstance(v, E):
        if v.op == 'param':
            return v.val
        if v.op == 'const':
            return v.val
        return NOVAL
    if is_concrete(v):
        return v
    return NOVAL
