"""C42 -- LFPS patterns are detected exactly within their timing windows; the generator emits the typical pattern."""
import bisect
import collections
import math

from ..ir import E, AnalysisError
from .. import q
from ..values import pval

TITLE = 'LFPS detector windows / two-in-a-row rule and generator timing (region abstraction, exhaustive)'
FLOOR = 70
DECIDES = ('Roles are found through the public ports of LFPSTransceiver (the submodule whose port drives '
           'polling_detected / ping_detected / reset_detected, the submodule that drives send_signaling and '
           'drive_electrical_idle); each such submodule is re-extracted with exactly the constructor arguments the '
           'transceiver passes (pattern object, forwarded clock frequency) for every clock frequency of a sweep. '
           '(a) structural: the pattern objects wired to each role carry the USB 3.2 Table 6-30 numbers (Polling '
           '0.6/1.0/1.4 us every 6/10/14 us, Ping 40 ns..160|200 ns every 160/200/240 ms, tReset 80/100/120 ms without '
           'repeat); the transceiver forwards its clock frequency and wires signaling_received / send_polling '
           'unconditionally; every constant the cycle counter is compared with fits the declared width, and for every '
           'window edge f*t of the role there is such a constant within one cycle. '
           '(b) exhaustive fixpoint for each detector: the cycle counter is read only through comparisons with constants '
           'and written only by +1 / constants (checked), so it is abstracted to its region between those constants '
           '(singleton regions around every constant, wrap at the declared width); FSM state, history flag, edge-detector '
           'register and synchronised input are kept exactly.  A reference monitor built only from the spec windows at '
           'that clock frequency (own region counter from burst start; class of the burst length when the burst ends, '
           'class of the start-to-start period when the next burst starts; class of the previous iteration) is composed '
           'with it; the two counters are related exactly by their difference while they run in lock-step and tracked '
           'independently otherwise.  One cycle of the extracted IR (last-assignment-wins, state-scoped statements) is '
           'evaluated per (abstract product state, input) and ALL states reachable from reset under input 0/1 are '
           'explored.  On that graph: safety -- detect is raised on no reachable transition on which the monitor does not '
           'hold that the last two complete iterations (periodic) / the last finished burst (single-shot) were not '
           'out-of-window (covers burst min/max, repeat min/max, start-to-start measurement, two-in-a-row, history cleared '
           'by a bad burst or period; abstract counterexample path in the message); liveness on the subgraph of in-window '
           'envelopes -- after every transition on which a report is due, no path reaches the start of the next burst '
           'without detect; and a transition raising detect is reachable when every burst length / period sits exactly '
           'on ceil(f*t_min) resp. floor(f*t_max) (all four combinations). '
           '(c) exhaustive fixpoint for the generator (state x counter region x monitor, request 0/1): with the request '
           'held every burst lasts f*t_typ cycles (less than one cycle of rounding) and starts f*T_typ cycles after the '
           'previous one (at most two cycles of turnaround), and such bursts exist; send_signaling never without '
           'drive_electrical_idle; drive_electrical_idle on every transition from a burst on while the request stays '
           'high; nothing asserted on any transition reachable without a request; from every state reachable without a '
           'request a held request starts a burst within 4 transitions; with the request low the sub-graph outside the '
           'initial FSM state has no cycle (other than region stuttering) and the initial state stays silent.  The frequency sweep of '
           'both tiers contains a clock at which the largest window bound is an exact power of two of cycles. ')
NOT_DECIDED = ('metastability / latency of the FFSynchronizer (modelled as one register; the monitor observes its output), '
               'lengths and periods within one cycle above a window maximum (sampling quantisation: neither required nor '
               'forbidden), the requirement to report single-shot envelopes whose idle gap is shorter than 4 cycles (the '
               'edge detector register is only refreshed in the waiting state, so a burst that starts in the cycle after the '
               'detector returned there is missed) and periodic envelopes after an out-of-window iteration, the exact cycle '
               'of the report (any cycle before the next burst start is accepted), the LFPS square wave itself (delegated to '
               'the PHY), cycles_sent counting, and the Ping.LFPS t_burst maximum (160 ns and 200 ns are both accepted).')

TOP = 'LFPSTransceiver'
EPS = 1e-6
CMP = ('==', '!=', '<', '<=', '>', '>=')

# USB 3.2 r1.0 Table 6-30 (LFPS transmitter timing), seconds.  Each entry: tuple of acceptable values.
SPEC = {
    'polling': {'burst': {'t_min': (0.6e-6,), 't_typ': (1.0e-6,), 't_max': (1.4e-6,)},
                'repeat': {'t_min': (6.0e-6,), 't_typ': (10.0e-6,), 't_max': (14.0e-6,)}},
    'ping': {'burst': {'t_min': (40.0e-9,), 't_typ': None, 't_max': (200.0e-9, 160.0e-9)},
             'repeat': {'t_min': (160.0e-3,), 't_typ': (200.0e-3,), 't_max': (240.0e-3,)}},
    'reset': {'burst': {'t_min': (80.0e-3,), 't_typ': (100.0e-3,), 't_max': (120.0e-3,)},
              'repeat': None},
}
DETECT_PORTS = (('polling', 'self.polling_detected'), ('ping', 'self.ping_detected'), ('reset', 'self.reset_detected'))
RX_IN = 'self.signaling_received'
TX_REQ = 'self.send_polling'
TX_SIG = 'self.send_signaling'
TX_IDLE = 'self.drive_electrical_idle'
GEN_ROLE = 'polling'

# the last frequency of each list makes the largest window bound an exact power of two of cycles (polling: 14 us = 2048
# cycles; ping 240 ms = 2**25 and reset 120 ms = 2**24 cycles): a counter declared one value short loses its top bit there
QUICK_FREQS = (125e6, 62.5e6, 2048 / 14e-6)
QUICK_SECOND_ROLES = ('polling',)   # the engine needs ~1 s to size Signal(range(30e6)): second frequency only where cheap
THOROUGH_FREQS = (125e6, 250e6, 62.5e6, 133.33e6, 156.25e6, 2048 / 14e-6, 2 ** 25 / 0.24)
FWD_FREQ = 250e6


def _close(a, b):
    return isinstance(a, (int, float)) and not isinstance(a, bool) and math.isclose(a, b, rel_tol=1e-9, abs_tol=0.0)


def _mhz(f):
    return ('%g' % (f / 1e6)) + 'MHz'


# ------------------------------------------------------------------------------------------------ IR execution
def _width(e):
    if not isinstance(e, E):
        return None
    if e.op in CMP:
        return 1
    if e.w:
        return e.w
    if e.op == 'sig':
        return e.args[0].w
    if e.op in ('&', '|', '^'):
        ws = [_width(a) for a in e.args]
        return None if any(w is None for w in ws) else max(ws)
    if e.op == '~':
        return _width(e.args[0])
    if e.op == 'const' and isinstance(e.val, int) and e.val >= 0:
        return max(1, e.val.bit_length())
    return None


class Sim:
    """One-cycle evaluation of an extracted ModuleIR (single clock domain) under last-assignment-wins."""

    def __init__(self, ctx, ir, label):
        self.ctx, self.ir, self.label = ctx, ir, label
        self.assigns = sorted(ir.assigns, key=lambda a: a.order)
        for a in self.assigns:
            ctx.need(isinstance(a.lhs, E) and a.lhs.op == 'sig', 'whole-signal assignment targets in %s (%s)' % (label, q.fmt(a)))
        self.comb = [a for a in self.assigns if a.domain == 'comb']
        self.sync = [a for a in self.assigns if a.domain != 'comb']
        doms = {a.domain.split(':')[-1] for a in self.sync} | {f.domain for f in ir.fsms}
        ctx.need(len(doms) <= 1, 'one clock domain in %s (found %s)' % (label, sorted(doms)))
        self.si = {}
        for a in self.assigns:
            self.si[a.lhs.args[0].name] = a.lhs.args[0]
        self.comb_names = {a.lhs.args[0].name for a in self.comb}
        self.reg_names = {a.lhs.args[0].name for a in self.sync}
        ctx.need(not (self.comb_names & self.reg_names), 'signals driven from one domain only in %s' % label)
        read = set()
        for item in list(self.assigns) + [e for f in ir.fsms for e in f.edges]:
            for l in item.guard:
                ctx.need(l.kind != 'cfg' and isinstance(l.e, E), 'concrete configuration in %s (guard %s)' % (label, l.canon()))
                read |= l.e.sigs()
            if getattr(item, 'kind', '') == 'assign':
                ctx.need(isinstance(item.rhs, (E, int, bool)), 'evaluable right-hand side in %s (%s)' % (label, q.fmt(item)))
                if isinstance(item.rhs, E):
                    read |= item.rhs.sigs()
        self.inputs = sorted(read - self.comb_names - self.reg_names)
        self.fsms = list(ir.fsms)
        self.edges = {}
        for f in self.fsms:
            ctx.need(f.init is not None, 'initial state of the FSM of %s' % label)
            for e in f.edges:
                ctx.need(isinstance(e.dst, str) and e.dst in f.states, 'constant m.next targets in %s (%s)' % (label, e))
            for s in f.states:
                self.edges[(f.id, s)] = sorted(f.out_edges(s), key=lambda e: e.order)
        self._find_counters()

    # -- expression evaluation -----------------------------------------------------------------------------------
    def ev(self, e, env):
        if isinstance(e, bool):
            return int(e)
        if isinstance(e, int):
            return e
        if not isinstance(e, E):
            raise AnalysisError('cannot evaluate %r in %s' % (e, self.label))
        op = e.op
        if op == 'const':
            if isinstance(e.val, bool):
                return int(e.val)
            if not isinstance(e.val, int):
                raise AnalysisError('non-integer constant %s in %s' % (e.canon(), self.label))
            return e.val
        if op == 'sig':
            n = e.args[0].name
            if n not in env:
                raise AnalysisError('free signal %s in %s' % (n, self.label))
            return env[n]
        if op == 'slice':
            v = self.ev(e.args[0], env)
            lo, hi = e.args[1], e.args[2]
            if not isinstance(lo, int) or not isinstance(hi, int):
                raise AnalysisError('symbolic slice %s in %s' % (e.canon(), self.label))
            return (v >> lo) & ((1 << (hi - lo)) - 1)
        if op == '~':
            w = _width(e.args[0])
            if not w:
                raise AnalysisError('~ of unknown width: %s in %s' % (e.canon(), self.label))
            return ~self.ev(e.args[0], env) & ((1 << w) - 1)
        if op == 'mux':
            return self.ev(e.args[1], env) if self.ev(e.args[0], env) else self.ev(e.args[2], env)
        if op == 'ongoing' and '$st' in env:
            return int(env['$st'].get(e.args[0]) == e.args[1])
        if op in ('+', '-', '&', '|', '^', '*') or op in CMP:
            vals = [self.ev(a, env) for a in e.args]
            if op == '+':
                return sum(vals)
            if op == '*':
                r = 1
                for v in vals:
                    r *= v
                return r
            if op in ('&', '|', '^'):
                r = vals[0]
                for v in vals[1:]:
                    r = (r & v) if op == '&' else (r | v) if op == '|' else (r ^ v)
                return r
            if len(vals) == 2:
                a, b = vals
                if op == '-':
                    return a - b
                return int({'==': a == b, '!=': a != b, '<': a < b, '<=': a <= b, '>': a > b, '>=': a >= b}[op])
        raise AnalysisError('cannot evaluate %s (%s) in %s' % (e.canon(), op, self.label))

    def holds(self, guard, env):
        for l in guard:
            if bool(self.ev(l.e, env)) != l.pos:
                return False
        return True

    @staticmethod
    def _scopes(item):
        sts = getattr(item, 'states', None) or ()
        if sts:
            return sts
        return (item.state,) if item.state else ()

    def active(self, item, st):
        return all(st.get(fid) == s for fid, s in self._scopes(item))

    def _mask(self, name, v):
        w = self.si[name].w
        return v & ((1 << w) - 1) if w else v

    def _reset(self, name):
        v = pval(self.si[name].init) if self.si[name].init is not None else 0
        return v if isinstance(v, int) else 0

    # -- counters that may be skipped over --------------------------------------------------------------------------
    def _find_counters(self):
        cands = set()
        for a in self.sync:
            n = a.lhs.args[0].name
            if isinstance(a.rhs, E) and a.rhs.canon() == '1 + ' + n:
                cands.add(n)
        thr = {n: set() for n in cands}
        bad = set()

        def linear(x):
            if isinstance(x, E) and x.op == 'sig' and x.args[0].name in cands:
                return x.args[0].name, 0
            if isinstance(x, E) and x.op in ('+', '-') and len(x.args) == 2:
                a, b = x.args
                if isinstance(a, E) and a.op == 'sig' and a.args[0].name in cands and isinstance(b, E) and \
                        b.op == 'const' and isinstance(b.val, int):
                    return a.args[0].name, (b.val if x.op == '+' else -b.val)
                if x.op == '+' and isinstance(b, E) and b.op == 'sig' and b.args[0].name in cands and \
                        isinstance(a, E) and a.op == 'const' and isinstance(a.val, int):
                    return b.args[0].name, a.val
            return None

        def scan(e):
            if not isinstance(e, E):
                return
            if e.op in CMP and len(e.args) == 2:
                for x, k in ((e.args[0], e.args[1]), (e.args[1], e.args[0])):
                    if isinstance(k, E) and k.op == 'const' and isinstance(k.val, int) and not isinstance(k.val, bool):
                        lin = linear(x)
                        if lin:
                            thr[lin[0]].add(k.val - lin[1])
                            return
            if e.op == 'sig':
                if e.args[0].name in cands:
                    bad.add(e.args[0].name)
                return
            for a in e.args:
                scan(a)

        for item in list(self.assigns) + [e for f in self.fsms for e in f.edges]:
            for l in item.guard:
                scan(l.e)
            if getattr(item, 'kind', '') == 'assign' and isinstance(item.rhs, E):
                n = item.lhs.args[0].name
                if n in cands and item.rhs.canon() == '1 + ' + n:
                    continue
                scan(item.rhs)
        self.thresholds = {n: sorted(t) for n, t in thr.items()}
        self.jumpable = cands - bad

    # -- one clock cycle -----------------------------------------------------------------------------------------------
    def step(self, st, regs, inp, want_win=False):
        """one clock cycle: (all signal values of this cycle, next FSM states, next register values[, winning assignments])"""
        env = dict(regs)
        env.update(inp)
        env['$st'] = st                    # for fsm.ongoing(...) read as a value
        comb = {n: self._reset(n) for n in self.comb_names}
        for _ in range(8):
            env.update(comb)
            new = {n: self._reset(n) for n in self.comb_names}
            for a in self.comb:
                if self.active(a, st) and self.holds(a.guard, env):
                    new[a.lhs.args[0].name] = self._mask(a.lhs.args[0].name, self.ev(a.rhs, env))
            if new == comb:
                break
            comb = new
        else:
            raise AnalysisError('combinational loop in %s' % self.label)
        env.update(comb)
        nxt = dict(regs)
        win = {}
        for a in self.sync:
            if not (self.active(a, st) and self.holds(a.guard, env)):
                continue
            n = a.lhs.args[0].name
            rhs = a.rhs
            if isinstance(rhs, E) and rhs.op == 'call':
                if rhs.args[0] != 'ffsync' or len(rhs.args) != 2:
                    raise AnalysisError('cannot evaluate %s in %s' % (rhs.canon(), self.label))
                rhs = rhs.args[1]          # synchronizer: a fixed delay, modelled as one register
            nxt[n] = self._mask(n, self.ev(rhs, env))
            win[n] = a
        st2 = dict(st)
        for f in self.fsms:
            for e in self.edges[(f.id, st[f.id])]:
                if self.active(e, st) and self.holds(e.guard, env):
                    st2[f.id] = e.dst
        return (env, st2, nxt, win) if want_win else (env, st2, nxt)


# ------------------------------------------------------------------------------------------------ role resolution
def _port_source(ctx, tir, out):
    """(Obj of the submodule, port leaf name, assignment) behind a transceiver output that mirrors a submodule port."""
    ds = tir.drivers(out, exact=True)
    ctx.need(len(ds) == 1 and ds[0].domain == 'comb' and isinstance(ds[0].rhs, E) and ds[0].rhs.op == 'sig',
             '%s.%s mirrors one submodule port (drivers: %s)' % (TOP, out, [q.fmt(a) for a in ds]))
    si = ds[0].rhs.args[0]
    obj = si.parent
    ctx.need(obj is not None and any(s.obj is obj for s in tir.submodules),
             '%s is driven from a port of a registered submodule (found %s)' % (out, si.name))
    return obj, si.leaf, ds[0]


def _ctor_kwargs(ctx, obj):
    """The constructor call of a submodule object as keyword arguments."""
    cls, fn = ctx.func(obj.clsname, '__init__')
    names = [a.arg for a in fn.args.args][1:]
    args = list(getattr(obj, 'args', []) or [])
    ctx.need(len(args) <= len(names), 'constructor arguments of %s' % obj.clsname)
    kw = dict(zip(names, args))
    kw.update(obj.kwargs or {})
    return kw


def _conc(v):
    c = pval(v)
    return c if isinstance(c, (int, float)) and not isinstance(c, bool) else None


def _ctor_values(obj):
    out = []
    for v in list(getattr(obj, 'args', []) or []) + list((obj.kwargs or {}).values()):
        out.append(_conc(v))
    return out


def _timing(ctx, pattern, section, field):
    sec = pattern.attrs.get(section) if hasattr(pattern, 'attrs') else None
    ctx.need(sec is not None and hasattr(sec, 'attrs') and field in sec.attrs,
             'attribute %s.%s of the LFPS pattern object' % (section, field))
    return pval(sec.attrs[field])


def _pattern_of(ctx, obj):
    pats = [v for v in list(getattr(obj, 'args', []) or []) + list((obj.kwargs or {}).values())
            if hasattr(v, 'attrs') and 'burst' in getattr(v, 'attrs', {})]
    ctx.need(len(pats) == 1, 'LFPS pattern object among the constructor arguments of %s' % obj.clsname)
    return pats[0]


def check_spec(ctx, role, pattern, user, loc):
    """(a) the pattern wired to this role carries the spec numbers.  Returns the effective times for the reference."""
    spec = SPEC[role]
    eff = {}
    for section in ('burst', 'repeat'):
        if spec[section] is None:
            ctx.need(hasattr(pattern, 'attrs') and section in pattern.attrs, 'attribute %s of the LFPS pattern object' % section)
            got = pattern.attrs[section]
            ctx.ob('C42.spec-constants', 'LFPS[%s->%s].%s' % (role, user, section), got is None, loc,
                   '%s LFPS is a non-repeating pattern: its %s must be None, found %r' % (role, section, got))
            eff[section] = None
            continue
        ctx.need(hasattr(pattern, 'attrs') and pattern.attrs.get(section) is not None,
                 '%s timing of the %s LFPS pattern wired to %s' % (section, role, user))
        eff[section] = {}
        for field in ('t_min', 't_typ', 't_max'):
            want = spec[section][field]
            if want is None:
                eff[section][field] = None
                continue
            got = _timing(ctx, pattern, section, field)
            ok = any(_close(got, w) for w in want)
            ctx.ob('C42.spec-constants', 'LFPS[%s->%s].%s.%s' % (role, user, section, field), ok, loc,
                   'the pattern wired to the %s %s has %s.%s = %r, USB 3.2 Table 6-30 says %s s' % (
                       role, user, section, field, got, ' or '.join('%g' % w for w in want)))
            eff[section][field] = got if ok else want[0]
    return eff


# ------------------------------------------------------------------------------------------------ reference classes
GOOD, DC, BAD = 'in-window', 'edge', 'out-of-window'


def lo_int(x):
    """smallest cycle count that is >= x"""
    return int(math.ceil(x - EPS))


def hi_int(x):
    """largest cycle count that is <= x"""
    return int(math.floor(x + EPS))


def over_int(x):
    """smallest cycle count that is at least one full cycle above x"""
    return int(math.ceil(x + 1 - EPS))


class Window:
    """Cycle counts lo..hi are inside the window, < lo and >= ov are outside, hi+1..ov-1 is sampling quantisation."""

    def __init__(self, xmin, xmax):
        self.x = (xmin, xmax)
        self.lo, self.hi, self.ov = lo_int(xmin), hi_int(xmax), over_int(xmax)

    def points(self):
        return [self.lo, self.hi + 1, self.ov]

    def klass(self, n):
        if self.lo <= n <= self.hi:
            return GOOD
        if n < self.lo or n >= self.ov:
            return BAD
        return DC

    def __str__(self):
        return '%.6g..%.6g cycles' % self.x


def _worst(a, b):
    if BAD in (a, b):
        return BAD
    return DC if DC in (a, b) else GOOD


# ------------------------------------------------------------------------------------------------ region abstraction
class Part:
    """Partition of 0..top (top None: unbounded) into singleton regions for the given points and the maximal intervals
    between them."""

    def __init__(self, points, top=None):
        pts = sorted({p for p in points if p >= 0 and (top is None or p <= top)} | {0} | ({top} if top is not None else set()))
        regs = []
        for i, p in enumerate(pts):
            regs.append((p, p))
            nxt = pts[i + 1] if i + 1 < len(pts) else None
            if nxt is None:
                if top is None:
                    regs.append((p + 1, None))
            elif nxt > p + 1:
                regs.append((p + 1, nxt - 1))
        self.regs = regs
        self.los = [r[0] for r in regs]
        self.top = top

    def of(self, v):
        return bisect.bisect_right(self.los, v) - 1

    def exact(self, i):
        lo, hi = self.regs[i]
        return lo if lo == hi else None

    def rep(self, i):
        return self.regs[i][0]

    def succ(self, i):
        """regions of v+1 for v in region i (wrapping at top)"""
        lo, hi = self.regs[i]
        if hi is None:
            return [i]
        if i + 1 >= len(self.regs):
            return [0] if lo == hi else [i, 0]
        return [i + 1] if lo == hi else [i, i + 1]

    def span(self, a, b):
        """regions meeting a..b (b None: unbounded)"""
        i = self.of(max(a, 0))
        j = len(self.regs) - 1 if b is None else self.of(min(b, self.regs[-1][1] if self.regs[-1][1] is not None else b))
        return list(range(i, j + 1))

    def show(self, i):
        lo, hi = self.regs[i]
        return '%d' % lo if lo == hi else ('%d..%s' % (lo, hi if hi is not None else ''))


MAX_NODES = 250000
MIN_GAP = 4         # envelopes whose idle gap is shorter than this many cycles are not required to be reported
SYNC_D = 1          # design counter and reference counter are related exactly while they differ by at most this


class Product:
    """Exhaustive exploration of (design FSM state, small design registers, design counter region) x (reference monitor,
    monitor counter region) from reset under every input valuation.  One cycle of the extracted IR is evaluated per
    (abstract state, input); the counters are abstracted to regions between the constants they are compared with
    (singletons around the constants), related exactly by their difference while they run in lock-step."""

    def __init__(self, ctx, sim, mon, outputs):
        self.ctx, self.sim, self.mon, self.outputs = ctx, sim, mon, tuple(outputs)
        ctx.need(len(sim.jumpable) == 1 and not (set(sim.thresholds) - sim.jumpable),
                 'exactly one cycle counter, read only through comparisons with constants, in %s (found %s)' % (
                     sim.label, sorted(sim.thresholds)))
        self.cnt = sorted(sim.jumpable)[0]
        w = sim.si[self.cnt].w
        self.top = (1 << w) - 1 if w else None
        td = set(sim.thresholds[self.cnt])
        base = td | set(mon.points) | {0, 1} | ({self.top} if self.top is not None else set())
        self.Pn = Part({t + j for t in base for j in range(-SYNC_D - 2, SYNC_D + 3)})
        self.Pc = Part({t + j for t in td | {0, 1} for j in (0, 1)} | {2}, self.top)
        self.other = sorted(n for n in sim.reg_names if n != self.cnt)
        for n in self.other:
            ctx.need(sim.si[n].w is not None and sim.si[n].w <= 4, 'small control register %s in %s' % (n, sim.label))
        self.fids = [f.id for f in sim.fsms]
        self.inputs = list(sim.inputs)
        ctx.need(1 <= len(self.inputs) <= 2, 'one or two 1-bit inputs of %s (found %s)' % (sim.label, self.inputs))
        self._dcache = {}
        self.nodes = {}
        self.info = []
        self.edges = []          # per node: [(input tuple, label, dst)]
        self.parent = {}
        self._explore()

    # -- design: one cycle on a representative counter value -----------------------------------------------------------
    def dstep(self, dkey, c, inp):
        k = (dkey, c, inp)
        r = self._dcache.get(k)
        if r is None:
            st = dict(zip(self.fids, dkey[0]))
            regs = dict(zip(self.other, dkey[1]))
            regs[self.cnt] = c
            env, st2, nxt, win = self.sim.step(st, regs, dict(zip(self.inputs, inp)), want_win=True)
            wa = win.get(self.cnt)
            if wa is None:
                kind = 'hold'
            elif isinstance(wa.rhs, E) and wa.rhs.canon() == '1 + ' + self.cnt:
                kind = 'inc'
            else:
                kind = 'const'
            d2 = (tuple(st2[f] for f in self.fids), tuple(nxt[n] for n in self.other))
            r = (env, d2, kind, nxt[self.cnt])
            self._dcache[k] = r
        return r

    def _norm(self, n2, cand):
        """abstract counter pair from a monitor region and a design candidate ('v', value) / ('r', region)"""
        if cand[0] == 'v':
            cv, cr = cand[1], self.Pc.of(cand[1])
        else:
            cr, cv = cand[1], self.Pc.exact(cand[1])
        nv = self.Pn.exact(n2)
        if nv is not None and cv is not None and abs(cv - nv) <= SYNC_D:
            return ('s', n2, cv - nv)
        return ('f', n2, cr)

    def _node(self, key, parent):
        i = self.nodes.get(key)
        if i is None:
            i = len(self.info)
            if i >= MAX_NODES:
                raise AnalysisError('%s: more than %d abstract states' % (self.sim.label, MAX_NODES))
            self.nodes[key] = i
            self.info.append(key)
            self.edges.append(None)
            self.parent[i] = parent
            self._work.append(i)
        return i

    def _explore(self):
        sim, Pn, Pc = self.sim, self.Pn, self.Pc
        st0 = tuple(f.init for f in sim.fsms)
        d0 = (st0, tuple(sim._reset(n) for n in self.other))
        c0 = sim._reset(self.cnt)
        self._work = collections.deque()
        self._node((d0, self._norm(Pn.of(0), ('v', c0)), self.mon.init), None)
        ins = [tuple(bits) for bits in _bits(len(self.inputs))]
        while self._work:
            i = self._work.popleft()
            dkey, (mode, nreg, x), mkey = self.info[i]
            nlo, nhi = Pn.regs[nreg]
            if mode == 's':
                c = nlo + x
                if c < 0 or (self.top is not None and c > self.top):
                    raise AnalysisError('%s: inconsistent counter relation' % sim.label)
            else:
                c = Pc.rep(x)
            out = []
            for inp in ins:
                env, d2, kind, cval = self.dstep(dkey, c, inp)
                m2, nact, mlab = self.mon.step(mkey, env, nlo)
                n2s = [Pn.of(1)] if nact == 'one' else (Pn.succ(nreg) if nact == 'inc' else [nreg])
                if mode == 's' and kind == 'inc' and nact == 'inc' and cval == c + 1:
                    pairs = [('s', n2, x) for n2 in n2s]
                else:
                    if kind == 'const':
                        cands = [('v', cval)]
                    elif mode == 's':
                        if nlo == nhi:
                            cands = [('v', cval)]
                        else:       # c anywhere in nlo+x .. nhi+x, incremented or held
                            dlt = 1 if kind == 'inc' else 0
                            cands = [('r', r) for r in Pc.span(nlo + x + dlt, None if nhi is None else nhi + x + dlt)]
                    else:
                        cands = [('r', r) for r in (Pc.succ(x) if kind == 'inc' else [x])]
                    pairs = [self._norm(n2, cd) for n2 in n2s for cd in cands]
                lab = (tuple(1 if env[o] else 0 for o in self.outputs), mlab, nreg)
                for pr in pairs:
                    stutter = (pr == (mode, nreg, x) and d2 == dkey and m2 == mkey and kind == 'inc' and
                               ((mode == 's' and nhi is not None and nlo != nhi) or
                                (mode == 'f' and Pc.regs[x][0] != Pc.regs[x][1])))
                    j = self._node((d2, pr, m2), (i, inp))
                    out.append((inp, lab, j, stutter))
            self.edges[i] = out

    # -- queries ------------------------------------------------------------------------------------------------------------
    def all_edges(self):
        for i, es in enumerate(self.edges):
            for e in es:
                yield i, e

    def reach(self, sources, edge_ok, parents=None):
        """nodes reachable from sources through edges with edge_ok(src, edge)"""
        seen = set(sources)
        work = list(sources)
        while work:
            i = work.pop()
            for e in self.edges[i]:
                if e[2] not in seen and edge_ok(i, e):
                    seen.add(e[2])
                    if parents is not None:
                        parents[e[2]] = (i, e[0])
                    work.append(e[2])
        return seen

    def describe(self, i):
        dkey, (mode, nreg, x), mkey = self.info[i]
        if mode == 's':
            lo, hi = self.Pn.regs[nreg]
            cs = '%d' % (lo + x) if lo == hi else '%d..%s' % (lo + x, (hi + x) if hi is not None else '')
        else:
            cs = self.Pc.show(x)
        regs = ','.join('%s=%d' % (q.base(n).split('.')[-1], v) for n, v in zip(self.other, dkey[1]))
        return '%s %s=%s %s' % ('/'.join(dkey[0]), q.base(self.cnt), cs, regs)

    def path_to(self, i, parents=None, stop=None):
        parents = self.parent if parents is None else parents
        steps = []
        while i is not None and i != stop and parents.get(i) is not None:
            p, inp = parents[i]
            steps.append((p, inp))
            i = p
        steps.reverse()
        return steps

    def fmt_path(self, steps, last=None):
        """compressed list of (design state, counter region, input) along a path of (node, input) steps"""
        out = []
        for p, inp in steps + ([last] if last else []):
            s = '(%s | in=%s)' % (self.describe(p), ''.join(str(b) for b in inp))
            if out and out[-1][0] == s:
                out[-1][1] += 1
            else:
                out.append([s, 1])
        txt = [s if k == 1 else s + 'x%d' % k for s, k in out]
        if len(txt) > 14:
            txt = txt[:5] + ['... %d more ...' % (len(txt) - 11)] + txt[-6:]
        return ' -> '.join(txt)


def _bits(n):
    if n == 0:
        yield ()
        return
    for rest in _bits(n - 1):
        yield rest + (0,)
        yield rest + (1,)


# ------------------------------------------------------------------------------------------------ detector monitors
class EnvelopeMonitor:
    """Reference for a detector, built from the spec windows only.  It watches the (synchronised) envelope signal `s`,
    counts cycles from burst start with its own counter n (n = 1 in the cycle after the rise), classifies the burst
    length when the burst ends and -- for a periodic pattern -- the start-to-start period when the next burst begins.
    credit: the pattern may be reported (periodic: the last two complete iterations both not out-of-window;
    single-shot: the last burst has ended and was not out-of-window).  due: it must be (all of them in-window)."""

    def __init__(self, s, burst, repeat):
        self.s, self.b, self.r = s, burst, repeat
        self.points = burst.points() + (repeat.points() if repeat else [])
        self.init = (0, False, None, None, False, 0)   # previous s, burst seen, burst class, previous iteration, credit, gap

    def step(self, m, env, n):
        mp, started, bcls, prev, credit, gap = m
        s = 1 if env[self.s] else 0
        ev, cls, due, nv, gap_ok = None, None, False, None, True
        nact = 'inc' if started else 'hold'
        if s and not mp:
            ev = 'rise'
            gap_ok = not started or self.r is not None or gap >= MIN_GAP
            if self.r is None:
                credit = False
            elif started and bcls is not None:
                pc = self.r.klass(n)
                cur = _worst(bcls, pc)
                credit = prev is not None and prev != BAD and cur != BAD
                due = prev == GOOD and cur == GOOD and gap_ok
                cls, nv = pc, n
                prev = cur
                ev = 'period'
            started, bcls, nact, gap = True, None, 'one', 0
        elif mp and not s and started:
            ev = 'fall'
            bcls = cls = self.b.klass(n)
            nv = n
            gap = 1 if self.r is None else 0
            if self.r is None:
                credit = bcls != BAD
                due = bcls == GOOD
                bcls = None
        elif not s and started and self.r is None and gap < MIN_GAP:
            gap += 1
        return (s, started, bcls, prev, credit, gap), nact, (ev, cls, credit, due, nv, gap_ok)


def _observed(ctx, sim, rx):
    """the signal the envelope is observed on: the input followed through synchronizer registers"""
    s = rx
    for _ in range(4):
        nxt = [a.lhs.args[0].name for a in sim.sync if isinstance(a.rhs, E) and a.rhs.op == 'call' and
               a.rhs.args[0] == 'ffsync' and isinstance(a.rhs.args[1], E) and a.rhs.args[1].canon() == s and not a.guard
               and not sim._scopes(a)]
        if len(nxt) != 1:
            break
        s = nxt[0]
    return s


def check_detector(ctx, role, f, obj, port, eff):
    tag = '%s@%s' % (role, _mhz(f))
    kw = _ctor_kwargs(ctx, obj)
    ir = ctx.ir(obj.clsname, **kw)
    label = '%s[%s]' % (obj.clsname, tag)
    K = label
    sim = Sim(ctx, ir, label)
    det = 'self.' + port
    ctx.need(det in sim.comb_names or det in sim.reg_names, 'output %s of %s' % (det, obj.clsname))
    ctx.need(len(sim.inputs) == 1, 'exactly one input of %s (found %s)' % (obj.clsname, sim.inputs))
    rx = sim.inputs[0]
    raise_sites = q.raises(ir, det)
    ctx.need(raise_sites, 'a site raising %s' % det)
    loc = raise_sites[0].loc

    bw = Window(f * eff['burst']['t_min'], f * eff['burst']['t_max'])
    ctx.need(1 <= bw.lo <= bw.hi, 'clock frequency %g resolves the %s burst window' % (f, role))
    rw = None
    if eff['repeat'] is not None:
        rw = Window(f * eff['repeat']['t_min'], f * eff['repeat']['t_max'])
        ctx.need(bw.ov + 4 < rw.lo <= rw.hi, 'clock frequency %g resolves the %s repeat window' % (f, role))

    # (c) counters hold every constant they are compared with; (A) the comparison network uses the window edges
    ctx.need(sim.jumpable, 'a free-running cycle counter compared with constants in %s' % obj.clsname)
    for c in sorted(sim.jumpable):
        w = sim.si[c].w
        ths = sim.thresholds[c]
        ctx.need(ths, 'constants compared with counter %s' % c)
        ok = w is None or all(0 <= t < (1 << w) for t in ths)
        ctx.ob('C42.counter-range', '%s.counter' % K, ok, sim.si[c].loc,
               '%s: counter %s is %s bits wide but is compared with %s' % (label, c, w, ths))
        want = [('burst t_min', bw.x[0]), ('burst t_max', bw.x[1])]
        if rw:
            want += [('repeat t_min', rw.x[0]), ('repeat t_max', rw.x[1])]
        missing = ['%s (%.6g cycles)' % (nm, x) for nm, x in want if not any(abs(t - x) <= 1 + EPS for t in ths)]
        ctx.ob('C42.window-constants', '%s.thresholds' % K, not missing, sim.si[c].loc,
               '%s: counter %s is compared with %s; no constant within one cycle of %s of the %s pattern' % (
                   label, c, ths, ', '.join(missing), role))

    s = _observed(ctx, sim, rx)
    mon = EnvelopeMonitor(s, bw, rw)
    P = Product(ctx, sim, mon, (det,))
    ctx.note('%s: %d abstract product states, %d transitions' % (label, len(P.info), sum(len(e) for e in P.edges)))
    what = ('two complete iterations in a row with burst length inside %s and burst-start to burst-start period inside %s' % (bw, rw)
            if rw else 'a finished burst with length inside %s' % bw)

    # safety: detect only with credit
    bad = None
    for i, e in P.all_edges():
        if e[1][0][0] and not e[1][1][2]:
            if bad is None or len(P.path_to(i)) < len(P.path_to(bad[0])):
                bad = (i, e)
    msg = ''
    if bad:
        i, e = bad
        msg = 'counterexample (design state | input per cycle): ' + P.fmt_path(P.path_to(i), (i, e[0]))
    ctx.ob('C42.detect-safety', '%s.report-only-in-window' % K, bad is None, loc,
           '%s: %s is raised although the received envelope did not show %s; %s' % (label, det, what, msg))

    # liveness on the in-window subgraph: every due report is made before the next burst starts
    def good(i, e):
        return (e[1][1][1] is None or e[1][1][1] == GOOD) and e[1][1][5]

    gpar = {}
    root = 0
    G = P.reach([root], good, gpar)
    due = [(i, e) for i in G for e in P.edges[i] if good(i, e) and e[1][1][3]]
    ctx.need(due, 'an in-window envelope in the abstract graph of %s' % label)
    miss = [(i, e) for i, e in due if not e[1][0][0]]
    nxt_ev = 'rise' if rw is None else 'period'
    late = None
    if miss:
        par2 = {}
        silent = lambda i, e: good(i, e) and not e[1][0][0] and e[1][1][0] not in ('rise', 'period')
        srcs = {e[2] for i, e in miss}
        R2 = P.reach(srcs, silent, par2)
        for j in R2:
            for e2 in P.edges[j]:
                if good(j, e2) and e2[1][1][0] in ('rise', 'period'):
                    late = (j, e2, par2)
                    break
            if late:
                break
    msg = ''
    if late:
        j, e2, par2 = late
        # first undetected due edge leading here
        k = j
        while par2.get(k) is not None:
            k = par2[k][0]
        i0, e0 = [(i, e) for i, e in miss if e[2] == k][0]
        msg = ('in-window envelope that is never reported: ' + P.fmt_path(P.path_to(i0, gpar), (i0, e0[0])) + ' [report due here] -> ' +
               P.fmt_path(P.path_to(j, par2), (j, e2[0])) + ' [next burst starts, still no report]')
    ctx.ob('C42.detect-liveness', '%s.every-in-window-envelope-reported' % K, late is None, loc,
           '%s: after %s, %s must be raised before the next burst starts; %s' % (label, what, det, msg))

    # the window edges themselves are accepted: reachability restricted to envelopes sitting on the edges
    combos = [('min-edge', bw.lo, rw.lo if rw else None), ('max-edge', bw.hi, rw.hi if rw else None)]
    if rw:
        combos += [('long-burst.min-period', bw.hi, rw.lo), ('short-burst.max-period', bw.lo, rw.hi)]
    for nm, L, R in combos:
        def only(i, e, L=L, R=R):
            ev, cls, _, _, nv, gap_ok = e[1][1]
            if not gap_ok:
                return False
            if ev == 'fall':
                return nv == L and P.Pn.exact(e[1][2]) == L
            if ev == 'period':
                return nv == R and P.Pn.exact(e[1][2]) == R
            return True
        par3 = {}
        R3 = P.reach([root], only, par3)
        hit = any(only(i, e) and e[1][0][0] for i in R3 for e in P.edges[i])
        ctx.ob('C42.window-edges', '%s.%s.accepted' % (K, nm), hit, loc,
               '%s: no state raising %s is reachable when every burst lasts exactly %d cycles%s -- these values are inside '
               'the burst window %s%s (the period counts from burst start)' % (
                   label, det, L, ' and starts exactly %d cycles after the previous one' % R if rw else '', bw,
                   ' / repeat window %s' % rw if rw else ''))


# ------------------------------------------------------------------------------------------------ generator
class GeneratorMonitor:
    """Reference for the generator: counts cycles from the start of a burst (send_signaling rising) with its own counter,
    classifies the burst length when send_signaling falls and the start-to-start period when it rises again, and tracks
    whether the request has been high continuously since that start."""

    def __init__(self, sig, req, burst, period):
        self.sig, self.req, self.b, self.p = sig, req, burst, period
        self.points = [burst[0], burst[1] + 1, period[0], period[1] + 1]
        self.init = (0, False, False, False)       # previous send, burst seen, request held since burst start, ever requested

    def step(self, m, env, n):
        ms, started, held, ever = m
        s = 1 if env[self.sig] else 0
        r = 1 if env[self.req] else 0
        ev, ok = None, None
        nact = 'inc' if started else 'hold'
        if s and not ms:
            ev = 'rise'
            if started and held and r:
                ev = 'period'
                ok = self.p[0] <= n <= self.p[1]
            started, nact = True, 'one'
            held = bool(r)
        else:
            if ms and not s and started and held and r:
                ev = 'fall'
                ok = self.b[0] <= n <= self.b[1]
            held = held and bool(r)
        ever = ever or bool(r)
        return (s, started, held, ever), nact, (ev, ok, started and held, ever, n)


def check_generator(ctx, f, obj, sig_port, idle_port, eff):
    tag = '%s@%s' % (GEN_ROLE, _mhz(f))
    kw = _ctor_kwargs(ctx, obj)
    ir = ctx.ir(obj.clsname, **kw)
    label = '%s[%s]' % (obj.clsname, tag)
    K = label
    sim = Sim(ctx, ir, label)
    sig, idle = 'self.' + sig_port, 'self.' + idle_port
    for o in (sig, idle):
        ctx.need(o in sim.comb_names or o in sim.reg_names, 'output %s of %s' % (o, obj.clsname))
    ctx.need(len(sim.inputs) == 1, 'exactly one input of %s (found %s)' % (obj.clsname, sim.inputs))
    req = sim.inputs[0]
    loc = (q.raises(ir, sig) or [None])[0]
    loc = loc.loc if loc is not None else None
    ctx.need(eff['repeat'] is not None and eff['burst']['t_typ'] and eff['repeat']['t_typ'], 'typical timings of the generated pattern')
    xb, xr = f * eff['burst']['t_typ'], f * eff['repeat']['t_typ']
    bwin = (int(math.floor(xb - 1 - EPS)) + 1, int(math.ceil(xb + 1 + EPS)) - 1)       # |L - xb| < 1
    pwin = (int(math.ceil(xr - 2 - EPS)), int(math.floor(xr + 2 + EPS)))               # |P - xr| <= 2
    ctx.need(sim.jumpable, 'a free-running cycle counter compared with constants in %s' % obj.clsname)
    for c in sorted(sim.jumpable):
        w = sim.si[c].w
        ths = sim.thresholds[c]
        ok = w is None or all(0 <= t < (1 << w) for t in ths)
        ctx.ob('C42.counter-range', '%s.counter' % K, ok, sim.si[c].loc,
               '%s: counter %s is %s bits wide but has to reach %s' % (label, c, w, ths))
        missing = ['%s (%.6g cycles)' % (nm, x) for nm, x in (('burst t_typ', xb), ('repeat t_typ', xr))
                   if not any(abs(t + 1 - x) <= 2 + EPS for t in ths)]
        ctx.ob('C42.window-constants', '%s.thresholds' % K, not missing, sim.si[c].loc,
               '%s: counter %s is compared with %s; no constant within two cycles of %s' % (label, c, ths, ', '.join(missing)))
    mon = GeneratorMonitor(sig, req, bwin, pwin)
    P = Product(ctx, sim, mon, (sig, idle))
    ctx.note('%s: %d abstract product states, %d transitions' % (label, len(P.info), sum(len(e) for e in P.edges)))
    S, I = 0, 1

    def first(pred):
        best = None
        for i, e in P.all_edges():
            if pred(i, e):
                n = len(P.path_to(i))
                if best is None or n < best[0]:
                    best = (n, i, e)
        return best

    def cex(b):
        return '' if b is None else 'counterexample (design state | request per cycle): ' + P.fmt_path(P.path_to(b[1]), (b[1], b[2][0]))

    falls = [(i, e) for i, e in P.all_edges() if e[1][1][0] == 'fall']
    b = first(lambda i, e: e[1][1][0] == 'fall' and not e[1][1][1])
    ctx.ob('C42.generator-burst', '%s.burst-length' % K, bool(falls) and b is None, loc,
           '%s: with the request held, every burst must last the typical %.6g cycles (rounded by less than a cycle, i.e. %d..%d); '
           '%s%s' % (label, xb, bwin[0], bwin[1], 'no burst ever ends; ' if not falls else
                     ('a burst of %s cycles is possible; ' % P.Pn.show(b[2][1][2]) if b else ''), cex(b)))
    pers = [(i, e) for i, e in P.all_edges() if e[1][1][0] == 'period']
    b = first(lambda i, e: e[1][1][0] == 'period' and not e[1][1][1])
    ctx.ob('C42.generator-period', '%s.repeat-period' % K, bool(pers) and b is None, loc,
           '%s: with the request held, bursts must start every typical %.6g cycles (at most two cycles of rounding / turnaround, '
           'i.e. %d..%d); %s%s' % (label, xr, pwin[0], pwin[1], 'no second burst ever starts; ' if not pers else
                                   ('a period of %s cycles is possible; ' % P.Pn.show(b[2][1][2]) if b else ''), cex(b)))
    b = first(lambda i, e: e[1][0][S] and not e[1][0][I])
    ctx.ob('C42.generator-idle', '%s.signalling-implies-idle-drive' % K, b is None, loc,
           '%s: send_signaling without drive_electrical_idle; %s' % (label, cex(b)))
    b = first(lambda i, e: e[1][1][2] and e[0][0] and not e[1][0][I])
    ctx.ob('C42.generator-idle', '%s.idle-held-between-bursts' % K, b is None, loc,
           '%s: drive_electrical_idle must stay high from a burst on for as long as the request stays high; %s' % (label, cex(b)))
    b = first(lambda i, e: not e[1][1][3] and (e[1][0][S] or e[1][0][I]))
    ctx.ob('C42.generator-idle', '%s.quiet-before-enable' % K, b is None, loc,
           '%s: send_signaling / drive_electrical_idle asserted although the request was never high; %s' % (label, cex(b)))
    # start: from the states reachable without any request, a held request starts a burst within 4 cycles
    quiet = P.reach([0], lambda i, e: not e[0][0])
    frontier, slow = set(quiet), None
    for depth in range(4):
        nxt = set()
        for i in frontier:
            for e in P.edges[i]:
                if e[0][0] and not e[1][0][S]:
                    nxt.add(e[2])
        frontier = nxt
    ctx.ob('C42.generator-start', '%s.starts-when-enabled' % K, not frontier, loc,
           '%s: the first burst must start within 4 cycles of the request going high; still silent after 4 cycles in %s' % (
               label, [P.describe(i) for i in sorted(frontier)[:2]]))
    # stop: with the request low every path returns to the initial FSM state and stays there, silent
    init = tuple(fsm.init for fsm in sim.fsms)
    is_idle = lambda i: P.info[i][0][0] == init
    allr = range(len(P.info))
    b = first(lambda i, e: is_idle(i) and not e[0][0] and (e[1][0][S] or e[1][0][I] or not is_idle(e[2])))
    succs = {i: [e[2] for e in P.edges[i] if not e[0][0] and not e[3] and not is_idle(e[2])] for i in allr if not is_idle(i)}
    indeg = {i: 0 for i in succs}
    for i, ss in succs.items():
        for j in ss:
            indeg[j] += 1
    work = [i for i, d in indeg.items() if d == 0]
    left = len(indeg)
    while work:
        i = work.pop()
        left -= 1
        for j in succs[i]:
            indeg[j] -= 1
            if indeg[j] == 0:
                work.append(j)
    loop = [P.describe(i) for i, d in sorted(indeg.items()) if d > 0][:3]
    ctx.ob('C42.generator-stop', '%s.stops-after-running-cycle' % K, b is None and left == 0, loc,
           '%s: with the request low the generator must finish the running cycle, return to its initial state and stay there '
           'silent; %s%s' % (label, ('states that can be revisited forever without passing the initial state: %s; ' % loop) if left else '',
                             cex(b)))


# ------------------------------------------------------------------------------------------------ entry
def resolve(ctx, f):
    """Roles of the transceiver's submodules at clock frequency f."""
    tir = ctx.ir(TOP, ss_clk_freq=f) if f is not None else ctx.ir(TOP)
    dets = {}
    for role, out in DETECT_PORTS:
        ctx.sig(tir, out)
        dets[role] = _port_source(ctx, tir, out)
    ctx.sig(tir, TX_SIG)
    ctx.sig(tir, TX_IDLE)
    gsig = _port_source(ctx, tir, TX_SIG)
    gidle = _port_source(ctx, tir, TX_IDLE)
    return tir, dets, gsig, gidle


def _sub_input(ctx, obj):
    """The only input port of a submodule class (undriven signal its elaborate reads)."""
    ir = ctx.ir(obj.clsname, **_ctor_kwargs(ctx, obj))
    driven = {t for a in ir.assigns for t in a.lhs_sigs()}
    read = set()
    for item in list(ir.assigns) + [e for fsm in ir.fsms for e in fsm.edges]:
        for l in item.guard:
            if isinstance(l.e, E):
                read |= l.e.sigs()
        if getattr(item, 'kind', '') == 'assign' and isinstance(item.rhs, E):
            read |= item.rhs.sigs()
    ins = sorted(s for s in read - driven if s.startswith('self.'))
    ctx.need(len(ins) == 1, 'exactly one input port of %s (found %s)' % (obj.clsname, ins))
    return ins[0][len('self.'):]


def check_wiring(ctx, tir, dets, gsig, gidle):
    for role, (obj, port, a) in sorted(dets.items()):
        ctx.ob('C42.wiring', '%s.%s_detected' % (TOP, role), not a.guard and a.state is None, a.loc,
               '%s_detected must mirror the detector output unconditionally: %s' % (role, q.fmt(a)))
        inp = _sub_input(ctx, obj)
        ds = tir.drivers(obj.path + '.' + inp, exact=True)
        ok = len(ds) == 1 and ds[0].domain == 'comb' and not ds[0].guard and isinstance(ds[0].rhs, E) and ds[0].rhs.canon() == RX_IN
        ctx.ob('C42.wiring', '%s.%s-detector.input' % (TOP, role), ok, ds[0].loc if ds else a.loc,
               'the %s detector input %s must be %s, unconditionally: %s' % (role, inp, RX_IN, [q.fmt(d) for d in ds]))
    others = [o for o in dets.values()]
    ctx.ob('C42.wiring', '%s.detectors-distinct' % TOP, len({id(o[0]) for o in others}) == len(others), None,
           'each of polling/ping/reset_detected needs its own detector instance')
    ctx.ob('C42.wiring', '%s.generator-ports' % TOP, gsig[0] is gidle[0] and gsig[1] != gidle[1] and
           not gsig[2].guard and not gidle[2].guard, gsig[2].loc,
           'send_signaling and drive_electrical_idle must mirror two ports of the same generator: %s / %s' % (
               q.fmt(gsig[2]), q.fmt(gidle[2])))
    inp = _sub_input(ctx, gsig[0])
    ds = tir.drivers(gsig[0].path + '.' + inp, exact=True)
    ok = len(ds) == 1 and ds[0].domain == 'comb' and not ds[0].guard and isinstance(ds[0].rhs, E) and ds[0].rhs.canon() == TX_REQ
    ctx.ob('C42.wiring', '%s.generator.request' % TOP, ok, ds[0].loc if ds else gsig[2].loc,
           'the generator request %s must be %s, unconditionally: %s' % (inp, TX_REQ, [q.fmt(d) for d in ds]))


def run(ctx):
    freqs = THOROUGH_FREQS if ctx.tier == 'thorough' else QUICK_FREQS
    # default construction (what the PHY layer instantiates): wiring + spec constants
    tir, dets, gsig, gidle = resolve(ctx, None)
    check_wiring(ctx, tir, dets, gsig, gidle)
    for role, (obj, port, a) in sorted(dets.items()):
        check_spec(ctx, role, _pattern_of(ctx, obj), 'detector', a.loc)
    check_spec(ctx, GEN_ROLE, _pattern_of(ctx, gsig[0]), 'generator', gsig[2].loc)
    # the clock frequency reaches every submodule
    tir2, dets2, gsig2, gidle2 = resolve(ctx, FWD_FREQ)
    for name, obj, loc in [(r, d[0], d[2].loc) for r, d in sorted(dets2.items())] + [('generator', gsig2[0], gsig2[2].loc)]:
        vals = _ctor_values(obj)
        ctx.ob('C42.clock-forwarded', '%s.%s.clock' % (TOP, name), any(v is not None and _close(v, FWD_FREQ) for v in vals), loc,
               '%s(ss_clk_freq=%g) must construct its %s with that clock frequency; constructor numbers: %s' % (
                   TOP, FWD_FREQ, name, [v for v in vals if v is not None]))
    # behaviour at each frequency
    for f in freqs:
        tir_f, dets_f, gsig_f, gidle_f = resolve(ctx, f)
        for role, (obj, port, a) in sorted(dets_f.items()):
            if ctx.tier != 'thorough' and f != freqs[0] and role not in QUICK_SECOND_ROLES:
                continue
            pat = _pattern_of(ctx, obj)
            eff = _effective(ctx, role, pat)
            check_detector(ctx, role, f, obj, port, eff)
        ctx.need(gsig_f[0] is gidle_f[0], 'one generator drives send_signaling and drive_electrical_idle')
        eff = _effective(ctx, GEN_ROLE, _pattern_of(ctx, gsig_f[0]))
        check_generator(ctx, f, gsig_f[0], gsig_f[1], gidle_f[1], eff)


def _effective(ctx, role, pattern):
    """Reference times: the spec value (the pattern's own value where the spec allows several and it is one of them)."""
    spec = SPEC[role]
    eff = {}
    for section in ('burst', 'repeat'):
        if spec[section] is None:
            eff[section] = None
            continue
        eff[section] = {}
        for field in ('t_min', 't_typ', 't_max'):
            want = spec[section][field]
            if want is None:
                eff[section][field] = None
                continue
            got = None
            sec = pattern.attrs.get(section) if hasattr(pattern, 'attrs') else None
            if sec is not None and hasattr(sec, 'attrs'):
                got = pval(sec.attrs.get(field))
            eff[section][field] = got if any(_close(got, w) for w in want) else want[0]
    return eff
