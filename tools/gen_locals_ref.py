#!/venv/bin/python
"""gen_locals_ref.py [tree] -- write sa/locals_ref.json: for every top-level function / method of <tree>/luna (default /repo),
the ordered local names with the fingerprint of their declarations (see sa/alpha.py).  Run by hand on the reference tree;
the output is committed (a frozen table: the checks never write it)."""
import ast, json, os, sys
V = os.path.dirname(os.path.dirname(os.path.abspath(__file__)))
sys.path.insert(0, V)
sys.dont_write_bytecode = True
from sa import alpha
repo = sys.argv[1] if len(sys.argv) > 1 else '/repo'
out = {}
nf = nn = 0
for dp, dn, fn in os.walk(os.path.join(repo, 'luna')):
    dn[:] = sorted(d for d in dn if d != '__pycache__')
    for f in sorted(fn):
        if not f.endswith('.py'):
            continue
        p = os.path.join(dp, f)
        rel = os.path.relpath(p, repo)
        try:
            tree = ast.parse(open(p, encoding='utf-8').read())
        except SyntaxError:
            continue
        d = {}
        for qual, fun in alpha.top_functions(tree):
            lb = alpha.local_bindings(fun)
            if lb:
                d[qual] = [list(x) for x in lb]
                nf += 1
                nn += len(lb)
        if d:
            out[rel] = d
json.dump(out, open(alpha.REF_PATH, 'w'), indent=0, sort_keys=True)
print('functions', nf, 'local names', nn, '->', alpha.REF_PATH)
