#!/venv/bin/python
"""Regenerate /verif/MANIFEST.json from the rule modules present under sa/rules (run by hand; committed output)."""
import importlib, json, os, sys, subprocess
HERE = os.path.dirname(os.path.dirname(os.path.abspath(__file__)))
sys.path.insert(0, HERE)
sys.dont_write_bytecode = True

NA = {}     # every property now has (or is getting) a rule module; see DESIGN.md section 5
props = [json.loads(l) for l in open(os.path.join(HERE, 'properties.jsonl'))]
fix_commits = []
try:
    out = subprocess.run(['git', '-C', '/repo', 'log', '--format=%H %s'], capture_output=True, text=True).stdout
    fix_commits = [l.split()[0] for l in out.splitlines() if l.split(' ', 1)[1].startswith('fix:')]
except Exception:
    pass
checks, na = [], []
for p in props:
    pid = p['id']
    path = os.path.join(HERE, 'sa', 'rules', pid + '.py')
    if os.path.exists(path) and pid not in os.environ.get('EXCLUDE', '').split():
        mod = importlib.import_module('sa.rules.' + pid)
        checks.append({
            'property_id': pid,
            'quick_cmd': '/venv/bin/python /verif/vcheck %s' % pid,
            'thorough_cmd': '/venv/bin/python /verif/vcheck %s --thorough' % pid,
            'evidence_file': '/verif/evidence/%s.json' % pid,
            'replay_cmd_template': '/venv/bin/python /verif/vcheck %s --replay {path}' % pid,
            'engine': 'sa',
            'level_claimed': {
                'category': 'other',
                'text': 'Static analysis: structural clauses that are necessary conditions of the property are decided '
                        'for every path/input from the source (module IR extracted from elaborate() by AST abstract '
                        'interpretation). Decides: ' + mod.DECIDES + ' Not decided: ' + mod.NOT_DECIDED,
                'design_ref': 'DESIGN.md section 4, ' + pid,
            },
            'level_note': 'Trusted: CPython ast; the extractor in /verif/sa and its model of the Amaranth DSL; the spec '
                          'constants quoted in sa/rules/%s.py. No part of /repo is imported, simulated or solved.' % pid,
            'technique': getattr(mod, 'TECHNIQUE', 'static analysis of the source text: Python-ast abstract interpretation of '
                                 'elaborate() -> module IR; each obligation is decided (A) structurally (guard conjuncts, drivers, '
                                 'statement order, FSM-graph reachability/cuts, folded constants, widths, wiring), (B) by a one-cycle '
                                 'truth table of the extracted expressions over all valuations of their atoms (data symbolic / affine '
                                 'over GF(2)), or (C) by an exhaustive fixpoint over a finite abstraction (FSM state x counter region x '
                                 'flags x reference monitor) under all inputs; /repo is never imported or run, no solver'),
        })
    else:
        na.append({'property_id': pid, 'reason': NA.get(pid, 'rule module not finished/validated at the time of this commit; not claimed')})
man = {
    'version': 1,
    'setup_cmd': '/venv/bin/python -m compileall -q /verif/sa /verif/vcheck',
    'hooks': {
        'guard': 'LUNA_VERIF',
        'enable': 'no hooks are compiled into /repo: the checks read the source text only (LUNA_VERIF is unused)',
        'baseline_off_cmd': 'cd /repo && /venv/bin/python -m pytest -ra -q -p no:cacheprovider --timeout=900 --continue-on-collection-errors',
        'source_commits': fix_commits,
        'add_only': True,
    },
    'engines': [{'name': 'sa', 'path': '/verif/sa', 'serves_properties': [c['property_id'] for c in checks],
                 'kind_free_text': 'repository-specific static analyser: Python-ast abstract interpreter that lifts Amaranth '
                                   'elaborate() methods to a module IR (guarded assignments, FSM graphs, wiring) plus per-property rules'}],
    'checks': checks,
    'not_applicable': na,
    'notes': 'Exit codes: 0 held, 1 VIOLATION, 2 ANALYSIS-ERROR (anchor vanished / construct not understood; no verdict). '
             'Known findings: /verif/known_findings.json.',
}
json.dump(man, open(os.path.join(HERE, 'MANIFEST.json'), 'w'), indent=1)
print('checks', len(checks), 'not_applicable', len(na))
