"""C35 -- link commands round-trip and corrupted link commands are rejected."""
from ..ir import E, AnalysisError
from .. import q, gf2
from ..fsm import state_outcomes

TITLE = 'link command framing (generator / detector)'
FLOOR = 30
DECIDES = ('Everything below is decided on the bit level: the expressions driving the generator stream and the detector '
           'guards are evaluated to GF(2)-affine forms over their inputs (last assignment wins, slice assignments and '
           'combinational locals resolved, undriven bits 0), sets of equality guards are compared as affine subspaces '
           '(Gaussian elimination), so the verdicts hold for all 2^37 values of (valid, data, ctrl) and do not depend on '
           'the formulation. Generator: (a) the FSM goes idle -generate-> header word -ready-> command word -ready-> idle, '
           'holds each word while ready is low, drives valid as the constant 1 in exactly those two states and raises done '
           'only when the command word is accepted; (b) the header word is SLC SLC SLC EPF (K30.7 x3, K23.7, first '
           'symbol in the least significant byte) with ctrl 1111; (c) the command word is subtype[0:4], 000, command[7:11], '
           'CRC-5 of wire bits 0..10 in [11:16], the upper half equals the lower half, ctrl 0000; (d) the word depends only '
           'on registers loaded from command / subtype in the idle state no later than the generate cycle. Detector: (e) '
           'every edge into the decision state requires exactly valid & data == SLC SLC SLC EPF & ctrl == 1111; (f) '
           'new_command is raised at exactly one site, in that state, under exactly {valid, ctrl == 0, both halves equal, '
           'CRC-5 of bits 0..10 == bits 11..15}, and is cleared by an unconditional earlier default; (g) command / subtype '
           'are captured whenever the strobe is raised, in the same clock domain, from bits 7..10 / 0..3 (modulo the '
           'acceptance condition), command_class / command_type are command[2:4] / command[0:2]; (h) the decision state '
           'waits for valid and then always returns to the start state, which is left only towards the decision state. '
           'Writer/reader agreement: (i) the generator outputs, substituted into the detector conditions, satisfy the '
           'start and acceptance conditions identically and the captured command / subtype are the generator inputs. ')
NOT_DECIDED = ('the CRC-5 polynomial as such (C30 decides the XOR network; here only that the check field on the wire is the '
               'reference CRC-5 of the eleven bits before it), who arbitrates the generator among several requesters, and the '
               'physical layer between source and sink (scrambling, alignment, skip removal).')

# USB 3.2 rev 1.0: table 6-1 (K-symbols), 7.2.2.1 (LCSTART framing), table 7-4 (link command word)
K = lambda x, y: (y << 5) | x
SLC, EPF = K(30, 7), K(23, 7)
LCSTART_DATA = SLC | (SLC << 8) | (SLC << 16) | (EPF << 24)      # first symbol on the wire in the low byte
LCSTART_CTRL = 0b1111
SUBTYPE_BITS, RESERVED_BITS, COMMAND_BITS = (0, 4), (4, 7), (7, 11)        # CRC-5 of bits 0..10 in bits 11..15
CLASS_BITS, TYPE_BITS = (9, 11), (7, 9)


# ------------------------------------------------------------------------------------------------ bit-level evaluation
def _fit(fs, w):
    """Amaranth assignment / comparison of unsigned values: zero-extend or truncate to w bits."""
    return list(fs[:w]) + [0] * (w - len(fs))


def _vars_of(vs, f):
    out = []
    k, g = 0, f >> 1
    while g:
        if g & 1:
            out.append(vs.names[k])
        g >>= 1
        k += 1
    return out


class Cone:
    """Affine forms of the values signals take in one FSM state (or outside the FSM), following combinational drivers."""

    def __init__(self, ctx, ir, vs, fsm=None, state=None):
        self.ctx, self.ir, self.vs = ctx, ir, vs
        self.here = (fsm.id, state) if fsm is not None else None
        self.assume = set()         # guard literals of the construct under evaluation: drivers conditional on them count
        self._net = {}

    def is_net(self, name):
        return any(a.domain == 'comb' for a in self.ir.drivers(name, exact=True))

    def _target(self, lhs, name):
        """(lo, hi) of the bits of `name` written by lhs."""
        if lhs.op == 'sig' and lhs.args[0].name == name:
            return 0, self._width(name)
        if lhs.op == 'slice' and isinstance(lhs.args[1], int) and isinstance(lhs.args[2], int):
            lo, hi = self._target(lhs.args[0], name)
            return lo + lhs.args[1], min(hi, lo + lhs.args[2])
        raise AnalysisError('assignment target not understood in the cone of %s: %s' % (name, lhs.canon()))

    def _width(self, name):
        si = self.ir.signals.get(name)
        if si is None or si.w is None:
            raise AnalysisError('width of %s unknown' % name)
        return si.w

    def net(self, name):
        """Unresolved forms of a combinationally driven signal as seen in this state."""
        if name in self._net:
            return self._net[name]
        w = self._width(name)
        si = self.ir.signals[name]
        init = si.init if isinstance(si.init, int) else 0
        bits = [(init >> i) & 1 for i in range(w)]
        ds = self.ir.drivers(name, exact=True)
        if any(a.domain != 'comb' for a in ds):
            raise AnalysisError('%s is driven from several domains' % name)
        for a in sorted(ds, key=lambda a: a.order):
            if a.state is not None and a.state != self.here:
                continue
            if a.guard and not q.atoms(a) <= self.assume:
                raise AnalysisError('conditional combinational driver in the cone of the link command word is not '
                                    'understood: %s' % q.fmt(a))
            lo, hi = self._target(a.lhs, name)
            bits[lo:hi] = _fit(self.forms(a.rhs), hi - lo)
        self._net[name] = bits
        return bits

    def forms(self, e):
        try:
            return gf2.forms(e, self.vs)
        except gf2.NotAffine as ex:
            raise AnalysisError('expression in the link command path is not a bit-level (XOR / slice / Cat) expression: %s' % ex)

    def resolve(self, fs):
        """Replace the variables of combinational nets by their definitions until only inputs / registers remain."""
        for _ in range(40):
            mapping = {}
            for f in fs:
                for key in _vars_of(self.vs, f):
                    if key not in mapping and self.is_net(key[0]):
                        mapping[key] = self.net(key[0])[key[1]]
            if not mapping:
                return fs
            fs = gf2.substitute(fs, self.vs, mapping)
        raise AnalysisError('combinational loop in the link command path')

    def value(self, name):
        if self.is_net(name):
            return self.resolve(self.net(name))
        return self.vs.vec(name, self._width(name))

    def expr(self, e):
        return self.resolve(self.forms(e))

    def constraints(self, guard):
        """The guard (a conjunction of literals) as a list of affine forms that must all be 0.  Combinational locals
        assigned under (part of) this very guard are taken at the value they have when the guard holds."""
        from ..fsm import guard_atoms
        self.assume = set(guard_atoms(guard))
        self._net = {}
        out = []
        for l in guard:
            if l.kind != 'cond' or not isinstance(l.e, E):
                raise AnalysisError('guard literal not understood: %s' % l.canon())
            e = l.e
            if e.op == '==' and len(e.args) == 2:
                a, b = self.forms(e.args[0]), self.forms(e.args[1])
                w = max(len(a), len(b))
                d = [x ^ y for x, y in zip(_fit(a, w), _fit(b, w))]
                if not l.pos:
                    if w != 1:
                        raise AnalysisError('inequality in a link command guard is not an affine condition: %s' % l.canon())
                    d = [d[0] ^ 1]
            else:
                f = self.forms(e)
                if len(f) != 1:
                    raise AnalysisError('multi-bit value used as a condition: %s' % l.canon())
                d = [f[0] ^ 1] if l.pos else [f[0]]
            out += self.resolve(d)
        return out


def basis_of(rows):
    """Row echelon basis {pivot: row} of affine forms (bit 0 = constant term)."""
    basis = {}
    for r in rows:
        r = reduce_by(r, basis)
        if r:
            basis[r.bit_length() - 1] = r
    return basis


def reduce_by(f, basis):
    while f:
        p = f.bit_length() - 1
        if p not in basis:
            return f
        f ^= basis[p]
    return 0


def not_implied(rows, basis):
    return [r for r in rows if reduce_by(r, basis)]


def parity(x):
    return bin(x).count('1') & 1


# ------------------------------------------------------------------------------------------------ expectations
def crc5_rows(word):
    """word[11:16] must be the CRC-5 check field of word[0:11] (wire order = bit 0 first)."""
    field = gf2.crc_field(gf2.serial_crc_step([1] * 5, word[0:11], 0x05, 5))
    return [word[11 + j] ^ field[j] for j in range(5)]


def const_rows(vec, value):
    return [f ^ ((value >> i) & 1) for i, f in enumerate(vec)]


def compare_guard(ctx, vs, rule, key, loc, found, groups, what):
    """One obligation per expected group (missing => accepts too much) and one for surplus conditions (rejects too much)."""
    fb = basis_of(found)
    if 0 in fb:
        ctx.ob(rule, key + '.satisfiable', False, loc, '%s can never hold (contradictory conditions)' % what)
        return
    allrows = []
    for slug, name, rows in groups:
        allrows += rows
        miss = not_implied(rows, fb)
        ctx.ob(rule, '%s.%s' % (key, slug), not miss, loc,
               '%s does not require "%s": it also holds when %s != 0 (%d of %d bit conditions not enforced)' % (
                   what, name, vs.describe(miss[0])[:120] if miss else '-', len(miss), len(rows)))
    extra = not_implied(found, basis_of(allrows))
    ctx.ob(rule, key + '.nothing-else', not extra, loc,
           '%s has a condition beyond the specified ones, so well-formed input is refused whenever %s != 0' % (
               what, vs.describe(extra[0])[:120] if extra else '-'))


# ------------------------------------------------------------------------------------------------ generator
def check_generator(ctx, vs):
    G = 'LinkCommandGenerator'
    ir = ctx.ir(G, 'usb3.link.command')
    fsm = ctx.the_fsm(ir)
    RDY, GEN, VAL = 'self.source.ready', 'self.generate', 'self.source.valid'
    idle = fsm.init
    vstates = []
    for a in q.raises(ir, VAL):
        ctx.need(a.state is not None and a.state[0] == fsm.id, 'source.valid is driven inside the FSM')
        if a.state[1] not in vstates:
            vstates.append(a.state[1])
    ctx.need(len(vstates) == 2 and idle not in vstates,
             'exactly two sending states drive source.valid, none of them the idle state (found %s)' % vstates)
    succ = {e.dst for e in fsm.out_edges(idle)}
    first = [s for s in vstates if s in succ]
    hdr = first[0] if len(first) == 1 else sorted(vstates, key=fsm.states.index)[0]
    cmd = [s for s in vstates if s != hdr][0]

    # (a) sequencing
    def outs(st, assume):
        return set(state_outcomes(fsm, st, assume))
    for st, role, atom, nxt, nrole in ((idle, 'idle', GEN, hdr, 'the header state'), (hdr, 'header', RDY, cmd, 'the command state'),
                                       (cmd, 'command', RDY, idle, 'idle')):
        go, hold = outs(st, {atom: True}), outs(st, {atom: False})
        ctx.ob('C35.gen-sequence', '%s.%s.advance' % (G, role), go == {nxt}, fsm.state_loc[st],
               'with %s the %s state (%s) must go to %s (%s) whatever else holds: outcomes %s' % (
                   atom, role, st, nrole, nxt, sorted(map(str, go))))
        ctx.ob('C35.gen-sequence', '%s.%s.hold' % (G, role), hold == {None}, fsm.state_loc[st],
               'without %s the %s state (%s) must not move: outcomes %s' % (atom, role, st, sorted(map(str, hold))))
    for st, role in ((hdr, 'header'), (cmd, 'command')):
        ds = sorted([a for a in ir.drivers(VAL, exact=True) if a.state in (None, (fsm.id, st))], key=lambda a: a.order)
        base = [k for k, a in enumerate(ds) if not a.guard]
        ok = bool(base) and all(q.is_one(a.rhs) for a in ds[base[-1]:])        # last assignment wins
        ctx.ob('C35.gen-valid', '%s.%s.valid' % (G, role), ok, ds[0].loc if ds else fsm.state_loc[st],
               'source.valid must be the constant 1 throughout the %s state (in particular independent of source.ready): %s' % (
                   role, [q.fmt(a) for a in ds]))
    dn = q.raises(ir, 'self.done')
    ok = bool(dn) and all(a.state == (fsm.id, cmd) and q.has(a, RDY) for a in dn)
    ctx.ob('C35.gen-done', G + '.done', ok, dn[0].loc if dn else fsm.loc,
           'done may only be raised when the command word is accepted (command state & source.ready): %s' % [q.fmt(a) for a in dn])

    # (b) header word
    ch = Cone(ctx, ir, vs, fsm, hdr)
    hdata, hctrl = ch.value('self.source.payload'), ch.value('self.source.ctrl')
    ctx.ob('C35.gen-header', G + '.header.data', hdata == [(LCSTART_DATA >> i) & 1 for i in range(32)], fsm.state_loc[hdr],
           'the start word must be SLC SLC SLC EPF = %#010x (first symbol in the low byte); the header state drives %s' % (
               LCSTART_DATA, _show(vs, hdata)))
    ctx.ob('C35.gen-header', G + '.header.ctrl', hctrl == [1] * 4, fsm.state_loc[hdr],
           'all four symbols of the start word are control symbols (ctrl = 1111); the header state drives %s' % _show(vs, hctrl))

    # (c) + (d) command word
    cc = Cone(ctx, ir, vs, fsm, cmd)
    word, cctrl = cc.value('self.source.payload'), cc.value('self.source.ctrl')
    ctx.need(len(word) == 32 and len(cctrl) == 4, 'source.data is 32 bits and source.ctrl 4 bits')
    # where do the bits come from?
    src_of, bad_src = {}, []
    for name in sorted({k[0] for f in word + cctrl for k in _vars_of(vs, f)}):
        ds = ir.drivers(name, exact=True)
        srcs = {a.rhs.canon() for a in ds if isinstance(a.rhs, E)}
        latched = bool(ds) and all(a.domain == fsm.domain and a.state == (fsm.id, idle) and a.lhs.op == 'sig' and
                                   q.atoms(a) <= {(GEN, True)} for a in ds) and len(srcs) == 1 and \
            srcs <= {'self.command', 'self.subtype'}
        if not latched:
            bad_src.append(name)
        if len(srcs) == 1 and srcs <= {'self.command', 'self.subtype'}:
            src_of[name] = list(srcs)[0]          # (also for a badly latched register, so that the layout is judged on its own)
        elif name in ('self.command', 'self.subtype'):
            src_of[name] = name
    ctx.ob('C35.gen-latched', G + '.command-word.sources', not bad_src, fsm.state_loc[cmd],
           'the command word may only depend on registers loaded from command / subtype in the idle state (at the latest in '
           'the generate cycle, nowhere else); it reads %s' % [(n, [q.fmt(a) for a in ir.drivers(n, exact=True)][:3]) for n in bad_src])
    ctx.ob('C35.gen-latched', G + '.command-word.both-inputs', sorted(set(src_of.values())) == ['self.command', 'self.subtype'],
           fsm.state_loc[cmd], 'the command word must carry both command and subtype: sources %s' % src_of)
    mapping = {}
    for name, src in src_of.items():
        for i in range(4):
            mapping[(name, i)] = vs.bit('tx.' + src.split('.')[-1], i)
    word = gf2.substitute(word, vs, mapping)
    tx_cmd, tx_sub = vs.vec('tx.command', 4), vs.vec('tx.subtype', 4)
    loc = fsm.state_loc[cmd]
    for nm, (lo, hi), want in (('subtype', SUBTYPE_BITS, tx_sub), ('reserved', RESERVED_BITS, [0] * 3), ('command', COMMAND_BITS, tx_cmd)):
        ctx.ob('C35.gen-layout', '%s.command-word.%s' % (G, nm), word[lo:hi] == want, loc,
               'bits %d..%d of the command word must be %s; they are %s' % (lo, hi - 1, _show(vs, want), _show(vs, word[lo:hi])))
    bad = [j for j, r in enumerate(crc5_rows(word)) if r]
    ctx.ob('C35.gen-layout', G + '.command-word.crc5', not bad, loc,
           'bits 11..15 must be the CRC-5 of bits 0..10 as they appear on the wire; check bits %s differ, e.g. bit %s is %s' % (
               [11 + j for j in bad], 11 + bad[0] if bad else '-', _show(vs, word[11 + bad[0]:12 + bad[0]]) if bad else '-'))
    diff = [i for i in range(16) if word[i] != word[16 + i]]
    ctx.ob('C35.gen-layout', G + '.command-word.replica', not diff, loc,
           'the upper half of the word must repeat the lower half; bits %s differ, e.g. data[%s] = %s' % (
               diff, 16 + diff[0] if diff else '-', _show(vs, word[16 + diff[0]:17 + diff[0]]) if diff else '-'))
    ctx.ob('C35.gen-layout', G + '.command-word.ctrl', cctrl == [0] * 4, loc,
           'the command word consists of data symbols only (ctrl = 0000); the command state drives %s' % _show(vs, cctrl))
    return dict(hdata=hdata, hctrl=hctrl, word=word, ctrl=cctrl, tx_cmd=tx_cmd, tx_sub=tx_sub)


def _show(vs, fs):
    if all(f in (0, 1) for f in fs):
        return '%#x' % sum(f << i for i, f in enumerate(fs))
    return '[' + ', '.join(vs.describe(f)[:60] for f in fs) + ']'


# ------------------------------------------------------------------------------------------------ detector
def check_detector(ctx, vs):
    D = 'LinkCommandDetector'
    ir = ctx.ir(D, 'usb3.link.command')
    fsm = ctx.the_fsm(ir)
    V = 'self.sink.valid'
    up = q.raises(ir, 'self.new_command')
    ctx.need(len(up) == 1 and up[0].state is not None and up[0].state[0] == fsm.id and q.is_one(up[0].rhs),
             'exactly one site raises new_command, inside the FSM (found %s)' % [q.fmt(a) for a in up])
    up = up[0]
    dec = up.state[1]
    start = fsm.init
    ctx.ob('C35.det-states', D + '.decision-state', dec != start, fsm.state_loc[dec],
           'link commands may only be accepted in a state entered through the start word, not in the initial state')
    pay, ctl, val = vs.vec('self.sink.payload', 32), vs.vec('self.sink.ctrl', 4), vs.vec(V, 1)
    ctx.need(ir.signals['self.sink.payload'].w == 32 and ir.signals['self.sink.ctrl'].w == 4, 'sink is 32 + 4 bits wide')

    # (e) start word
    ins = [e for e in fsm.in_edges(dec)]
    ctx.need(ins, 'edges into the decision state')
    start_groups = [('valid', 'sink.valid', [val[0] ^ 1]), ('data', 'data == SLC SLC SLC EPF', const_rows(pay, LCSTART_DATA)),
                    ('ctrl', 'ctrl == 1111', const_rows(ctl, LCSTART_CTRL))]
    start_rows = []
    for n, e in enumerate(sorted(ins, key=lambda e: e.order)):
        ce = Cone(ctx, ir, vs, fsm, e.src)
        rows = ce.constraints(e.guard)
        start_rows.append(rows)
        compare_guard(ctx, vs, 'C35.det-start', D + '.start' + ('' if n == 0 else '#%d' % (n + 1)), e.loc, rows, start_groups,
                      'the transition into the decision state (%s -> %s)' % (e.src, e.dst))
    so = set(state_outcomes(fsm, start))
    ctx.ob('C35.det-states', D + '.start-state.exits', so <= {None, dec}, fsm.state_loc[start],
           'the start state may only be left towards the decision state: outcomes %s' % sorted(map(str, so)))

    # (f) acceptance
    cd = Cone(ctx, ir, vs, fsm, dec)
    acc = cd.constraints(up.guard)
    lo, hi = pay[0:16], pay[16:32]
    acc_groups = [('valid', 'sink.valid', [val[0] ^ 1]), ('ctrl', 'ctrl == 0000', const_rows(ctl, 0)),
                  ('copies-equal', 'both 16-bit copies equal', [a ^ b for a, b in zip(lo, hi)]),
                  ('crc5', 'CRC-5 of bits 0..10 == bits 11..15', crc5_rows(lo))]
    compare_guard(ctx, vs, 'C35.det-accept', D + '.accept', up.loc, acc, acc_groups, 'the acceptance condition of new_command')
    accb = basis_of(acc)
    dflt = [a for a in q.clears(ir, 'self.new_command') if not a.guard and a.state is None and a.order < up.order and a.domain == up.domain]
    other = [a for a in ir.drivers('self.new_command', exact=True) if a is not up and a not in dflt]
    ctx.ob('C35.det-strobe', D + '.new_command.default', bool(dflt) and not other and up.domain == fsm.domain, up.loc,
           'new_command must be a strobe: cleared by an unconditional default before the raise, in the clock domain of the '
           'FSM: %s' % [q.fmt(a)[:160] for a in ir.drivers('self.new_command', exact=True) if a is not up])

    # (g) captured fields
    got = {}
    for sig, (flo, fhi) in (('self.command', COMMAND_BITS), ('self.subtype', SUBTYPE_BITS)):
        ds = ir.drivers(sig, exact=True)
        ctx.need(len(ds) == 1 and ds[0].lhs.op == 'sig', 'exactly one whole-signal capture of %s (found %s)' % (sig, [q.fmt(a)[:120] for a in ds]))
        a = ds[0]
        short = sig.split('.')[-1]
        cone = Cone(ctx, ir, vs, fsm, a.state[1] if a.state else None)
        miss = not_implied(cone.constraints(a.guard), accb) if a.state in (None, up.state) else [1]
        ctx.ob('C35.det-capture', '%s.%s.when' % (D, short), not miss and a.domain == up.domain, a.loc,
               '%s must be captured in every cycle that raises new_command (same state, same clock domain, no further '
               'condition): %s' % (short, q.fmt(a)[:200]))
        f = _fit(cone.expr(a.rhs), 4)
        got[short] = f
        bad = [i for i in range(4) if reduce_by(f[i] ^ pay[flo + i], accb)]
        ctx.ob('C35.det-capture', '%s.%s.bits' % (D, short), not bad and len(cone.forms(a.rhs)) == fhi - flo, a.loc,
               '%s must be bits %d..%d of the accepted command word; captured: %s' % (short, flo, fhi - 1, _show(vs, f)))
    vs2 = gf2.Vars()
    c0 = Cone(ctx, ir, vs2, None, None)
    reg = vs2.vec('self.command', 4)
    for sig, (flo, fhi) in (('self.command_class', CLASS_BITS), ('self.command_type', TYPE_BITS)):
        ctx.need(c0.is_net(sig), sig + ' is a combinational output')
        f = c0.value(sig)
        want = reg[flo - COMMAND_BITS[0]:fhi - COMMAND_BITS[0]]
        ds = ir.drivers(sig, exact=True)
        ctx.ob('C35.det-capture', '%s.%s' % (D, sig.split('.')[-1]), f == want, ds[0].loc,
               '%s is bits %d..%d of the command word = command[%d:%d]; found %s' % (
                   sig.split('.')[-1], flo, fhi - 1, flo - 7, fhi - 7, _show(vs2, f)))

    # (h) one-word decision
    go, hold = set(state_outcomes(fsm, dec, {V: True})), set(state_outcomes(fsm, dec, {V: False}))
    ctx.ob('C35.det-states', D + '.decision-state.returns', go == {start}, fsm.state_loc[dec],
           'once the word after the start word is valid the decision state must return to the start state whether or not '
           'the word was accepted: outcomes %s' % sorted(map(str, go)))
    ctx.ob('C35.det-states', D + '.decision-state.waits', hold == {None}, fsm.state_loc[dec],
           'the decision state must wait for sink.valid: outcomes without valid %s' % sorted(map(str, hold)))
    return dict(start_rows=start_rows, acc=acc, got=got, pay=pay, ctl=ctl, val=val)


# ------------------------------------------------------------------------------------------------ agreement
def check_agreement(ctx, vs, g, d):
    def wire(payload, ctrl):
        m = {('self.sink.valid', 0): 1}
        for i in range(32):
            m[('self.sink.payload', i)] = payload[i]
        for i in range(4):
            m[('self.sink.ctrl', i)] = ctrl[i]
        return m
    hm, cm = wire(g['hdata'], g['hctrl']), wire(g['word'], g['ctrl'])
    for n, rows in enumerate(d['start_rows']):
        left = [r for r in gf2.substitute(rows, vs, hm) if r]
        ctx.ob('C35.agreement', 'generator-header->detector-start' + ('' if n == 0 else '#%d' % (n + 1)), not left, None,
               'the start word the generator sends does not satisfy the detector start condition: %s != 0' % (
                   vs.describe(left[0])[:100] if left else '-'))
    left = [r for r in gf2.substitute(d['acc'], vs, cm) if r]
    ctx.ob('C35.agreement', 'generator-word->detector-accept', not left, None,
           'a generated command word is not accepted by the detector for every command / subtype: %s != 0' % (
               vs.describe(left[0])[:100] if left else '-'))
    for short, want in (('command', g['tx_cmd']), ('subtype', g['tx_sub'])):
        f = gf2.substitute(d['got'][short], vs, cm)
        ctx.ob('C35.agreement', 'generator.%s->detector.%s' % (short, short), f == want, None,
               'the detector reports %s = %s for a generated word, must be the generator input %s' % (short, _show(vs, f), short))


def concrete(ctx, vs, g, d):
    """Thorough tier: replay the extracted forms on concrete numbers against an integer reference model."""
    idx = lambda name, i: 1 + vs.index[(name, i)]

    def env(valid, data, ctrl, cmd=0, sub=0):
        x = 1
        for name, w, v in (('self.sink.valid', 1, valid), ('self.sink.payload', 32, data), ('self.sink.ctrl', 4, ctrl),
                           ('tx.command', 4, cmd), ('tx.subtype', 4, sub)):
            for i in range(w):
                if (v >> i) & 1 and (name, i) in vs.index:
                    x |= 1 << idx(name, i)
        return x

    def ref_word(cmd, sub):
        w = sub | (cmd << 7)
        return w | (gf2.crc_reference_int([(w >> i) & 1 for i in range(11)], 0x05, 5) << 11)

    def accepts(x):
        return not any(parity(r & x) for r in d['acc'])

    def ref_accepts(valid, data, ctrl):
        lo, hi = data & 0xFFFF, data >> 16
        return bool(valid) and ctrl == 0 and lo == hi and (lo >> 11) == gf2.crc_reference_int([(lo >> i) & 1 for i in range(11)], 0x05, 5)

    bad_gen = bad_rt = None
    n = 0
    for cmd in range(16):
        for sub in range(16):
            x = env(1, 0, 0, cmd, sub)
            w = sum(parity(f & x) << i for i, f in enumerate(g['word']))
            want = ref_word(cmd, sub)
            want |= want << 16
            if w != want and bad_gen is None:
                bad_gen = (cmd, sub, hex(w), hex(want))
            y = env(1, want, 0)
            rc = sum(parity(f & y) << i for i, f in enumerate(d['got']['command']))
            rs = sum(parity(f & y) << i for i, f in enumerate(d['got']['subtype']))
            if (not accepts(y) or (rc, rs) != (cmd, sub)) and bad_rt is None:
                bad_rt = (cmd, sub, accepts(y), rc, rs)
            n += 1
    ctx.ob('C35.concrete', 'generator.all-256-words', bad_gen is None, None,
           'generated word differs from the reference model (command, subtype, got, want): %s' % (bad_gen,))
    ctx.ob('C35.concrete', 'detector.all-256-words', bad_rt is None, None,
           'a well-formed word is not reported as sent (command, subtype, accepted, reported command, subtype): %s' % (bad_rt,))
    # corruptions: every 16-bit value in both halves, every 1- and 2-bit corruption of well-formed words, ctrl, valid
    bad = None
    for lo in range(1 << 16):
        data = lo | (lo << 16)
        if accepts(env(1, data, 0)) != ref_accepts(1, data, 0) and bad is None:
            bad = (1, hex(data), 0)
    for cmd in range(16):
        for sub in range(16):
            w = ref_word(cmd, sub)
            w |= w << 16
            for i in range(32):
                for j in range(i, 32):
                    data = w ^ (1 << i) ^ ((1 << j) if j != i else 0)
                    if accepts(env(1, data, 0)) and bad is None:
                        bad = (1, hex(data), 0)
            for ctrl in range(1, 16):
                if accepts(env(1, w, ctrl)) and bad is None:
                    bad = (1, hex(w), ctrl)
            if accepts(env(0, w, 0)) and bad is None:
                bad = (0, hex(w), 0)
    ctx.ob('C35.concrete', 'detector.corruptions', bad is None, None,
           'acceptance differs from the reference model for (valid, data, ctrl) = %s' % (bad,))


def run(ctx):
    vs = gf2.Vars()
    g = check_generator(ctx, vs)
    d = check_detector(ctx, vs)
    check_agreement(ctx, vs, g, d)
    if ctx.tier == 'thorough':
        concrete(ctx, vs, g, d)
