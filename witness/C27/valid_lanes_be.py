"""C27 witness -- ConstantStreamGenerator, 32-bit stream, data_endianness="big": when max_length cuts a word short, the
per-byte valid bits mark the wrong lanes.

Run from the tree under test:   cd <tree> && /venv/bin/python /verif/witness/C27/valid_lanes_be.py

A big-endian ROM word holds data byte i of its 4-byte chunk in lane 3-i (int.from_bytes(chunk, "big")).  The bytes due in
a word cut to k bytes by max_length are chunk[0:k]; they sit in lanes 3 .. 4-k.  The generator raises valid bits 0 .. k-1
(Const(1).replicate(k)), i.e. it marks chunk[4-k:4] -- bytes that must NOT be sent -- and leaves the bytes that must be
sent unmarked.  (With little-endian data the same mask is right: chunk[i] is in lane i.)
Exit status: 1 if a mismatch is observed (defect present), 0 otherwise.
"""
import os
import sys
import warnings

warnings.filterwarnings('ignore')
sys.path.insert(0, os.getcwd())

from amaranth.sim import Simulator
from luna.gateware.stream.generator import ConstantStreamGenerator
from luna.gateware.usb.stream import SuperSpeedStreamInterface

DATA = bytes(range(0xA1, 0xA8))          # a1 a2 a3 a4 | a5 a6 a7 : two ROM words, the second one partial


def run(endianness, max_length):
    dut = ConstantStreamGenerator(DATA, stream_type=SuperSpeedStreamInterface, max_length_width=4, data_endianness=endianness)
    sim = Simulator(dut)
    sim.add_clock(1e-6)
    words = []

    async def tb(ctx):
        ctx.set(dut.start_position, 0)
        ctx.set(dut.max_length, max_length)
        ctx.set(dut.stream.ready, 1)
        ctx.set(dut.start, 1)
        await ctx.tick()
        ctx.set(dut.start, 0)
        for _ in range(8):
            valid = ctx.get(dut.stream.valid)
            if valid:
                words.append((ctx.get(dut.stream.payload), valid, ctx.get(dut.stream.first), ctx.get(dut.stream.last)))
            if ctx.get(dut.done):
                break
            await ctx.tick()

    sim.add_testbench(tb)
    sim.run()
    return words


def check(endianness, max_length):
    bad = 0
    words = run(endianness, max_length)
    due_total = min(max_length, len(DATA))
    print('data_endianness=%s  max_length=%d  (bytes due: %s)' % (endianness, max_length, DATA[:due_total].hex(' ')))
    for j, (payload, valid, first, last) in enumerate(words):
        due = list(range(4 * j, min(4 * j + 4, due_total)))
        # where does the observed payload hold each due byte?
        lane = {}
        for b in due:
            at = [ln for ln in range(4) if (payload >> (8 * ln)) & 0xFF == DATA[b]]
            lane[b] = at[0] if at else None
        want = sum(1 << ln for ln in lane.values() if ln is not None)
        marked = [(payload >> (8 * ln)) & 0xFF for ln in range(4) if (valid >> ln) & 1]
        ok = valid == want and None not in lane.values()
        bad += not ok
        print('  word %d: payload=%#010x first=%d last=%d  valid observed=%s expected=%s   bytes marked valid: [%s]  bytes due: [%s]   %s' % (
            j, payload, first, last, format(valid, '04b'), format(want, '04b'),
            ' '.join('%02x' % x for x in marked), ' '.join('%02x' % DATA[b] for b in due), 'ok' if ok else 'MISMATCH'))
    return bad


if __name__ == '__main__':
    bad = 0
    for ml in (1, 2, 3, 5, 6):
        bad += check('big', ml)
    print('-- for comparison, the same requests with little-endian data --')
    ref = 0
    for ml in (1, 6):
        ref += check('little', ml)
    print('RESULT: %s' % ('big-endian valid lanes are WRONG for max_length-truncated words (%d mismatching word(s)); little-endian: %s'
                          % (bad, 'ok' if not ref else '%d mismatch(es)' % ref) if bad else 'no mismatch observed'))
    sys.exit(1 if bad else 0)
