"""C02 -- USB2 data packets are accepted iff their CRC16 is valid, payload intact."""
from ..ir import E
from .. import q
from ..fsm import must_exit, state_outcomes, reaches, find_path

TITLE = 'USB2 data packet reception'
FLOOR = 25
DECIDES = ('On USBDataPacketReceiver: (a) every receiving state returns to the initial state (the reporting state: to the '
           'initial or the delay state) on every path once rx_active is low; (b) packet_complete and crc_mismatch are '
           'raised only in the reporting state, at packet end, in the two arms of one comparison of the pipelined CRC with '
           'the two held bytes -- never both; the strobes default to 0; (c) the reporting state is reachable only through '
           'the PID edge (check nibble valid and DATA class xx11) and two byte captures, so <2 bytes after the PID never '
           'report; (d) stream.next only on a valid byte in the reporting state, payload = the older held byte, the two-byte '
           'hold shifts new->[8:16]->[0:8] and the CRC is pipelined by two bytes (crc -> last_byte -> last_word) on every '
           'byte, so the compared CRC excludes the two trailing bytes; data_crc.start only in the PID state; (e) '
           'ready_for_response only in the state whose single entry is the packet_complete edge, under timer.tx_allowed, '
           'and the timer starts with packet_complete; packet_id reports the captured PID; (f) USBDevice feeds the shared '
           'CRC16 unit from utmi.rx_data / rx_valid and forwards complete / mismatch / ready / PID toggle. ')
NOT_DECIDED = 'byte-for-byte stream equality over all rx_valid gap patterns; the CRC16 equations (C30).'
RXA, RXV = 'self.utmi.rx_active', 'self.utmi.rx_valid'
PIDCHK = 'self.utmi.rx_data[0:4] == ~self.utmi.rx_data[4:8]'
ISDATA = '3 == self.utmi.rx_data[0:2]'


def run(ctx):
    ir = ctx.ir('USBDataPacketReceiver', 'usb2.packet')
    fsm = ctx.the_fsm(ir)
    init = fsm.init
    pc = q.raises(ir, 'self.packet_complete')
    cm = q.raises(ir, 'self.crc_mismatch')
    ctx.need(len(pc) == 1 and len(cm) == 1, 'packet_complete / crc_mismatch raise sites')
    R = q.state_of(pc[0])
    ctx.need(R is not None, 'reporting state')
    rr = q.raises(ir, 'self.ready_for_response')
    ctx.need(len(rr) == 1 and rr[0].state, 'ready_for_response site')
    D = q.state_of(rr[0])
    role = lambda s: {R: 'report-state', D: 'delay-state', init: 'init'}.get(s, 'state#%d' % fsm.states.index(s))
    # the idle state arms on the LEVEL of rx_active: whenever a packet is in progress it must leave, whatever else holds --
    # the receiver may reach idle after rx_active rose (it sits in the inter-packet delay state for up to 80 cycles), so an
    # edge-triggered arm misses the whole packet
    oi = state_outcomes(fsm, init, {RXA: True})
    ctx.ob('C02.idle-arms-on-level', 'USBDataPacketReceiver.init.leave', None not in oi and init not in oi and len(oi) == 1, fsm.state_loc[init],
           'with rx_active high the initial state must always move on to the PID state: outcomes %s' % sorted(map(str, oi)))
    # (a)
    for s in fsm.states:
        if s in (init, D):
            continue
        tg = {init, D} if s == R else {init}
        ok, cex = must_exit(fsm, s, {RXA: False, RXV: False}, targets=tg)
        ctx.ob('C02.packet-end', 'USBDataPacketReceiver.' + role(s), ok, fsm.state_loc[s],
               'state %s must leave when the packet ends (rx_active low): %s' % (s, cex))
    for e in fsm.in_edges(init):
        if e.src == D:
            continue
        ctx.ob('C02.idle-only-at-packet-end', 'USBDataPacketReceiver.%s->init' % role(e.src), (RXA, False) in q.atoms(e), e.loc,
               'returning to the initial state while the packet is still in progress lets its remaining bytes be parsed as a new packet: %s' % q.fmt(e))
    # (b)
    ap, am = q.atoms(pc[0]), q.atoms(cm[0])
    cmp_ = [a for a, p in ap if p and ' == ' in a and 'crc' in a]
    ok = q.state_of(cm[0]) == R and len(cmp_) == 1 and (RXA, False) in ap and am == (ap - {(cmp_[0], True)}) | {(cmp_[0], False)}
    ctx.ob('C02.complete-xor-mismatch', 'USBDataPacketReceiver.strobes', ok, pc[0].loc,
           'packet_complete / crc_mismatch must be the two arms of one CRC comparison at packet end: %s | %s' % (sorted(ap), sorted(am)))
    if cmp_:
        sides = sorted(x.strip() for x in cmp_[0].split(' == '))
        hold = [x for x in sides if 'crc' not in x]
        crcreg = [x for x in sides if 'crc' in x]
    else:
        hold, crcreg = [], []
    ctx.need(len(hold) == 1 and len(crcreg) == 1, 'CRC comparison operands')
    hold, crcreg = hold[0], crcreg[0]
    for nm, site in (('packet_complete', pc[0]), ('crc_mismatch', cm[0])):
        dflt = [a for a in q.clears(ir, 'self.' + nm) if not a.guard and a.state is None and a.order < site.order]
        ctx.ob('C02.strobe-default', 'USBDataPacketReceiver.%s.default' % nm, len(dflt) == 1, site.loc, '%s defaults to 0 each cycle' % nm)
    # (c)
    first = {e.dst for e in fsm.out_edges(init)}
    ctx.need(len(first) == 1, 'PID state')
    P = first.pop()
    pes = [e for e in fsm.out_edges(P) if e.dst != init and reaches(fsm, e.dst, R, avoid={init})]
    ctx.need(len(pes) == 1, 'the edge accepting a DATA PID')
    pe = pes[0]
    ok = q.has(pe, PIDCHK) and q.has(pe, ISDATA) and q.has(pe, RXV)
    ctx.ob('C02.pid-check', 'USBDataPacketReceiver.pid-edge', ok, pe.loc,
           'a packet is received only for a PID with valid check nibble and DATA class (low bits 11): %s' % q.fmt(pe))
    p = find_path(fsm, init, R, edge_ok=lambda e: e is not pe)
    ctx.ob('C02.pid-check', 'USBDataPacketReceiver.init=>report', p is None, pe.loc, 'a path reaches the reporting state around the PID test')
    cap = [a for a in ir.drivers('self.active_pid', exact=True)]
    ok = len(cap) == 1 and cap[0].rhs.canon() == 'self.utmi.rx_data' and q.atoms(cap[0]) == q.atoms(pe) and cap[0].state == pe.state
    ctx.ob('C02.pid-capture', 'USBDataPacketReceiver.active_pid', ok, cap[0].loc if cap else None, 'PID captured on the PID edge')
    # two byte captures before the reporting state
    chain = []
    s = pe.dst
    while s != R and len(chain) < 6:
        nx = [e for e in fsm.out_edges(s) if e.dst != init and (e.dst == R or reaches(fsm, e.dst, R, avoid={init}))]
        if len(nx) != 1:
            break
        chain.append(nx[0])
        s = nx[0].dst
    ok = len(chain) == 2 and s == R and all(q.atoms(e) == {(RXV, True)} for e in chain) and len(fsm.in_edges(R)) == 1
    ctx.ob('C02.two-bytes-before-report', 'USBDataPacketReceiver.byte-chain', ok, fsm.state_loc[pe.dst],
           'exactly two valid-byte edges lead from the PID state to the reporting state: %s' % [q.fmt(e) for e in chain])
    # (d)
    sn = q.raises(ir, 'self.stream.next')
    ok = len(sn) == 1 and q.state_of(sn[0]) == R and q.atoms(sn[0]) == {(RXV, True)}
    ctx.ob('C02.stream-next', 'USBDataPacketReceiver.stream.next', ok, sn[0].loc if sn else None,
           'stream.next only for a valid byte in the reporting state: %s' % [q.fmt(a) for a in sn])
    sp = ir.drivers('self.stream.payload', exact=True)
    ok = len(sp) == 1 and sp[0].rhs.canon() == hold + '[0:8]' and q.state_of(sp[0]) == R and sn and q.atoms(sp[0]) == q.atoms(sn[0])
    ctx.ob('C02.stream-payload', 'USBDataPacketReceiver.stream.payload', ok, sp[0].loc if sp else None,
           'the streamed byte is the older of the two held bytes: %s' % [q.fmt(a) for a in sp])
    sv = q.raises(ir, 'self.stream.valid')
    ctx.ob('C02.stream-next', 'USBDataPacketReceiver.stream.valid', len(sv) == 1 and q.state_of(sv[0]) == R and not sv[0].guard, None, 'stream.valid marks the reporting state')
    byte_sites = [chain[0], chain[1]] if len(chain) == 2 else []
    for idx, (st, guard, full) in enumerate([(e.state, q.atoms(e), i == 1) for i, e in enumerate(byte_sites)] + [((fsm.id, R), {(RXV, True)}, True)]):
        here = {}
        for a in ir.assigns:
            if a.state == st and q.atoms(a) == guard and a.domain != 'comb' and isinstance(a.rhs, E):
                for k_, v_ in q.split_parts(a):            # `hold.eq(Cat(lo, hi))` and two slice assignments: one form
                    here[k_] = v_.canon()
        want = {hold + '[8:16]': 'self.utmi.rx_data', 'last_byte_crc': 'self.data_crc.crc'}
        if full:
            want.update({hold + '[0:8]': hold + '[8:16]', crcreg: 'last_byte_crc'})
        lbc = [k for k, v in here.items() if v == 'self.data_crc.crc']
        if len(lbc) == 1 and lbc[0] != 'last_byte_crc':
            want = {k.replace('last_byte_crc', lbc[0]): v.replace('last_byte_crc', lbc[0]) for k, v in want.items()}
        ok = all(here.get(k) == v for k, v in want.items())
        ctx.ob('C02.pipeline', 'USBDataPacketReceiver.byte-capture#%d' % idx, ok, fsm.state_loc[st[1]],
               'each received byte shifts the two-byte hold and the CRC pipeline (so the CRC compared at the end excludes the '
               'two trailing bytes): expected %s, found %s' % (want, here))
    st_ = q.raises(ir, 'self.data_crc.start')
    ok = len(st_) == 1 and q.state_of(st_[0]) == P and not st_[0].guard
    ctx.ob('C02.crc-restart', 'USBDataPacketReceiver.data_crc.start', ok, st_[0].loc if st_ else None, 'the CRC restarts in the PID state of every packet')
    # (e)
    ins = fsm.in_edges(D)
    ok = len(ins) == 1 and ins[0].src == R and q.atoms(ins[0]) == ap
    ctx.ob('C02.ready-after-complete', 'USBDataPacketReceiver.delay-entry', ok, ins[0].loc if ins else None,
           'the delay state is entered only together with packet_complete: %s' % [q.fmt(e) for e in ins])
    ok = q.atoms(rr[0]) == {('self.timer.tx_allowed', True)} and set(state_outcomes(fsm, D, {'self.timer.tx_allowed': True})) == {init}
    ctx.ob('C02.ready-after-complete', 'USBDataPacketReceiver.ready_for_response', ok, rr[0].loc, 'ready_for_response when the inter-packet gap elapsed, then idle')
    ts = q.raises(ir, 'self.timer.start')
    ctx.ob('C02.ready-after-complete', 'USBDataPacketReceiver.timer.start', len(ts) == 1 and q.atoms(ts[0]) == ap and ts[0].state == pc[0].state, ts[0].loc if ts else None,
           'the gap timer starts with packet_complete')
    pi = ir.drivers('self.packet_id', exact=True)
    ctx.ob('C02.pid-capture', 'USBDataPacketReceiver.packet_id', len(pi) == 1 and pi[0].rhs.canon() == 'self.active_pid' and q.atoms(pi[0]) == ap, None, 'packet_id <= captured PID')
    # (f)
    dev = ctx.ir('USBDevice', 'usb2.device', allow_opaque=True)
    for lhs, rhs in (('data_crc.rx_data', 'self.utmi.rx_data'), ('data_crc.rx_valid', 'self.utmi.rx_valid'),
                     ('endpoint_mux.shared.rx_complete', 'receiver.packet_complete'), ('endpoint_mux.shared.rx_invalid', 'receiver.crc_mismatch'),
                     ('endpoint_mux.shared.rx_ready_for_response', 'receiver.ready_for_response'),
                     ('endpoint_mux.shared.rx_pid_toggle', 'receiver.active_pid[3:4]')):
        d = dev.drivers(lhs, exact=True)
        ok = len(d) == 1 and d[0].rhs.canon() == rhs and not [x for x in q.atoms(d[0]) if not x[0].startswith('cfg:')]
        ctx.ob('C02.device-wiring', 'USBDevice.' + lhs, ok, d[0].loc if d else None, '%s <= %s: %s' % (lhs, rhs, [q.fmt(x) for x in d]))
    subs = {s_.name: s_.obj.clsname for s_ in dev.submodules}
    ctx.ob('C02.device-wiring', 'USBDevice.submodules', subs.get('receiver') == 'USBDataPacketReceiver' and subs.get('data_crc') == 'USBDataPacketCRC', None,
           'receiver and shared CRC unit are instantiated')
