"""C17 -- status (signal) IN endpoints report the latched value consistently."""
from ..ir import E
from .. import q
from ..fsm import reachable, reaches, find_path, assignments, holds, guard_atoms, atom_of

TITLE = 'status IN endpoint: latch / retransmit / toggle'
FLOOR = 100
DECIDES = ('On USBSignalInEndpoint, for several widths (whole and partial last byte), both byte orders, several endpoint '
           'numbers and both signal_domain settings; states are identified by role (transmit = raises tx.valid, ack-wait = '
           'holds the toggle flip, latching = writes the register tx.payload reads): '
           '(a) tx.payload is, for every byte count c < ceil(width/8) (index expression evaluated numerically), the '
           'slice [8k, min(8k+8, width)) of ONE usb-domain register with k = c for little and ceil(width/8)-1-c for big '
           'endian -- never the live signal; (b) that register is written only with all `width` bits of self.signal (or a '
           'full-width synchronised copy), only in states that cannot be reached from the transmit state without an ACK, '
           'and is written on every edge from such a state into the transmit state; the initial state is one of them; '
           '(c) every edge into the transmit state carries exactly endpoint == endpoint_number & is_in & '
           'ready_for_response, wins in its state, and restarts the byte counter; the counter advances by one exactly '
           'under tx.ready, has no other writer and can hold the byte count; (d) tx.valid is raised exactly in the '
           'transmit state, tx.first holds on byte 0 and tx.last exactly on the last byte, and the transmit state moves to the '
           'ack-wait state exactly under tx.ready on the last byte (exact last-wins outcome); (e) every write of '
           'tx_pid_toggle sits in the ack-wait state under handshakes_in.ack and maps DATA0<->DATA1 (evaluated on both '
           'values, bit 1 stays 0); in the ack-wait state the toggle flips if and only if the FSM moves to a latching '
           'state (exact enumeration of guard atoms), a new token without ACK always leaves it for a non-latching '
           'retry state that reaches the transmit state again without latching; status_read_complete is raised only '
           'there under ACK. ')
NOT_DECIDED = ('value equality end to end (needs simulation); the cycle in which handshakes_in.ack and tokenizer.new_token '
               'coincide (a handshake and a token packet cannot end in the same cycle; priority between them is not '
               'demanded); clock-domain-crossing quality for signal_domain != "usb"; clear-halt toggle reset (C15).')

CLS = 'USBSignalInEndpoint'
ACK = 'self.interface.handshakes_in.ack'
NEWTOK = 'self.interface.tokenizer.new_token'
EPNUM = 'self.interface.tokenizer.endpoint'
IS_IN = 'self.interface.tokenizer.is_in'
RFR = 'self.interface.tokenizer.ready_for_response'
TXREADY = 'self.interface.tx.ready'
TOGGLE = 'self.interface.tx_pid_toggle'
SIGNAL = 'self.signal'


class NoEval(Exception):
    pass


def ev(e, env):
    """Numeric value of an expression under env {signal name: int}; Amaranth arithmetic widens, so plain ints."""
    if not isinstance(e, E):
        if isinstance(e, (int, bool)):
            return int(e)
        raise NoEval(repr(e))
    op = e.op
    if op == 'const':
        if not isinstance(e.val, int):
            raise NoEval(e.canon())
        return e.val
    if op == 'sig':
        n = e.args[0].name
        if n not in env:
            raise NoEval('free signal ' + n)
        return env[n]
    if op == 'slice':
        v = ev(e.args[0], env)
        lo, hi = e.args[1], e.args[2]
        if not isinstance(lo, int) or not isinstance(hi, int):
            raise NoEval(e.canon())
        return (v >> lo) & ((1 << (hi - lo)) - 1)
    if op == '~':
        a = e.args[0]
        if not isinstance(a, E) or a.w is None:
            raise NoEval('~ of unknown width: ' + e.canon())
        return ~ev(a, env) & ((1 << a.w) - 1)
    if op == 'neg':
        return -ev(e.args[0], env)
    vals = [ev(a, env) for a in e.args]
    if op == '+':
        return sum(vals)
    if op == '*':
        r = 1
        for v in vals:
            r *= v
        return r
    if op in ('&', '|', '^'):
        r = vals[0]
        for v in vals[1:]:
            r = r & v if op == '&' else r | v if op == '|' else r ^ v
        return r
    if len(vals) == 2:
        a, b = vals
        if op == '-':
            return a - b
        if op == '==':
            return int(a == b)
        if op == '!=':
            return int(a != b)
        if op == '<':
            return int(a < b)
        if op == '<=':
            return int(a <= b)
        if op == '>':
            return int(a > b)
        if op == '>=':
            return int(a >= b)
        if op == '<<':
            return a << b
        if op == '>>':
            return a >> b
    if op == 'mux' and len(vals) == 3:
        return vals[1] if vals[0] else vals[2]
    raise NoEval(e.canon())


def subset(small, big):
    return q.atoms(small) <= q.atoms(big)


def outcome(edges, asg):
    """Destination under last-assignment-wins for a complete atom assignment (None = stays)."""
    dst, win = None, None
    for e in sorted(edges, key=lambda x: x.order):
        if holds(e.guard, asg):
            dst, win = e.dst, e
    return dst, win


def split_atoms(items, counter):
    """Guard literals of items -> (counter literals {atom: E}, other atom names)."""
    cnt, other = {}, set()
    for it in items:
        for l in it.guard:
            a = atom_of(l)[0]
            if isinstance(l.e, E) and l.e.sigs() and l.e.sigs() <= {counter}:
                cnt[a] = l.e
            else:
                other.add(a)
    return cnt, other


def slice_parts(e):
    """(signal name, lo, hi) of an element that is a signal or a constant slice of one, else None."""
    if not isinstance(e, E):
        return None
    if e.op == 'sig' and e.w is not None:
        return e.args[0].name, 0, e.w
    if e.op == 'slice' and isinstance(e.args[0], E) and e.args[0].op == 'sig' and isinstance(e.args[1], int) \
            and isinstance(e.args[2], int):
        return e.args[0].args[0].name, e.args[1], e.args[2]
    return None


def check(ctx, width, endianness, ep, domain):
    kw = dict(width=width, endpoint_number=ep)
    if endianness is None:            # constructor defaults: documented as little endian, usb domain
        tag = 'w%d,defaults,ep%d' % (width, ep)
        endianness, domain = 'little', 'usb'
    else:
        tag = 'w%d,%s,ep%d,%s' % (width, endianness, ep, domain)
        kw.update(endianness=endianness, signal_domain=domain)
    K = lambda role: '%s.%s[%s]' % (CLS, role, tag)
    ir = ctx.ir(CLS, 'endpoints.status', **kw)
    fsm = ctx.the_fsm(ir)
    nbytes = (width + 7) // 8
    S = lambda s: str(s)

    # ------------------------------------------------------------------ roles
    valid_up = q.raises(ir, 'self.interface.tx.valid')
    t_states = {q.state_of(a) for a in valid_up}
    ctx.need(valid_up and len(t_states - {None}) >= 1, 'a state that raises interface.tx.valid (transmit state)')
    T = sorted(s for s in t_states if s is not None)[0]
    incs = [a for a in ir.assigns if a.state == (fsm.id, T) and a.domain != 'comb' and a.lhs.op == 'sig'
            and isinstance(a.rhs, E) and a.rhs.canon() == '1 + ' + a.lhs.canon()]
    ctx.need(len({a.lhs.canon() for a in incs}) == 1, 'the byte counter (the one signal incremented in the transmit state)')
    counter = incs[0].lhs.canon()
    cinfo = ir.signals.get(counter)
    ctx.need(cinfo is not None and cinfo.w is not None, 'declared width of the byte counter')
    tog = ir.drivers(TOGGLE, exact=True)
    w_states = sorted({q.state_of(a) for a in tog if a.state})
    t_edges = fsm.out_edges(T)

    def t_dst(c, ready, others=None):
        cl, oth = split_atoms(t_edges, counter)
        asg = {a: False for a in oth}
        asg.update(others or {})
        asg[TXREADY] = ready
        for a, e in cl.items():
            asg[a] = bool(ev(e, {counter: c}))
        return outcome(t_edges, asg)[0]
    try:
        done_dst = t_dst(nbytes - 1, True)
    except NoEval as ex:
        ctx.need(False, 'guards of the transmit state over the byte counter: %s' % ex)
    if len(w_states) == 1:
        W = w_states[0]
    else:
        ctx.need(isinstance(done_dst, str) and done_dst != T, 'the ack-wait state (neither a unique state flipping '
                 'tx_pid_toggle nor a successor of the transmit state on the last byte)')
        W = done_dst
    w_edges = fsm.out_edges(W)

    # ------------------------------------------------------------------ (a) payload
    pd = ir.drivers('self.interface.tx.payload', exact=True)
    ctx.need(len(pd) == 1 and isinstance(pd[0].rhs, E), 'the single driver of interface.tx.payload')
    pd = pd[0]
    if pd.rhs.op == 'arr':
        idx, elems = pd.rhs.args[0], list(pd.rhs.args[1:])
    else:
        idx, elems = E('const', val=0), [pd.rhs]
    ctx.need(isinstance(idx, E) and idx.sigs() <= {counter}, 'tx.payload is indexed by the byte counter only (%s)' % idx.canon())
    parts = [slice_parts(x) for x in elems]
    regs = sorted({p[0] for p in parts if p} | {s for x, p in zip(elems, parts) if p is None for s in x.sigs()})
    ctx.ob('C17.payload-uncond', K('tx.payload.driver'),
           pd.domain == 'comb' and not pd.guard and q.state_of(pd) in (None, T), pd.loc,
           'tx.payload must be driven combinationally and unconditionally (at least throughout the transmit state): %s' % q.fmt(pd))
    bad = None
    try:
        for c in range(nbytes):
            v = ev(idx, {counter: c})
            k = c if endianness == 'little' else nbytes - 1 - c
            want = (8 * k, min(8 * k + 8, width))
            if not (0 <= v < len(elems)):
                bad = 'byte %d selects element %d of %d' % (c, v, len(elems))
            elif parts[v] is None:
                bad = 'byte %d is %s, not a plain slice of the latched register' % (c, elems[v].canon())
            elif (parts[v][1], parts[v][2]) != want or len(regs) != 1:
                bad = 'byte %d on the wire is %s[%d:%d], %s-endian order requires bits [%d:%d]' % (
                    c, parts[v][0], parts[v][1], parts[v][2], endianness, want[0], want[1])
            if bad:
                break
    except NoEval as ex:
        ctx.need(False, 'index expression of tx.payload: %s' % ex)
    ctx.ob('C17.byte-order', K('tx.payload.byte-order'), bad is None and len(elems) >= nbytes, pd.loc,
           '%s (%d bytes, payload = %s)' % (bad or 'too few byte lanes', nbytes, pd.rhs.canon()[:200]))
    ctx.need(len(regs) >= 1, 'the register tx.payload reads')
    reg = regs[0]
    latches = ir.drivers(reg, exact=True)
    rinfo = ir.signals.get(reg)
    ok = len(regs) == 1 and reg != SIGNAL and bool(latches) and all(a.domain == fsm.domain for a in latches)
    ctx.ob('C17.latched-not-live', K('tx.payload.source'), ok, pd.loc,
           'tx.payload must read one register of the %s domain that holds the value for the whole transfer and its '
           'retries; it reads %s (writers: %s)' % (fsm.domain, regs, [q.fmt(a) for a in latches][:3]))

    # ------------------------------------------------------------------ (b) latch
    def full_signal(e):
        if not isinstance(e, E) or e.op != 'sig':
            return False
        n = e.args[0].name
        if n == SIGNAL:
            return True
        ds = ir.drivers(n, exact=True)
        return (len(ds) == 1 and getattr(ds[0], 'synchronizer', False) and ds[0].lhs.op == 'sig' and not ds[0].guard
                and ds[0].rhs.canon() == 'ffsync(%s)' % SIGNAL and ds[0].domain == 'sync:' + fsm.domain
                and ir.signals.get(n) is not None and ir.signals[n].w == width)
    sinfo = ir.signals.get(SIGNAL)
    ctx.need(sinfo is not None, 'self.signal')
    ok = bool(latches) and all(a.lhs.op == 'sig' and full_signal(a.rhs) for a in latches) and \
        rinfo is not None and rinfo.w == width and sinfo.w == width
    ctx.ob('C17.latch-source', K('latch.source'), ok, latches[0].loc if latches else pd.loc,
           'the transmitted register (width %s) must be loaded with all %d bits of self.signal (width %s) or of a '
           'full-width synchronised copy: %s' % (rinfo.w if rinfo else '?', width, sinfo.w, [q.fmt(a) for a in latches][:3]))
    if domain != 'usb' and any(a.rhs.canon() == SIGNAL for a in latches) and \
            any(getattr(a, 'synchronizer', False) for a in ir.assigns):
        note = ('signal_domain=%r: the FFSynchronizer output is never read; the register samples self.signal directly '
                '(clock-domain crossing is not part of the decided clauses)' % domain)
        if note not in ctx.notes:
            ctx.note(note)
    L = {q.state_of(a) for a in latches if a.state}
    no_ack = lambda e: not q.has(e, ACK, True)
    inflight = reachable(fsm, T, edge_ok=no_ack)
    badl = [a for a in latches if a.state is None or q.state_of(a) in inflight]
    msg = ''
    if badl:
        s = q.state_of(badl[0])
        p = find_path(fsm, T, s, edge_ok=no_ack) if s is not None and s != T else None
        msg = 'the value is re-sampled %s, which is reachable from the transmit state %s without an ACK%s -- a retry ' \
              'would carry a different value under the same toggle: %s' % (
                  'in state %s' % s if s else 'outside the FSM', T,
                  ' (%s)' % ' ; '.join('%s->%s if %s' % (e.src, e.dst, sorted(q.pos_atoms(e)) or '1') for e in p) if p else '',
                  q.fmt(badl[0]))
    ctx.ob('C17.latch-only-before-transfer', K('latch.states'), not badl, badl[0].loc if badl else None, msg)
    live = reachable(fsm, fsm.init)
    fresh_in = [e for e in fsm.in_edges(T) if e.src != T and e.src not in inflight and e.src in live]
    miss = [e for e in fresh_in if not any(a.state == (fsm.id, e.src) and subset(a, e) for a in latches)]
    ctx.ob('C17.latch-on-every-new-poll', K('latch.on-entry'), bool(fresh_in) and not miss,
           (miss[0].loc if miss else fsm.state_loc.get(T)),
           'every start of a new transfer (edge into %s from a state that is only reached after an ACK) must sample '
           'self.signal under the same condition: %s' % (T, [q.fmt(e) for e in miss] or 'no such edge exists'))
    ctx.ob('C17.init-latches', K('fsm.init'), fsm.init in L and fsm.init not in inflight, fsm.loc,
           'the initial state %s must be a sampling (idle) state; sampling states: %s' % (fsm.init, sorted(map(S, L))))

    # ------------------------------------------------------------------ (c) entry into the transmit state / counter
    entries = [e for e in fsm.in_edges(T) if e.src != T]
    ctx.need(entries, 'edges into the transmit state')
    want_guard = {('%d == %s' % (ep, EPNUM), True), (IS_IN, True), (RFR, True)}
    n_role = {}
    for e in sorted(entries, key=lambda x: x.order):
        role = 'idle' if e.src in L and e.src not in inflight else 'retry'
        n_role[role] = n_role.get(role, 0) + 1
        rk = role if n_role[role] == 1 else '%s#%d' % (role, n_role[role])
        ctx.ob('C17.poll-guard', K('transmit.entry.%s' % rk), q.atoms(e) == want_guard, e.loc,
               'a response may start exactly when an IN token for endpoint %d is ready for its response '
               '(%s): %s' % (ep, ' & '.join(sorted(a for a, _ in want_guard)), q.fmt(e)))
        asg_atoms = set()
        for x in fsm.out_edges(e.src):
            asg_atoms |= {a for a, _ in guard_atoms(x.guard)}
        assume = {a: p for a, p in q.atoms(e)}
        dsts = set()
        for asg in assignments(asg_atoms, assume):
            if asg.get(ACK) and asg.get(NEWTOK):
                continue
            dsts.add(outcome(fsm.out_edges(e.src), asg)[0])
        ctx.ob('C17.poll-answered', K('transmit.entry.%s.wins' % rk), dsts == {T}, e.loc,
               'in state %s a poll must always lead to the transmit state (last m.next wins): outcomes %s' % (
                   e.src, sorted(map(S, dsts))))
        clr = [a for a in q.clears(ir, counter) if a.state == (fsm.id, e.src) and a.domain == fsm.domain and subset(a, e)]
        oth = [a for a in q.raises(ir, counter) if a.state == (fsm.id, e.src)]
        ctx.ob('C17.counter-restart', K('byte-counter.clear.%s' % rk), bool(clr) and not oth, e.loc,
               'the byte counter %s must be cleared whenever %s -> %s is taken (a retry restarts from byte 0): clears %s, '
               'other writers %s' % (counter, e.src, T, [q.fmt(a) for a in clr], [q.fmt(a) for a in oth]))
    roles = set(r.split('#')[0] for r in n_role)
    ctx.ob('C17.entry-kinds', K('transmit.entries'), roles == {'idle', 'retry'}, fsm.state_loc.get(T),
           'the transmit state needs an entry from a sampling state (new transfer) and one from a non-sampling state '
           '(retry): found %s' % sorted(n_role))
    ups = q.raises(ir, counter)
    ok = len(ups) == 1 and ups[0] is incs[0] and len(incs) == 1 and q.atoms(ups[0]) == {(TXREADY, True)} and \
        ups[0].domain == fsm.domain
    ctx.ob('C17.counter-advance', K('byte-counter.inc'), ok, ups[0].loc if ups else None,
           'the byte counter advances by one exactly when the transmitter takes a byte (tx.ready) in the transmit state '
           'and has no other non-zero writer: %s' % [q.fmt(a) for a in ups])
    ctx.ob('C17.counter-range', K('byte-counter.range'),
           (1 << cinfo.w) >= nbytes and (cinfo.rng is None or cinfo.rng[1] >= nbytes), cinfo.loc,
           'byte counter width %s / range %s must hold the byte index %d' % (cinfo.w, cinfo.rng, nbytes - 1))

    # ------------------------------------------------------------------ (d) stream framing
    ok = t_states == {T} and all(q.is_one(a.rhs) and not a.guard and a.domain == 'comb' for a in valid_up)
    ctx.ob('C17.tx-valid', K('tx.valid'), ok, valid_up[0].loc,
           'tx.valid must be 1 throughout the transmit state and nowhere else: %s' % [q.fmt(a) for a in valid_up])
    # tx.first on later bytes is ignored by the packet generator (it only starts packets on it; a `last` without a
    # preceding `first` is sent as a zero-length packet), so only byte 0 is demanded for it
    for name, when, what in (('first', lambda c: c == 0, 'on byte 0'),
                             ('last', lambda c: c == nbytes - 1, 'on byte %d only' % (nbytes - 1))):
        # every driver is a combinatorial assignment inside the transmit state; per byte index the last assignment whose
        # guard holds gives the value (`first.eq(cnt == 0)` and `with m.If(cnt == 0): first.eq(1)` are the same flag)
        ds = sorted(ir.drivers('self.interface.tx.' + name, exact=True), key=lambda a: a.order)
        ok = bool(ds) and all(a.state == (fsm.id, T) and a.domain == 'comb' for a in ds)
        got = None
        if ok:
            try:
                got = []
                for c in range(nbytes):
                    v = 0
                    for a in ds:
                        if all(bool(ev(l.e, {counter: c})) == l.pos for l in a.guard):
                            v = ev(a.rhs, {counter: c})
                    got.append(bool(v))
            except NoEval as ex:
                ctx.need(False, 'tx.%s as a function of the byte counter: %s' % (name, ex))
            ok = got == [when(c) for c in range(nbytes)] or (name == 'first' and got[0])
        ctx.ob('C17.tx-' + name, K('tx.' + name), ok, ds[0].loc if ds else fsm.state_loc.get(T),
               'tx.%s must be asserted %s of the %d-byte packet (unconditionally, in the transmit state); per byte: %s; %s' % (
                   name, what, nbytes, got, [q.fmt(a) for a in ds][:2]))
    cl, oth = split_atoms(t_edges, counter)
    bad = None
    for c in range(nbytes):
        for asg in assignments(oth | {TXREADY}):
            for a, e in cl.items():
                asg[a] = bool(ev(e, {counter: c}))
            d = outcome(t_edges, asg)[0]
            should = asg[TXREADY] and c == nbytes - 1
            if (d == W) != should:
                bad = 'byte %d, %s: goes to %s' % (c, {k: v for k, v in asg.items() if k not in cl}, d)
                break
        if bad:
            break
    ctx.ob('C17.transmit-exit', K('transmit.exit'), bad is None and W != T, fsm.state_loc.get(T),
           'the transmit state must move to the ack-wait state %s exactly when the last byte (%d) is taken (tx.ready): %s' % (
               W, nbytes - 1, bad))

    # ------------------------------------------------------------------ (e) toggle / ack-wait state
    ok = bool(tog)
    why = 'no write of tx_pid_toggle'
    for a in tog:
        if not (a.state == (fsm.id, W) and a.domain == fsm.domain and q.has(a, ACK, True)):
            ok, why = False, 'written outside "ack-wait state & handshakes_in.ack": %s' % q.fmt(a)
            break
        try:
            for t in (0, 1):
                v = ev(a.rhs, {TOGGLE: t})
                if a.lhs.op == 'sig':
                    new = v & 3
                else:
                    sp = slice_parts(a.lhs)
                    if sp is None:
                        raise NoEval('target ' + a.lhs.canon())
                    m = ((1 << (sp[2] - sp[1])) - 1) << sp[1]
                    new = (t & ~m) | ((v << sp[1]) & m)
                if new != 1 - t:
                    ok, why = False, 'tx_pid_toggle %d becomes %d (DATA0=0 / DATA1=1 must alternate): %s' % (t, new, q.fmt(a))
        except NoEval as ex:
            ctx.need(False, 'value written to tx_pid_toggle: %s' % ex)
        if not ok:
            break
    ctx.ob('C17.toggle-only-on-ack', K('tx_pid_toggle.flip'), ok, tog[0].loc if tog else fsm.state_loc.get(W), why)
    atoms = set()
    for x in list(w_edges) + [a for a in tog if a.state == (fsm.id, W)]:
        atoms |= {a for a, _ in guard_atoms(x.guard)}
    atoms |= {ACK, NEWTOK}
    bad = None
    bad_retry = None
    retry_states = set()
    for asg in assignments(atoms):
        if asg[ACK] and asg[NEWTOK]:
            continue          # a handshake packet and a token packet cannot end in the same cycle
        d, win = outcome(w_edges, asg)
        flip = any(holds(a.guard, asg) for a in tog if a.state == (fsm.id, W))
        if flip != (d in L) and bad is None:
            bad = ('under %s the FSM %s while the toggle %s' % (
                {k: v for k, v in asg.items() if v}, 'moves to the sampling state %s' % d if d in L else
                ('stays' if d is None else 'moves to the non-sampling state %s' % d), 'flips' if flip else 'does not flip'))
        if asg[NEWTOK] and not asg[ACK]:
            if d is None or d in (W, T) or d in L:
                bad_retry = bad_retry or 'under %s: %s' % ({k: v for k, v in asg.items() if v}, 'stays' if d is None else 'goes to %s' % d)
            else:
                retry_states.add(d)
    ctx.ob('C17.toggle-iff-complete', K('ack-wait.outcomes'), bad is None and bool(w_edges), fsm.state_loc.get(W),
           'in the ack-wait state %s the toggle must advance exactly when the transfer completes (return to a sampling '
           'state): %s' % (W, bad or 'no edges'))
    ctx.ob('C17.retry-on-new-token', K('ack-wait.new-token'), bad_retry is None and bool(retry_states), fsm.state_loc.get(W),
           'any new token without an ACK must move the ack-wait state %s to a retry state (otherwise the ACK of another '
           'transfer is taken for ours): %s' % (W, bad_retry or 'no retry state'))
    for i, r in enumerate(sorted(retry_states)):
        ok = reaches(fsm, r, T, avoid=L | {W}) and r not in L
        ctx.ob('C17.retry-retransmits', K('retry-state%s.reaches-transmit' % ('' if i == 0 else '#%d' % (i + 1))), ok,
               fsm.state_loc.get(r), 'the retry state %s must lead back to the transmit state without passing a sampling '
               'state (sampling states %s)' % (r, sorted(map(S, L))))
    src = q.raises(ir, 'self.status_read_complete')
    ok = bool(src) and all(a.domain == 'comb' and a.state == (fsm.id, W) and q.has(a, ACK, True) for a in src)
    ctx.ob('C17.status-strobe', K('status_read_complete'), ok, src[0].loc if src else None,
           'status_read_complete must be a combinational strobe raised only in the ack-wait state under '
           'handshakes_in.ack: %s' % [q.fmt(a) for a in src])
    ctx.ob('C17.domain', K('fsm.domain'), fsm.domain == 'usb', fsm.loc,
           'the endpoint FSM must run in the usb domain (found %s)' % fsm.domain)


QUICK = [(16, 'little', 3, 'usb'), (20, 'big', 1, 'usb'), (8, 'big', 15, 'sync'), (1, 'little', 0, 'usb'), (24, None, 2, None)]


def run(ctx):
    cfgs = list(QUICK)
    if ctx.tier == 'thorough':
        for w in (1, 7, 8, 9, 16, 24, 31, 32, 33, 64):
            for en in ('little', 'big'):
                for dom in ('usb', 'sync'):
                    c = (w, en, (w * 7 + (en == 'big')) % 16, dom)
                    if c not in cfgs:
                        cfgs.append(c)
    for c in cfgs:
        check(ctx, *c)
