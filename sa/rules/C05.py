"""C05 -- inter-packet response timing matches the selected bus speed."""
from ..ir import E, AnalysisError
from .. import q

TITLE = 'inter-packet timing per speed'
FLOOR = 12
DECIDES = ('(a) in USBInterpacketTimer each speed arm (HIGH / FULL / otherwise=LOW) compares the gap counter with the '
           'cycle counts documented for that speed -- HS (1, 24, 92), FS@60MHz (10, 32, 80), FS@12MHz (2, 7, 16), '
           'LS (80, 260, 640) -- after folding the class tables and __init__ bindings; (b) the counter can '
           'represent every compared value, is cleared by the OR of all start strobes and saturates; (c) the three '
           'strobes fan out to every interface; (d) USBDevice and USBTokenDetector drive the timer speed input '
           'from their speed signal. ')
NOT_DECIDED = 'cycle-exact latency of the consumers of the strobes.'

# documented cycle counts [USB2 7.1.18, ULPI 1.1 fig. 18]: (min gap, max gap, rx timeout)
SPEC = {
    60e6: {'HIGH': (1, 24, 92), 'FULL': (10, 32, 80), 'LOW': (80, 260, 640)},
    12e6: {'FULL': (2, 7, 16)},
}
SPEED = {'HIGH': 0, 'FULL': 1, 'LOW': 2}


def arm_of(a):
    """Which speed arm an assignment lies in, from the `K == self.speed` literals of its guard."""
    ks = q.guard_consts(a, 'self.speed')
    if ks.get(0) is True:
        return 'HIGH'
    if ks.get(1) is True:
        return 'FULL'
    if ks.get(2) is True:
        return 'LOW'
    if ks.get(0) is False and ks.get(1) is False:
        return 'LOW'
    return None


def check_config(ctx, clock, fs_only):
    tag = '%dMHz%s' % (clock / 1e6, ',fs_only' if fs_only else '')
    ir = ctx.ir('USBInterpacketTimer', 'usb2.packet', domain_clock=clock, fs_only=fs_only)
    elem = 'self._interfaces[*]'
    outs = {}
    for role, port in (('min', 'tx_allowed'), ('max', 'tx_timeout'), ('rx', 'rx_timeout')):
        ds = ir.drivers('%s.%s' % (elem, port), exact=True)
        ctx.need(len(ds) == 1 and isinstance(ds[0].rhs, E) and ds[0].rhs.op == 'sig' and not ds[0].guard,
                 'USBInterpacketTimer drives interface.%s from one strobe' % port)
        outs[role] = ds[0].rhs.args[0].name
        ctx.ob('C05.fanout', 'USBInterpacketTimer.%s[%s]' % (port, tag), True, ds[0].loc,
               'interface.%s <= %s for every interface' % (port, outs[role]))
    spec = SPEC[clock]
    counter = None
    compared = []
    for idx, role in enumerate(('min', 'max', 'rx')):
        seen_arms = set()
        for a in ir.drivers(outs[role], exact=True):
            arm = arm_of(a)
            key = 'USBInterpacketTimer.%s.%s[%s]' % (arm, role, tag)
            ce = q.const_eq(a.rhs)
            if arm is None or ce is None:
                ctx.ob('C05.value', key, False, a.loc, 'strobe driven outside a speed arm or not by a comparison '
                       'with a constant: %s' % q.fmt(a))
                continue
            seen_arms.add(arm)
            counter = counter or ce[1]
            compared.append(ce[0])
            want = spec.get(arm)
            if want is None:
                ctx.ob('C05.value', key, False, a.loc, 'no documented timing for speed %s at this clock but the arm '
                       'drives the strobe' % arm)
                continue
            ctx.ob('C05.value', key, ce[0] == want[idx] and ce[1] == counter, a.loc,
                   'speed %s: %s strobe compares %s with %r, documented value is %d' % (arm, role, ce[1], ce[0], want[idx]))
        for arm in spec:
            if fs_only and arm != 'FULL':
                continue
            ctx.ob('C05.arm-present', 'USBInterpacketTimer.%s.%s[%s]' % (arm, role, tag), arm in seen_arms, None,
                   'speed %s must drive the %s strobe' % (arm, role))
        if fs_only:
            extra = seen_arms - {'FULL'}
            ctx.ob('C05.fs-only', 'USBInterpacketTimer.%s[%s]' % (role, tag), not extra, None,
                   'fs_only configuration drives %s strobe in arms %s' % (role, sorted(extra)))
    ctx.need(counter is not None, 'gap counter of USBInterpacketTimer')
    si = ir.signals.get(counter)
    ctx.need(si is not None and si.rng is not None, 'declared range of the gap counter')
    hi = si.rng[1]
    mx = max(compared)
    ctx.ob('C05.counter-range', 'USBInterpacketTimer.counter[%s]' % tag, hi > mx + 1 - 1 and hi >= mx + 1, si.loc,
           'counter range(0,%s) must cover the largest compared value %d' % (hi, mx))
    # counter update: cleared under the start strobes, else saturating increment
    ds = ir.drivers(counter, exact=True)
    clr = [a for a in ds if q.is_zero(a.rhs)]
    inc = [a for a in ds if isinstance(a.rhs, E) and a.rhs.op == '+']
    start = '%s.start' % elem
    ok_clr = len(clr) == 1 and q.pos_atoms(clr[0]) == {start} and not q.neg_atoms(clr[0])
    ctx.ob('C05.counter-clear', 'USBInterpacketTimer.counter.clear[%s]' % tag, ok_clr, clr[0].loc if clr else None,
           'counter must be cleared exactly under the OR of the interfaces\' start strobes: %s' % [q.fmt(a) for a in clr])
    ok_inc = len(inc) == 1 and (start, False) in q.atoms(inc[0]) and len(ds) == 2
    sat = None
    if inc:
        for l in inc[0].guard:
            # `counter < K` (also written ~(counter >= K), counter <= K-1): the literal is (counter >= K) negated
            if isinstance(l.e, E) and ((l.e.op == '<' and l.pos) or (l.e.op == '>=' and not l.pos)) and \
                    l.e.args[0].canon() == counter and l.e.args[1].op == 'const':
                sat = l.e.args[1].val
    ctx.ob('C05.counter-saturate', 'USBInterpacketTimer.counter.inc[%s]' % tag,
           ok_inc and sat is not None and mx < sat + 1 <= hi - 1 + 1 and sat < hi, inc[0].loc if inc else None,
           'counter must count (when not cleared) while below a bound above every compared value; bound=%r max=%d '
           'range hi=%s' % (sat, mx, hi))


def run(ctx):
    check_config(ctx, 60e6, False)
    if ctx.tier == 'thorough':
        check_config(ctx, 60e6, True)
        check_config(ctx, 12e6, True)
    # wiring of the speed input (property anchors device.py)
    for cls, mod in (('USBDevice', 'usb2.device'), ('USBTokenDetector', 'usb2.packet')):
        ir = ctx.ir(cls, mod, allow_opaque=True)
        hits = [a for a in ir.assigns if isinstance(a.lhs, E) and a.lhs.op == 'sig'
                and a.lhs.args[0].name.endswith('timer.speed')]
        ok = len(hits) == 1 and isinstance(hits[0].rhs, E) and hits[0].rhs.canon() == 'self.speed' and not hits[0].guard
        ctx.ob('C05.speed-wiring', cls + '.timer.speed', ok, hits[0].loc if hits else None,
               '%s must drive its inter-packet timer speed from self.speed unconditionally: %s' % (
                   cls, [q.fmt(a) for a in hits]))
    dev = ctx.ir('USBDevice', 'usb2.device', allow_opaque=True)
    sp = dev.drivers('self.speed', exact=True)
    ok = len(sp) == 1 and isinstance(sp[0].rhs, E) and sp[0].rhs.canon().endswith('reset_sequencer.current_speed')
    ctx.ob('C05.speed-source', 'USBDevice.speed', ok, sp[0].loc if sp else None,
           'USBDevice.speed must come from the reset sequencer\'s current_speed: %s' % [q.fmt(a) for a in sp])
